"""Behaviour-preserving whole-tree variant: every function-local variable of
pywbem/ and pywbem_mock/ renamed (ast-based; formatting and comments are lost
as a side effect, which also exercises independence from layout).  A check
that reports anything on this variant that it does not report on the
unchanged tree raises a false alarm."""
import ast
import os


class _Ren(ast.NodeTransformer):
    def __init__(self):
        self.stack = []

    def visit_FunctionDef(self, node):
        params = {a.arg for a in node.args.args + node.args.posonlyargs +
                  node.args.kwonlyargs}
        if node.args.vararg:
            params.add(node.args.vararg.arg)
        if node.args.kwarg:
            params.add(node.args.kwarg.arg)
        assigned, declared = set(), set()
        for n in ast.walk(node):
            if isinstance(n, (ast.Global, ast.Nonlocal)):
                declared |= set(n.names)

        def stores(n):
            for c in ast.iter_child_nodes(n):
                if isinstance(c, (ast.FunctionDef, ast.AsyncFunctionDef,
                                  ast.Lambda, ast.ClassDef)):
                    continue
                if isinstance(c, ast.Name) and isinstance(
                        c.ctx, (ast.Store, ast.Del)):
                    assigned.add(c.id)
                stores(c)
        stores(node)
        has_nested = any(isinstance(n, (ast.FunctionDef, ast.AsyncFunctionDef,
                                        ast.Lambda, ast.ClassDef))
                         for n in ast.walk(node) if n is not node)
        ren = {} if has_nested else {
            v: v + '_v' for v in assigned - params - declared
            if not v.startswith('__') and v != '_'}
        self.stack.append(ren)
        node.body = [self.visit(s) for s in node.body]
        self.stack.pop()
        return node
    visit_AsyncFunctionDef = visit_FunctionDef

    def visit_Name(self, node):
        if self.stack and node.id in self.stack[-1]:
            node.id = self.stack[-1][node.id]
        return node

    def visit_ClassDef(self, node):
        self.stack.append({})
        node.body = [self.visit(s) for s in node.body]
        self.stack.pop()
        return node


def overlay(root, packages=('pywbem', 'pywbem_mock')):
    out = {}
    for pkg in packages:
        d = os.path.join(root, pkg)
        for fn in sorted(os.listdir(d)):
            if not fn.endswith('.py') or fn in ('_moflextab.py',
                                                '_mofparsetab.py'):
                continue
            rel = pkg + '/' + fn
            with open(os.path.join(d, fn), encoding='utf-8') as f:
                t = ast.parse(f.read())
            t = _Ren().visit(t)
            ast.fix_missing_locations(t)
            out[rel] = ast.unparse(t) + '\n'
    return out
