"""Self-test: apply seeded source variants to the *current* tree in memory
(overlay), re-run the static rules, and require that the seeded breakage is
reported by the expected rule.  Nothing is executed from /repo.

A variant whose anchor text is no longer present in the tree is 'stale' and
skipped (reported in evidence); a variant that applies but is not reported
is a self-test failure (-> ANALYSIS-ERROR in the thorough tier).
"""
import os
import sys
from concurrent.futures import ProcessPoolExecutor

HERE = os.path.dirname(os.path.abspath(__file__))
sys.path.insert(0, os.path.dirname(HERE))

from pwsa import model  # noqa: E402


def apply_variant(v, root=None):
    root = root or model.REPO
    overlay = {}
    for ed in v['edits']:
        rel = ed['file']
        src = overlay.get(rel)
        if src is None:
            with open(os.path.join(root, rel), encoding='utf-8') as f:
                src = f.read()
        if ed.get('nth') is not None:
            # replace only the nth occurrence (0-based)
            pos = -1
            for _ in range(ed['nth'] + 1):
                pos = src.find(ed['old'], pos + 1)
                if pos < 0:
                    return None
            src = src[:pos] + ed['new'] + src[pos + len(ed['old']):]
            overlay[rel] = src
            continue
        n = src.count(ed['old'])
        if n != ed.get('count', 1):
            return None
        src = src.replace(ed['old'], ed['new'])
        overlay[rel] = src
    return overlay


def parse_patch(text):
    """{relpath: [(start_line, old_lines, new_lines)]} of a unified diff"""
    import re
    files = {}
    cur = None
    hunk = None
    for line in text.splitlines():
        if line.startswith('+++ '):
            name = line[4:].strip()
            cur = name[2:] if name.startswith('b/') else name
            files[cur] = []
            hunk = None
        elif line.startswith('--- ') or line.startswith('diff ') or \
                line.startswith('index '):
            continue
        elif line.startswith('@@'):
            m = re.match(r'@@ -(\d+)', line)
            hunk = (int(m.group(1)) if m else 1, [], [])
            if cur is not None:
                files[cur].append(hunk)
        elif hunk is not None:
            if line.startswith('+'):
                hunk[2].append(line[1:])
            elif line.startswith('-'):
                hunk[1].append(line[1:])
            elif line.startswith(' ') or line == '':
                hunk[1].append(line[1:])
                hunk[2].append(line[1:])
    return files


def apply_patch(text, root=None):
    """overlay {relpath: new source} or None if a hunk does not apply to
    the current tree (stale seed).  A hunk whose old text occurs several
    times is applied at the occurrence nearest to its recorded line."""
    root = root or model.REPO
    overlay = {}
    for rel, hunks in parse_patch(text).items():
        try:
            with open(os.path.join(root, rel), encoding='utf-8') as f:
                src = f.read()
        except OSError:
            return None
        shift = 0
        for start, old, new in hunks:
            o = '\n'.join(old) + '\n'
            n = '\n'.join(new) + '\n'
            pos = []
            k = src.find(o)
            while k != -1:
                if k == 0 or src[k - 1] == '\n':
                    pos.append(k)
                k = src.find(o, k + 1)
            if not pos:
                return None
            want = start + shift

            def lineno(off):
                return src.count('\n', 0, off) + 1
            best = min(pos, key=lambda off: abs(lineno(off) - want))
            src = src[:best] + n + src[best + len(o):]
            shift += len(new) - len(old)
        overlay[rel] = src
    return overlay


def seeded_variants(prop):
    """the sub-agent seeds kept under /verif/seeded whose own property
    check is recorded as detecting them"""
    import glob
    import json
    out = []
    base = os.path.join(os.path.dirname(HERE), 'seeded')
    for mf in sorted(glob.glob(os.path.join(base, '*', 'meta.json'))):
        m = json.load(open(mf))
        if m.get('property') != prop or \
                not m.get('detected_by_own_check'):
            continue
        with open(os.path.join(os.path.dirname(mf), 'patch.diff')) as f:
            out.append({'id': 'seeded-' + m['seed'], 'prop': prop,
                        'patch': f.read(),
                        'expect': {'rule': None, 'contains': ''}})
    return out


def _run_one(v):
    import check
    overlay = apply_patch(v['patch']) if 'patch' in v else apply_variant(v)
    if overlay is None:
        return v['id'], 'stale', ''
    rep = check.run_property(v['prop'], 'quick', overlay=overlay)
    # evaluate without writing evidence
    from pwsa.report import unlisted_findings
    hits = unlisted_findings(rep)
    want = v['expect']
    for f in hits:
        if want.get('rule') is None or (
                f.rule == want.get('rule') and
                want.get('contains', '') in f.key):
            return v['id'], 'detected', f.key
    if rep.analysis_errors and want.get('rule') == 'ANALYSIS-ERROR':
        return v['id'], 'detected', rep.analysis_errors[0]
    return v['id'], 'missed', '; '.join(f.key for f in hits[:3]) + \
        ' errors=' + '; '.join(rep.analysis_errors[:2])


def run(variants, jobs=None):
    jobs = jobs or min(16, os.cpu_count() or 4)
    results = []
    if len(variants) <= 2:
        results = [_run_one(v) for v in variants]
    else:
        with ProcessPoolExecutor(max_workers=jobs) as ex:
            results = list(ex.map(_run_one, variants))
    return results


def run_for_property(prop):
    from selftest import variants as V
    vs = [v for v in V.VARIANTS if v['prop'] == prop] + \
        seeded_variants(prop)
    res = run(vs)
    errors = []
    summary = {'variants': len(vs), 'detected': 0, 'stale': 0, 'missed': 0,
               'results': []}
    for vid, status, info in res:
        summary[status] += 1
        summary['results'].append({'id': vid, 'status': status,
                                   'reported_as': info})
        if status == 'missed':
            errors.append('variant %s applied but was not reported (%s)'
                          % (vid, info))
    if vs and summary['detected'] == 0:
        errors.append('no seeded variant of %s could be applied and '
                      'detected (all stale?)' % prop)
    # silence on an equivalent program: every local renamed, layout lost
    fa = false_alarms_under_renaming(prop)
    summary['alpha_renamed_tree'] = {'false_alarms': fa}
    for m in fa:
        errors.append('false alarm on the alpha-renamed tree: ' + m)
    return {'summary': summary, 'errors': errors}


def false_alarms_under_renaming(prop):
    import check
    from selftest import alpha_variant
    from pwsa.report import _load_json, KNOWN_PATH, REVIEWED_PATH, loose_key
    ov = alpha_variant.overlay(model.REPO)
    rep = check.run_property(prop, 'quick', overlay=ov)
    known = [e['key'] for e in _load_json(KNOWN_PATH, {}).get('findings', [])
             if e.get('property') == prop]
    rev = [e['key'] for e in _load_json(REVIEWED_PATH, {}).get('entries', [])
           if e.get('property') == prop]
    ok = set(known) | set(rev) | {loose_key(k) for k in known + rev}
    out = []
    for rr in rep.rules:
        for f in rr.findings:
            if f.key in ok or loose_key(f.key) in ok:
                continue
            out.append(f.key[:160])
    out += ['ANALYSIS-ERROR ' + m[:160] for m in rep.analysis_errors]
    return out


if __name__ == '__main__':
    from selftest import variants as V
    props = sys.argv[1:] or sorted({v['prop'] for v in V.VARIANTS})
    bad = 0
    for p in props:
        r = run_for_property(p.upper())
        s = r['summary']
        print('%s: %d variants, %d detected, %d stale, %d missed'
              % (p, s['variants'], s['detected'], s['stale'], s['missed']))
        for x in s['results']:
            if x['status'] != 'detected':
                print('   ', x)
        bad += len(r['errors'])
    sys.exit(2 if bad else 0)
