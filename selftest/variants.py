"""Seeded breakages (source-level edits of the current tree, applied in
memory).  Each one still compiles; most would pass the existing test suite.
`expect` names the rule (and a key substring) that must report it."""

OBJ = 'pywbem/_cim_obj.py'
TYP = 'pywbem/_cim_types.py'
UTL = 'pywbem/_utils.py'
NCD = 'pywbem/_vendor/nocasedict/_nocasedict.py'

VARIANTS = []


def V(vid, prop, rule, edits, contains=''):
    if isinstance(edits, tuple):
        edits = [edits]
    VARIANTS.append({
        'id': vid, 'prop': prop,
        'edits': [{'file': e[0], 'old': e[1], 'new': e[2],
                   'count': e[3] if len(e) > 3 else 1,
                   'nth': e[4] if len(e) > 4 else None} for e in edits],
        'expect': {'rule': rule, 'contains': contains}})


V('c04-array-param-not-per-item', 'C04', 'C04.R6',
  ('pywbem/_cim_operations.py',
   "                return _cim_xml.VALUE_ARRAY([paramvalue(x) for x in obj])\n",
   "                return _cim_xml.VALUE_ARRAY([_cim_xml.VALUE(atomic_to_cim_xml(x)) for x in obj])\n"),
  'array-items')

# ---- C05 ------------------------------------------------------------------
V('c05-eq-drop-propagated', 'C05', 'C05.R1',
  (OBJ, "                _eq_item(self.array_size, other.array_size) and\n"
        "                _eq_item(self.propagated, other.propagated) and\n"
        "                _eq_name(self.class_origin, other.class_origin) and\n",
        "                _eq_item(self.array_size, other.array_size) and\n"
        "                _eq_name(self.class_origin, other.class_origin) and\n"),
  'propagated')
V('c05-hash-kind', 'C05', 'C05.R2',
  (OBJ, "            _hash_name(self.reference_class),\n            _hash_item(self.embedded_object),",
        "            _hash_item(self.reference_class),\n            _hash_item(self.embedded_object),"),
  'reference_class')
V('c05-copy-drop-array-size', 'C05', 'C05.R1',
  (OBJ, "            class_origin=self.class_origin,\n            array_size=self.array_size,\n            propagated=self.propagated,\n            is_array=self.is_array,\n            reference_class=self.reference_class,",
        "            class_origin=self.class_origin,\n            propagated=self.propagated,\n            is_array=self.is_array,\n            reference_class=self.reference_class,"),
  'array_size')
V('c05-eq-name-case', 'C05', 'C05.R2',
  (UTL, "    return name1.lower() == name2.lower()", "    return name1 == name2"),
  'name-normalisation')
V('c05-ne', 'C05', 'C05.R4',
  (TYP, "        return not self.__eq__(other)\n\n    def __raise",
        "        return self is not other\n\n    def __raise"), 'ne-not-negation')
V('c05-setter-alias', 'C05', 'C05.R5',
  (OBJ, "        if scopes:\n            self.scopes.update(scopes)",
        "        if scopes:\n            self._scopes = scopes"), 'aliased')
V('c05-ncd-contains', 'C05', 'C05.R2',
  (NCD, "        k = self._casefolded_key(key)\n        return k in self._data",
        "        k = self._casefolded_key(key)\n        return key in self._data"),
  'unfolded-key')
V('c05-wrong-kind', 'C05', 'C05.R3',
  (OBJ, "        return (_eq_name(self.host, other.host) and\n                _eq_name(self.namespace, other.namespace) and\n                _eq_name(self.classname, other.classname) and\n                _eq_dict(self.keybindings, other.keybindings))",
        "        return (_eq_name(self.host, other.host) and\n                _eq_item(self.namespace, other.namespace) and\n                _eq_name(self.classname, other.classname) and\n                _eq_dict(self.keybindings, other.keybindings))"),
  'namespace')

# ---- C06 ------------------------------------------------------------------
V('c06-range-and', 'C06', 'C06.R1',
  (TYP, "if value > cls.maxvalue or value < cls.minvalue:",
        "if value > cls.maxvalue and value < cls.minvalue:"), 'CIMInt.__new__')
V('c06-range-max-only', 'C06', 'C06.R1',
  (TYP, "if value > cls.maxvalue or value < cls.minvalue:",
        "if value > cls.maxvalue:"), 'no-min-check')
V('c06-bound-sint64', 'C06', 'C06.R2',
  (TYP, "    minvalue = -2 ** (64 - 1)", "    minvalue = -2 ** (64 - 1) + 1"),
  'Sint64')
V('c06-bound-uint16', 'C06', 'C06.R2',
  (TYP, "    maxvalue = 2**16 - 1", "    maxvalue = 2**16"), 'Uint16')
V('c06-setter-raw', 'C06', 'C06.R3',
  (OBJ, "        self._value = cimvalue(value, self.type)",
        "        self._value = value if self.type == 'string' else cimvalue(value, self.type)", 4),
  'not-through-cimvalue')
V('c06-real32-digits', 'C06', 'C06.R6',
  (TYP, "s = f'{obj:.11G}'", "s = f'{obj:.7G}'"), 'precision')
V('c06-real64-digits', 'C06', 'C06.R6',
  (TYP, "s = f'{obj:.17G}'", "s = f'{obj:.15G}'"), 'precision')
V('c06-copy-precision', 'C06', 'C06.R5',
  (TYP, "            self.__precision = dtarg.precision\n", ""), '__precision')
V('c06-cimvalue-passthrough', 'C06', 'C06.R4',
  (OBJ, "    if isinstance(value, type_obj):\n        return value\n    return type_obj(value)",
        "    if isinstance(value, (type_obj, int)):\n        return value\n    return type_obj(value)"),
  'cimvalue')
V('c06-dt-field-pos', 'C06', 'C06.R7',
  (TYP, "hours_str = self._to_str(hours, 8, 2)",
        "hours_str = self._to_str(hours, 8, 3)"), 'layout')
V('c06-dt-offset-width', 'C06', 'C06.R7',
  (TYP, "{sign}{offset:03d}')", "{sign}{offset:02d}')"), 'layout')
V('c06-dt-microsec-begin', 'C06', 'C06.R7',
  (TYP, "microsec_str = self._to_str(microsec, 15, 6)",
        "microsec_str = self._to_str(microsec, 14, 6)"), 'layout')

V('c05-copy-path-via-init', 'C05', 'C05.R7',
  [(OBJ, "            qualifiers=self.qualifiers)  # setter copies\n\n        # The path is set after",
        "            qualifiers=self.qualifiers, path=self.path)\n\n        # The path is set after"),
   (OBJ, "        result.path = self.path  # setter copies deep\n", "")],
  'interference')

V('c09-embedded-state-not-reset', 'C09', 'C09.R6',
  ('pywbem/_mof_compiler.py',
   "        finally:\n            # Force the embedded_iobjects variable to be reset telling the\n"
   "            # compiler not to insert new objects into this variable\n"
   "            self.parser.embedded_objects = None\n", ""),
  'stale-state')

V('c10-propertylist-case-set', 'C10', 'C10.R8',
  [('pywbem_mock/_providerdispatcher.py',
    "            property_dict = NocaseDict()\n", "            property_dict = {}\n")],
  'case')

V('c01-children-sorted', 'C01', 'C01.R8',
  ('pywbem/_tupleparse.py',
   "        for child in kids(tup_tree):\n            if name(child) not in acceptable:\n                raise CIMXMLParseError(\n                    _format(\"Element {0!A} has invalid child element {1!A} \"\n                            \"(allowed are child elements {2!A})\",",
   "        for child in sorted(kids(tup_tree)):\n            if name(child) not in acceptable:\n                raise CIMXMLParseError(\n                    _format(\"Element {0!A} has invalid child element {1!A} \"\n                            \"(allowed are child elements {2!A})\","),
  'reorder')
V('c01-children-grouped', 'C01', 'C01.R8',
  ('pywbem/_tupleparse.py',
   "        for child in kids(tup_tree):\n            if name(child) not in matched:\n                continue\n            result.append(self.parse_any(child))\n",
   "        for m_ in matched:\n            for child in kids(tup_tree):\n                if name(child) == m_:\n                    result.append(self.parse_any(child))\n"),
  'nested-loop')
V('c01-value-stripped', 'C01', 'C01.R9',
  ('pywbem/_tupleparse.py', "        self.check_node(tup_tree, 'VALUE', (), (), (), allow_pcdata=True)\n\n        return pcdata(tup_tree)\n",
   "        self.check_node(tup_tree, 'VALUE', (), (), (), allow_pcdata=True)\n\n        return pcdata(tup_tree).strip()\n"), 'text-changed')
V('c01-string-branch-strip', 'C01', 'C01.R9',
  ('pywbem/_tupleparse.py', "        if cimtype == 'string':\n            return data\n",
   "        if cimtype == 'string':\n            return data.strip()\n"), 'text-changed')
V('c01-writer-str-normalised', 'C01', 'C01.R9',
  ('pywbem/_cim_types.py', "    elif isinstance(obj, str):\n        return obj\n",
   "    elif isinstance(obj, str):\n        return obj.replace('\\r\\n', '\\n')\n"), 'text-changed')

V('c05-cimvalue-returns-same-list', 'C05', 'C05.R5',
  (OBJ, "        return [cimvalue(v, type) for v in value]\n",
        "        return value if all(isinstance(v, CIMType) for v in value) else [cimvalue(v, type) for v in value]\n"),
  'aliased-list')

RESF = 'pywbem_mock/_resolvermixin.py'
V('c12-inherit-no-copy', 'C12', 'C12.R6',
  (RESF, "                new_obj = obj.copy()\n", "                new_obj = obj\n"), 'copy')
V('c12-inherit-not-propagated', 'C12', 'C12.R6',
  (RESF, "                new_obj.propagated = True\n", "                new_obj.propagated = False\n"),
  'propagated')
V('c12-override-origin-new-class', 'C12', 'C12.R6',
  (RESF, "            new_obj.class_origin = inherited_obj.class_origin\n",
         "            new_obj.class_origin = new_class.classname\n"), 'class-origin')
V('c12-restricted-qualifier-inherited', 'C12', 'C12.R6',
  (RESF, "            if inh_qual.tosubclass:\n                if inh_qual.overridable:",
         "            if inh_qual.tosubclass is not False:\n                if inh_qual.overridable:"),
  'flavor')
V('c12-new-element-marked-propagated', 'C12', 'C12.R6',
  (RESF, "                self._set_new_object(new_obj, None, new_class,\n                                     superclass, qualifier_store,\n                                     False, type_str)",
         "                self._set_new_object(new_obj, None, new_class,\n                                     superclass, qualifier_store,\n                                     True, type_str)"),
  'marks')
V('c12-declared-qualifier-propagated', 'C12', 'C12.R6',
  (RESF, "                        new_quals[inh_qname].propagated = False\n",
         "                        new_quals[inh_qname].propagated = True\n"), 'propagated')

MAINF = 'pywbem_mock/_mainprovider.py'
V('c13-role-on-result-end', 'C13', 'C13.R4',
  (MAINF, "                        if result_role and prop.name.lower() != result_role:\n                            continue\n                        rtn_instpaths.add(prop.value)",
          "                        if role and prop.name.lower() == role:\n                            continue\n                        rtn_instpaths.add(prop.value)"),
  'wrong-end')
V('c13-filter-none-filters', 'C13', 'C13.R4',
  (MAINF, "            if role and prop.name.lower() != role:\n                return False\n            return True",
          "            if prop.name.lower() != role:\n                return False\n            return True"),
  'filter-role')
V('c13-assoc-adds-source-end', 'C13', 'C13.R4',
  (MAINF, "                        if role and prop.name.lower() != role:\n                            continue\n                    else:",
          "                        if role and prop.name.lower() != role:\n                            continue\n                        rtn_instpaths.add(prop.value)\n                    else:"),
  'other-end')
V('c13-filter-adds', 'C13', 'C13.R4',
  (MAINF, "                        if result_class:\n                            if inst.classname.lower() not in resultclasses:\n                                continue\n",
          "                        if result_class:\n                            if inst.classname.lower() not in resultclasses:\n                                continue\n                            rtn_instpaths.add(inst.path)\n"),
  'filter-result_class')

V('c08-tomof-drops-translatable', 'C08', 'C08.R6',
  (OBJ, "        if self.translatable:\n            mof_flavors.append('Translatable')\n\n", ""),
  'translatable')

V('c06-cimvalue-any-cimtype', 'C06', 'C06.R4',
  (OBJ, "    if isinstance(value, type_obj):\n        return value\n    return type_obj(value)",
        "    if isinstance(value, (type_obj, CIMFloat)):\n        return value\n    return type_obj(value)"),
  'untyped-return')

# ---- C04 ------------------------------------------------------------------
OPSF = 'pywbem/_cim_operations.py'
MOCKF = 'pywbem_mock/_wbemconnection_mock.py'
V('c04-key-typo', 'C04', 'C04.R1',
  (MOCKF, "IncludeClassOrigin=params.get('IncludeClassOrigin', None))\n        return self._make_tuple(classes)",
          "IncludeClassOrigin=params.get('IncludeClassOrigin, None)', None))\n        return self._make_tuple(classes)"),
  'malformed-key')
V('c04-cross-wired', 'C04', 'C04.R1',
  (MOCKF, "            IncludeQualifiers=params.get('IncludeQualifiers', None),\n            IncludeClassOrigin=params.get('IncludeClassOrigin', None),\n            PropertyList=params.get('PropertyList', None))\n        return self._make_tuple([instance])",
          "            IncludeQualifiers=params.get('IncludeClassOrigin', None),\n            IncludeClassOrigin=params.get('IncludeClassOrigin', None),\n            PropertyList=params.get('PropertyList', None))\n        return self._make_tuple([instance])"),
  '')
V('c04-filter-truthy', 'C04', 'C04.R2',
  (OPSF, "for x in params.items() if x[1] is not None]", "for x in params.items() if x[1]]", 2), 'filter')
V('c04-no-default-ns', 'C04', 'C04.R3',
  (OPSF, "        if namespace is None:\n            namespace = self.default_namespace\n        return namespace",
         "        return namespace", 2), 'no-default')
V('c04-opname', 'C04', 'C04.R5',
  (OPSF, "method_name = 'GetQualifier'", "method_name = 'GetQualifiers'"), 'GetQualifier')
V('c04-client-drops-param', 'C04', 'C04.R1',
  (OPSF, "                ClassName=ClassName,\n                LocalOnly=LocalOnly,\n                DeepInheritance=DeepInheritance,\n                IncludeQualifiers=IncludeQualifiers,\n                IncludeClassOrigin=IncludeClassOrigin,\n                PropertyList=PropertyList)\n\n            if result is None:\n                instances = []",
         "                ClassName=ClassName,\n                LocalOnly=LocalOnly,\n                IncludeQualifiers=IncludeQualifiers,\n                IncludeClassOrigin=IncludeClassOrigin,\n                PropertyList=PropertyList)\n\n            if result is None:\n                instances = []"),
  'never-sent')

# ---- C15 ------------------------------------------------------------------
V('c15-wrong-flag', 'C15', 'C15.R2',
  (OPSF, "                        self._use_ref_path_pull_operations = False",
         "                        self._use_ref_inst_pull_operations = False"), 'IterReferenceInstancePaths')
V('c15-finally-cond', 'C15', 'C15.R1',
  (OPSF, "                if pull_result is not None and not pull_result.eos:\n                    self.CloseEnumeration(pull_result.context)\n                    pull_result = None\n\n        # Alternate request if Pull not implemented. This does not allow\n        # the FilterQuery or ContinueOnError\n        assert self._use_assoc_path_pull_operations is False",
         "                if pull_result is not None and pull_result.eos:\n                    self.CloseEnumeration(pull_result.context)\n                    pull_result = None\n\n        # Alternate request if Pull not implemented. This does not allow\n        # the FilterQuery or ContinueOnError\n        assert self._use_assoc_path_pull_operations is False"),
  'IterAssociatorInstancePaths')
V('c15-host-completion', 'C15', 'C15.R6',
  (OPSF, "            if path.host is None:\n                path.host = self.host\n\n        yield from enum_rslt", "        yield from enum_rslt"),
  'host')
V('c15-handler-or', 'C15', 'C15.R3',
  (OPSF, "                    if (self._use_query_pull_operations is None and\n                            ce.status_code in",
         "                    if (self._use_query_pull_operations is None or\n                            ce.status_code in"), 'IterQueryInstances')
V('c15-no-refusal', 'C15', 'C15.R4',
  (OPSF, "        if ContinueOnError is not None:\n            raise ValueError('References does not support '\n                             'ContinueOnError.')\n", ""),
  'ContinueOnError')
V('c15-set-true-early', 'C15', 'C15.R2',
  (OPSF, "                try:        # operation try block\n                    pull_result = self.OpenEnumerateInstancePaths(",
         "                try:        # operation try block\n                    self._use_enum_path_pull_operations = True\n                    pull_result = self.OpenEnumerateInstancePaths("),
  'IterEnumerateInstancePaths')

# ---- C14 ------------------------------------------------------------------
MAINF = 'pywbem_mock/_mainprovider.py'
V('c14-zero-unset', 'C14', 'C14.R4',
  (MAINF, "        max_obj_cnt = MaxObjectCount\n        if max_obj_cnt is None:\n            max_obj_cnt = DEFAULT_MAX_OBJECT_COUNT\n\n        if len(objs_list)",
          "        max_obj_cnt = MaxObjectCount\n        if not max_obj_cnt:\n            max_obj_cnt = DEFAULT_MAX_OBJECT_COUNT\n\n        if len(objs_list)"),
  'truthiness-default')
V('c14-slice-off-by-one', 'C14', 'C14.R3',
  (MAINF, "            del objs_list[0: max_obj_cnt]", "            del objs_list[0: max_obj_cnt - 1]"), 'slice-mismatch')
V('c14-eos-lt', 'C14', 'C14.R3',
  (MAINF, "        if len(objs_list) <= max_obj_cnt:", "        if len(objs_list) < max_obj_cnt:"), 'eos-predicate')
V('c14-no-delete-on-eos', 'C14', 'C14.R1',
  (MAINF, "            rtn_objs_list = objs_list\n            del self.enumeration_contexts[EnumerationContext]\n", "            rtn_objs_list = objs_list\n"),
  'eos-mismatch')
V('c14-close-keeps-context', 'C14', 'C14.R1',
  (MAINF, "        if EnumerationContext in self.enumeration_contexts:\n            del self.enumeration_contexts[EnumerationContext]\n        else:",
          "        if EnumerationContext in self.enumeration_contexts:\n            pass\n        else:"),
  'close-shape')
V('c14-close-wrong-status', 'C14', 'C14.R1',
  (MAINF, "            raise CIMError(\n                CIM_ERR_INVALID_ENUMERATION_CONTEXT,\n                _format(\"EnumerationContext {0!A} not found in CIM server \"",
          "            raise CIMError(\n                CIM_ERR_FAILED,\n                _format(\"EnumerationContext {0!A} not found in CIM server \""),
  'close-shape')
V('c14-close-unknown-silent', 'C14', 'C14.R1',
  (MAINF, "        if EnumerationContext in self.enumeration_contexts:\n            del self.enumeration_contexts[EnumerationContext]\n        else:\n            raise CIMError(\n                CIM_ERR_INVALID_ENUMERATION_CONTEXT,\n                _format(\"EnumerationContext {0!A} not found in CIM server \"\n                        \"enumeration contexts.\", EnumerationContext))",
          "        self.enumeration_contexts.pop(EnumerationContext, None)"),
  'close-shape')
V('c14-check-after-consume', 'C14', 'C14.R2',
  [(MAINF, "        if context_data['pull_type'] != req_type:\n            raise CIMError(\n                CIM_ERR_INVALID_ENUMERATION_CONTEXT,\n                _format(\"Invalid pull operations {0!A} does not match \"\n                        \"expected {1!A} for EnumerationContext {2!A}\",\n                        context_data['pull_type'], req_type,\n                        EnumerationContext))\n", ""),
   (MAINF, "        # returns tuple of list of insts, eos, and context_id\n",
           "        if context_data['pull_type'] != req_type:\n            raise CIMError(CIM_ERR_INVALID_ENUMERATION_CONTEXT, 'bad pull type')\n")],
  'unguarded:pull-type')
V('c14-wrong-pull-type', 'C14', 'C14.R6',
  (MAINF, "        return self._open_response(namespace, result,\n                                   'PullInstancePaths',\n                                   OperationTimeout,\n                                   MaxObjectCount,\n                                   ContinueOnError)\n\n    def OpenEnumerateInstances(",
          "        return self._open_response(namespace, result,\n                                   'PullInstancesWithPath',\n                                   OperationTimeout,\n                                   MaxObjectCount,\n                                   ContinueOnError)\n\n    def OpenEnumerateInstances("),
  'OpenEnumerateInstancePaths')
V('c14-client-no-validate', 'C14', 'C14.R5',
  (OPSF, "            _validate_MaxObjectCount_OpenPull(MaxObjectCount)\n            _validate_context(context)\n            namespace = context[1]\n\n            result = self._imethodcall(\n                method_name,\n                namespace=namespace,\n                EnumerationContext=context[0],\n                MaxObjectCount=MaxObjectCount,\n                has_out_params=True)\n\n            result_tuple = pull_path_result_tuple(",
         "            _validate_MaxObjectCount_OpenPull(MaxObjectCount)\n            namespace = context[1]\n\n            result = self._imethodcall(\n                method_name,\n                namespace=namespace,\n                EnumerationContext=context[0],\n                MaxObjectCount=MaxObjectCount,\n                has_out_params=True)\n\n            result_tuple = pull_path_result_tuple("),
  '_validate_context')
V('c14-foreign-writer', 'C14', 'C14.R1',
  (MAINF, "        self._validate_pull_operations_enabled()\n        return self._pull_response('PullInstancePaths',",
          "        self._validate_pull_operations_enabled()\n        self.enumeration_contexts.pop(EnumerationContext + 'x', None)\n        return self._pull_response('PullInstancePaths',"),
  'foreign-writer')

# ---- C12 / C13 --------------------------------------------------------------
BASEF = 'pywbem_mock/_baseprovider.py'
V('c12-subclass-case', 'C12', 'C12.R1',
  (MAINF, "if c.superclass and c.superclass.lower() == classname.lower()]",
          "if c.superclass and c.superclass == classname]"), '_get_subclass_names')
V('c12-enum-plain-list', 'C12', 'C12.R1',
  (MAINF, "        result = NocaseList(cln_list)\n        result.append(classname)\n        return result",
          "        result = list(cln_list)\n        result.append(classname)\n        return result"), '')
V('c12-filter-props-case', 'C12', 'C12.R1',
  (BASEF, "            property_list = [p.lower() for p in property_list]\n", ""), 'filter_properties')
V('c12-enumclassnames-deep', 'C12', 'C12.R3',
  (MAINF, "        # Return list of subclass names\n        return self._get_subclass_names(ClassName, class_store, DeepInheritance)",
          "        # Return list of subclass names\n        return self._get_subclass_names(ClassName, class_store, True)"),
  'closure-differs')
V('c12-flag-adds', 'C12', 'C12.R4',
  (BASEF, "            obj.properties[prop].class_origin = None", "            obj.properties[prop].class_origin = obj.classname"),
  'adds')
V('c12-deleteclass-shallow', 'C12', 'C12.R3',
  (MAINF, "        classnames = self._get_subclass_names(ClassName, class_store, True)\n        classnames.append(ClassName)",
          "        classnames = self._get_subclass_names(ClassName, class_store, False)\n        classnames.append(ClassName)"),
  'delete-subtree')
V('c12-localonly-live', 'C12', 'C12.R1',
  (MAINF, "INSTANCE_RETRIEVE_LOCAL_ONLY = False", "INSTANCE_RETRIEVE_LOCAL_ONLY = True"), '_get_instance')
V('c13-role-not-lowered', 'C13', 'C13.R2',
  (MAINF, "        role = role.lower() if role else None\n", "        role = role if role else None\n"), '_get_reference_instnames')
V('c13-source-case', 'C13', 'C13.R2',
  (MAINF, "                        if prop.reference_class.lower() == \\\n                                classname.lower() and \\\n",
          "                        if prop.reference_class == classname and \\\n"), '_get_associated_classnames')
V('c13-names-args', 'C13', 'C13.R1',
  (MAINF, "            ref_paths = self._get_reference_instnames(namespace, ObjectName,\n                                                      ResultClass,\n                                                      Role)\n            rtn_names = [r.copy() for r in ref_paths]",
          "            ref_paths = self._get_reference_instnames(namespace, ObjectName,\n                                                      ResultClass,\n                                                      None)\n            rtn_names = [r.copy() for r in ref_paths]"),
  'args-differ')
V('c13-no-subclass-expansion', 'C13', 'C13.R3',
  (MAINF, "        resultclasses = self._subclasses_lc(result_class, class_store)\n",
          "        resultclasses = [result_class.lower()] if result_class else []\n"), 'not-expanded')
V('c13-shallow-subclasses', 'C13', 'C13.R3',
  (MAINF, "        clns.extend(self._get_subclass_names(classname, class_store, True))",
          "        clns.extend(self._get_subclass_names(classname, class_store, False))"), 'subclasses-lc')

# ---- C18 ------------------------------------------------------------------
SMF = 'pywbem/_subscription_manager.py'
SPF = 'pywbem_mock/_subscriptionproviders.py'
V('c18-unescaped', 'C18', 'C18.R1',
  (SMF, "            _format(r'^pywbemfilter:{0}:[^:]*$',\n                    re.escape(self._subscription_manager_id)))",
        "            _format(r'^pywbemfilter:{0}:[^:]*$',\n                    self._subscription_manager_id))"), 'unescaped')
V('c18-append-before-create', 'C18', 'C18.R2',
  (SMF, "        filter_path = server.conn.CreateInstance(\n            filter_inst, namespace=interop_ns)\n        filter_inst = server.conn.GetInstance(filter_path)\n\n        if owned:\n            self._owned_filters[server_id].append(filter_inst)\n",
        "        if owned:\n            self._owned_filters[server_id].append(filter_inst)\n        filter_path = server.conn.CreateInstance(\n            filter_inst, namespace=interop_ns)\n        filter_inst = server.conn.GetInstance(filter_path)\n"),
  'append-before-create')
V('c18-append-unguarded', 'C18', 'C18.R2',
  (SMF, "        if owned:\n            self._owned_destinations[server_id].append(dest_inst)\n\n        return dest_inst",
        "        self._owned_destinations[server_id].append(dest_inst)\n\n        return dest_inst"), 'append-unguarded')
V('c18-no-ref-guard', 'C18', 'C18.R3',
  (SMF, "        if ref_paths:\n            # DSP1054 1.2 defines that this CIM error is raised by the server\n            # in that case, so we simulate that behavior on the client side.\n            raise CIMError(\n                CIM_ERR_FAILED,\n                \"The indication filter is referenced by subscriptions.\",\n                conn_id=conn_id)\n",
        ""), 'unguarded-delete')
V('c18-name-skeleton', 'C18', 'C18.R4',
  (SMF, "                'pywbemfilter:{0}:{1}',", "                'pywbemfilter-{0}:{1}',"), 'skeleton')
V('c18-perm-on-owned', 'C18', 'C18.R3',
  (SMF, "            if dest_path in owned_destination_paths:\n                raise ValueError(\n                    _format(\"Permanent subscription cannot be created on \"\n                            \"owned listener destination: {0!A}\", dest_path))\n", ""),
  'no-refusal')
V('c18-prune-no-delete', 'C18', 'C18.R2',
  (SMF, "        server.conn.DeleteInstance(sub_path)\n", ""), 'delete-prune')
V('c18-mock-uncalled', 'C18', 'C18.R5b',
  (SPF, "new_instance[pname].lower() != test_value.lower():", "new_instance[pname].lower != test_value.lower:"), 'uncalled')
V('c18-mock-case', 'C18', 'C18.R5',
  (SPF, "        if modified_instance.classname.lower() != \\\n                SUBSCRIPTION_CLASSNAME.lower():", "        if modified_instance.classname != SUBSCRIPTION_CLASSNAME:"), 'case')

# ---- C20 ------------------------------------------------------------------
VMF = 'pywbem/_valuemapping.py'
V('c20-regex-unanchored', 'C20', 'C20.R2',
  (UTL, "    r'^[+\\-]?0X(?:[0-9A-F]+)$',", "    r'^[+\\-]?0X(?:[0-9A-F]+)',"), 'unguarded-conversion')
V('c20-regex-alphabet', 'C20', 'C20.R2',
  (UTL, "    r'^[+\\-]?0(?:[1-7]*)$',", "    r'^[+\\-]?0(?:[1-9]*)$',"), 'unguarded-conversion')
V('c20-mirror', 'C20', 'C20.R4',
  (VMF, "                hi = next_lo - 1", "                hi = next_lo"), 'mirror')
V('c20-mirror-limit', 'C20', 'C20.R4',
  (VMF, "                lo = cimtype.minvalue", "                lo = 0"), 'mirror')
V('c20-wrong-exception', 'C20', 'C20.R1',
  (VMF, "        val = _integerValue_to_int(val_str)\n        if val is None:\n            raise ModelError(",
        "        val = _integerValue_to_int(val_str)\n        if val is None:\n            raise RuntimeError("), 'RuntimeError')
V('c20-none-match', 'C20', 'C20.R1',
  (VMF, "        if m is None:\n            valuemap_int = self._to_int(valuemap_str)\n            return (valuemap_int, valuemap_int, values_str)\n",
        "        if valuemap_str.isdigit():\n            valuemap_int = self._to_int(valuemap_str)\n            return (valuemap_int, valuemap_int, values_str)\n"), 'AttributeError')

V('c20-truncate-wrong-bound', 'C20', 'C20.R5',
  (VMF, "            del values_list[valuemap_size:]", "            del values_list[len(values_extra):]"), 'length-mismatch')
V('c20-extend-off-by-one', 'C20', 'C20.R5',
  (VMF, "            values_list.extend([values_default] * len(valuemap_extra))", "            values_list.extend([values_default] * (len(valuemap_extra) - 1))"), 'length-mismatch')
V('c20-extend-wrong-slice', 'C20', 'C20.R5',
  (VMF, "            valuemap_extra = valuemap_list[values_size:]", "            valuemap_extra = valuemap_list[values_size + 1:]"), 'length-mismatch')
V('c20-range-half-open', 'C20', 'C20.R6',
  (VMF, "            if lo <= element_value <= hi:", "            if lo <= element_value < hi:"), 'range-test')
V('c20-unclaimed-no-backward', 'C20', 'C20.R6',
  (VMF, "                vm._b2v_unclaimed = values_str\n                vm._v2b_dict[values_str] = None\n", "                vm._b2v_unclaimed = values_str\n"), 'unpaired')
V('c20-range-backward-swapped', 'C20', 'C20.R6',
  (VMF, "                    vm._v2b_dict[values_str] = (lo, hi)", "                    vm._v2b_dict[values_str] = (hi, lo)"), 'unpaired')
V('c20-unclaimed-first', 'C20', 'C20.R6',
  (VMF, "        # try single value\n        try:\n            return self._b2v_single_dict[element_value]\n        except KeyError:\n            pass\n",
        "        if self._b2v_unclaimed is not None and not self._b2v_range_tuple_list:\n            return self._b2v_unclaimed\n        try:\n            return self._b2v_single_dict[element_value]\n        except KeyError:\n            pass\n"), 'reader-order')

# ---- C07 ------------------------------------------------------------------
V('c07-repr-float', 'C07', 'C07.R3',
  (OBJ, "                ret.append(str(value))\n            elif isinstance(value, (CIMInt, int)):",
        "                ret.append(repr(value))\n            elif isinstance(value, (CIMInt, int)):"), 'debug-repr')
V('c07-no-dotall', 'C07', 'C07.R2',
  (OBJ, "    flags=(re.UNICODE | re.DOTALL))", "    flags=re.UNICODE)"), 'not-accepted')
V('c07-escape-order', 'C07', 'C07.R2',
  (OBJ, "                ret.append(value.\n                           replace('\\\\', '\\\\\\\\').\n                           replace('\"', '\\\\\"'))\n                ret.append('\"')\n            elif isinstance(value, bool):",
        "                ret.append(value.\n                           replace('\"', '\\\\\"').\n                           replace('\\\\', '\\\\\\\\'))\n                ret.append('\"')\n            elif isinstance(value, bool):"),
  '')
V('c07-host-not-folded', 'C07', 'C07.R4',
  (OBJ, "            ret.append('//')\n            ret.append(case(self.host))\n\n        if self.host is not None or format not in ('cimobject', 'historical'):\n            ret.append('/')\n\n        if self.namespace is not None:\n            ret.append(case(self.namespace))\n\n        if self.namespace is not None or format != 'historical':\n            ret.append(':')\n\n        ret.append(case(self.classname))\n\n        ret.append('.')",
        "            ret.append('//')\n            ret.append(self.host)\n\n        if self.host is not None or format not in ('cimobject', 'historical'):\n            ret.append('/')\n\n        if self.namespace is not None:\n            ret.append(case(self.namespace))\n\n        if self.namespace is not None or format != 'historical':\n            ret.append(':')\n\n        ret.append(case(self.classname))\n\n        ret.append('.')"),
  'not-folded')
V('c07-nested-format', 'C07', 'C07.R4',
  (OBJ, "ret.append(value.to_wbem_uri(format=format).", "ret.append(value.to_wbem_uri()."), 'nested-format')
V('c07-keys-unsorted', 'C07', 'C07.R4',
  (OBJ, "        for key in case_sorted(self.keybindings.keys()):", "        for key in self.keybindings.keys():"), 'keys-order')
V('c07-kb-empty', 'C07', 'C07.R1',
  (OBJ, "_KB_NOT_QUOTED = r'[^,\"\\'\\\\]+'", "_KB_NOT_QUOTED = r'[^,\"\\'\\\\]*'"), 'empty-value')
V('c07-parser-typeerror', 'C07', 'C07.R1',
  (OBJ, "        m = WBEM_URI_CLASSPATH_REGEXP.match(wbem_uri)\n        if m is None:\n            raise ValueError(", "        m = WBEM_URI_CLASSPATH_REGEXP.match(wbem_uri)\n        if m is None:\n            raise TypeError("),
  'TypeError')
V('c07-none-match', 'C07', 'C07.R1',
  (OBJ, "        m = WBEM_URI_KEYBINDINGS_REGEXP.match(keybindings_str)\n        if m is None:\n            raise ValueError(\n                _format(\"WBEM URI has an invalid format for its keybindings: \"\n                        \"{0!A}\", keybindings_str))\n", "        m = WBEM_URI_KEYBINDINGS_REGEXP.match(keybindings_str)\n"),
  'AttributeError')
V('c07-case-sorted', 'C07', 'C07.R5',
  (OBJ, "            return sorted([case(k) for k in keys])", "            return [case(k) for k in sorted(keys)]"), 'sort-shape')

# ---- C09 ------------------------------------------------------------------
MOFF = 'pywbem/_mof_compiler.py'
V('c09-pragma-none', 'C09', 'C09.R3',
  (MOFF, "        if m is None:\n            ns_type = host = namespace = None\n        else:\n            ns_type = m.group(1) or None\n            host = m.group(2) or None\n            namespace = m.group(3) or None\n",
         "        ns_type = m.group(1) or None\n        host = m.group(2) or None\n        namespace = m.group(3) or None\n"), 'p_compilerDirective')
V('c09-unbound-cls', 'C09', 'C09.R4',
  (MOFF, "        else:\n            cls = self.GetClass(inst.classname,\n                                namespace=ns,\n                                LocalOnly=False,\n                                IncludeQualifiers=True)\n\n        if \"Abstract\" in cls.qualifiers:",
         "\n        if \"Abstract\" in cls.qualifiers:"), 'cls')
V('c09-format', 'C09', 'C09.R7',
  (MOFF, "\"path cannot be created from the instance: {1}\",", "\"path cannot be created from the instance: {}\","), 'format')
V('c09-inst-typeerror', 'C09', 'C09.R1',
  (MOFF, "        except (ValueError, TypeError) as ve:\n            raise MOFParseError(", "        except ValueError as ve:\n            raise MOFParseError("), 'p_instanceDeclaration')
V('c09-unwrapped-create', 'C09', 'C09.R2',
  (MOFF, "    try:\n        instpath = p.parser.handle.CreateInstance(inst, namespace=ns)\n    except CIMError as ce:\n        if ce.status_code == CIM_ERR_ALREADY_EXISTS:",
         "    try:\n        instpath = p.parser.handle.CreateInstance(inst, namespace=ns)\n    except CIMError as ce:\n        if ce.status_code == CIM_ERR_FAILED:\n            instpath = p.parser.handle.CreateInstance(inst, namespace=ns)\n        elif ce.status_code == CIM_ERR_ALREADY_EXISTS:"),
  'p_mp_createInstance')
V('c09-token-regex', 'C09', 'C09.R5',
  (MOFF, "    r'[+-]?0[xX][0-9a-fA-F]+'\n    t.value = int(t.value, 16)", "    r'[+-]?0[xX][0-9a-zA-Z]+'\n    t.value = int(t.value, 16)"), 't_hexValue')
V('c09-binary-guard', 'C09', 'C09.R5',
  (MOFF, "    if re.search(r'[2-9]', t.value) is not None:", "    if re.search(r'[3-9]', t.value) is not None:"), 't_binaryValue')
V('c09-wrong-exc', 'C09', 'C09.R1',
  (MOFF, "    if p is None:\n        raise MOFParseError(msg='Unexpected end of MOF')", "    if p is None:\n        raise SyntaxError('Unexpected end of MOF')"), 'SyntaxError')
V('c09-swallow-wrap', 'C09', 'C09.R2',
  (MOFF, "        # Handle exceptions from ModifyClass.\n        except CIMError as ce2:", "        # Handle exceptions from ModifyClass.\n        except MOFCompileError as ce2:"), 'p_mp_createClass')

# ---- C02 ------------------------------------------------------------------
TPF = 'pywbem/_tupleparse.py'
V('c02-overflow', 'C02', 'C02.R4',
  (TPF, "        except (ValueError, OverflowError) as exc:", "        except ValueError as exc:"), 'OverflowError')
V('c02-null-array', 'C02', 'C02.R1',
  (TPF, "        if data is None:\n            return None\n\n        if cimtype == 'string':", "        if cimtype == 'string':"), 'assert data is not None')
V('c02-arraysize', 'C02', 'C02.R4',
  (TPF, "        try:\n            return int(array_size)\n        except ValueError:", "        try:\n            return int(array_size)\n        except TypeError:"), 'int(array_size)')
V('c02-code', 'C02', 'C02.R4',
  (OPSF, "            try:\n                code = int(err[1]['CODE'])\n            except ValueError:\n", "            try:\n                code = int(err[1]['CODE'])\n            except KeyError:\n", 3),
  "int(err[1]['CODE'])")
V('c02-paramtype-key', 'C02', 'C02.R3',
  (OPSF, "                tup_tree[0][1].get('PARAMTYPE', None))", "                tup_tree[0][1]['PARAMTYPE'])"), 'PARAMTYPE')
V('c02-checknode-optional', 'C02', 'C02.R3',
  (TPF, "        self.check_node(tup_tree, 'INSTANCE', ('CLASSNAME',), ('xml:lang',),", "        self.check_node(tup_tree, 'INSTANCE', (), ('CLASSNAME', 'xml:lang',),"), 'CLASSNAME')
V('c02-error-code-optional', 'C02', 'C02.R3',
  (TPF, "        self.check_node(tup_tree, 'ERROR', ('CODE',), ('DESCRIPTION',),", "        self.check_node(tup_tree, 'ERROR', (), ('CODE', 'DESCRIPTION',),"), "CODE")
V('c02-handler-narrow', 'C02', 'C02.R4',
  (TPF, "            value = CIMDateTime(data)\n        except ValueError as exc:", "            value = CIMDateTime(data)\n        except TypeError as exc:"),
  'unpack_datetime')
V('c02-no-request-data', 'C02', 'C02.R5',
  (OPSF, "        except (CIMXMLParseError, XMLParseError) as exce:\n            exce.request_data = self.last_raw_request\n            exce.response_data = self.last_raw_reply\n            exc = exce\n            raise\n        except Exception as exce:\n            exc = exce\n            raise\n        finally:\n            self._last_operation_time = stats.stop_timer(\n                self.last_request_len, self.last_reply_len,\n                self.last_server_response_time, exc)\n            if self._operation_recorders:\n                self.operation_recorder_stage_result(instance, exc)\n\n    def ModifyInstance(",
         "        except (CIMXMLParseError, XMLParseError) as exce:\n            exce.request_data = self.last_raw_request\n            exc = exce\n            raise\n        except Exception as exce:\n            exc = exce\n            raise\n        finally:\n            self._last_operation_time = stats.stop_timer(\n                self.last_request_len, self.last_reply_len,\n                self.last_server_response_time, exc)\n            if self._operation_recorders:\n                self.operation_recorder_stage_result(instance, exc)\n\n    def ModifyInstance("),
  'GetInstance')
V('c02-raw-after-parse', 'C02', 'C02.R5',
  (OPSF, "        self._last_raw_reply = reply_data\n        self._last_reply_len = len(reply_data)\n\n        # Parse the XML into a tuple tree (may raise CIMXMLParseError or\n        # XMLParseError):\n        tt_ = xml_to_tupletree_sax(reply_data, \"CIM-XML response\")\n        tp = TupleParser(self.conn_id)\n        tup_tree = tp.parse_cim(tt_)\n\n        # Set attributes recording the response, part 2.\n        if self.debug:\n            self._last_reply = None  # will be set upon access\n            self._last_reply_xml_item = reply_data\n\n        # Check the tuple tree\n\n        if tup_tree[0] != 'CIM':\n            raise CIMXMLParseError(\n                _format(\"Expecting CIM element, got {0}\", tup_tree[0]),\n                conn_id=self.conn_id)\n        tup_tree = tup_tree[2]\n\n        if tup_tree[0] != 'MESSAGE':\n            raise CIMXMLParseError(\n                _format(\"Expecting MESSAGE element, got {0}\", tup_tree[0]),\n                conn_id=self.conn_id)\n        tup_tree = tup_tree[2]\n\n        if tup_tree[0] != 'SIMPLERSP':\n            raise CIMXMLParseError(\n                _format(\"Expecting SIMPLERSP element, got {0}\", tup_tree[0]),\n                conn_id=self.conn_id)\n        tup_tree = tup_tree[2]\n\n        if tup_tree[0] != 'IMETHODRESPONSE':",
         "        self._last_reply_len = len(reply_data)\n\n        # Parse the XML into a tuple tree (may raise CIMXMLParseError or\n        # XMLParseError):\n        tt_ = xml_to_tupletree_sax(reply_data, \"CIM-XML response\")\n        tp = TupleParser(self.conn_id)\n        tup_tree = tp.parse_cim(tt_)\n        self._last_raw_reply = reply_data\n\n        # Set attributes recording the response, part 2.\n        if self.debug:\n            self._last_reply = None  # will be set upon access\n            self._last_reply_xml_item = reply_data\n\n        # Check the tuple tree\n\n        if tup_tree[0] != 'CIM':\n            raise CIMXMLParseError(\n                _format(\"Expecting CIM element, got {0}\", tup_tree[0]),\n                conn_id=self.conn_id)\n        tup_tree = tup_tree[2]\n\n        if tup_tree[0] != 'MESSAGE':\n            raise CIMXMLParseError(\n                _format(\"Expecting MESSAGE element, got {0}\", tup_tree[0]),\n                conn_id=self.conn_id)\n        tup_tree = tup_tree[2]\n\n        if tup_tree[0] != 'SIMPLERSP':\n            raise CIMXMLParseError(\n                _format(\"Expecting SIMPLERSP element, got {0}\", tup_tree[0]),\n                conn_id=self.conn_id)\n        tup_tree = tup_tree[2]\n\n        if tup_tree[0] != 'IMETHODRESPONSE':"),
  'raw-after-parse')
V('c02-wrong-error-class', 'C02', 'C02.R1',
  (TPF, "        raise CIMXMLParseError(\n            _format(\"Invalid boolean value {0!A}\", data),\n            conn_id=self.conn_id)", "        raise ValueError(\n            _format(\"Invalid boolean value {0!A}\", data))"),
  'unpack_boolean')
V('c02-methodcall-unwrapped', 'C02', 'C02.R4',
  (OPSF, "                output_params[p[0]] = rsp_cimvalue(\n                    _format(\"PARAMVALUE {0!A}\", p[0]), p[2], p[1])", "                output_params[p[0]] = cimvalue(p[2], p[1])"),
  '_methodcall')

# ---- C16 / C17 --------------------------------------------------------------
LSF = 'pywbem/_listener.py'
V('c16-queue-before-join', 'C16', 'C16.R2',
  [(LSF, "                    clr_count)\n\n        # Tolerate that callback thread has already stopped, just in case.", "                    clr_count)\n            self._ind_queue = None\n\n        # Tolerate that callback thread has already stopped, just in case."),
   (LSF, "        # The queue is released only after the callback thread has ended,\n        # because that thread accesses it until then.\n        self._ind_queue = None\n", "")],
  'before-join')
V('c16-stop-order', 'C16', 'C16.R2',
  (LSF, "        self._stop_listener_threads()\n        self._stop_indication_delivery()\n", "        self._stop_indication_delivery()\n        self._stop_listener_threads()\n"), 'stop-order')
V('c16-blocking-put', 'C16', 'C16.R3',
  (LSF, "            self._ind_queue.put(queue_item, block=False)", "            self._ind_queue.put(queue_item, block=True, timeout=1)"), 'blocking')
V('c16-full-swallowed', 'C16', 'C16.R3',
  (LSF, "                    self.max_ind_queue_size)\n                self._queue_full = True\n            raise\n", "                    self.max_ind_queue_size)\n                self._queue_full = True\n"), 'full-swallowed')
V('c16-callback-unprotected', 'C16', 'C16.R5',
  (LSF, "            try:\n                callback(indication, host)\n            except Exception as exc:  # pylint: disable=broad-except", "            try:\n                callback(indication, host)\n            except ValueError as exc:  # pylint: disable=broad-except"), 'not-isolated')
V('c16-ack-before-enqueue', 'C16', 'C16.R3',
  (LSF, "            listener = self.server.listener\n            try:", "            listener = self.server.listener\n            if listener.ind_queue_empty():\n                self.send_success_response(msgid, methodname, indication_inst)\n                listener._handle_indication(indication_inst, self.client_address[0], msgid)\n                return\n            try:"),
  'ack-before-enqueue')
V('c16-no-join', 'C16', 'C16.R2',
  (LSF, "            self._https_thread.join()\n", ""), 'shutdown-order')
V('c16-field-not-reset', 'C16', 'C16.R6',
  (LSF, "            self.logger.info(\"Stopped callback thread\")\n            self._callback_thread = None\n", "            self.logger.info(\"Stopped callback thread\")\n"), '')
V('c17-content-length', 'C17', 'C17.R2',
  (LSF, "        try:\n            content_len = int(content_len_str)\n        except ValueError:\n            content_len = -1\n", "        content_len = int(content_len_str)\n"), 'ValueError')
V('c17-crlf', 'C17', 'C17.R3',
  [(LSF, "            cim_error_details = \\\n                cim_error_details.replace('\\r', ' ').replace('\\n', ' ')\n", ""),
  (LSF, "HEADER_VALUE_SAFE_CHARS = ''.join(chr(c) for c in range(0x20, 0x7F))", "HEADER_VALUE_SAFE_CHARS = ''.join(chr(c) for c in range(0x0A, 0x7F))")], 'crlf')
V('c17-double-response', 'C17', 'C17.R1',
  (LSF, "                    _format(\"Indication queue is full (size {0})\",\n                            listener.max_ind_queue_size))\n                return\n", "                    _format(\"Indication queue is full (size {0})\",\n                            listener.max_ind_queue_size))\n"), 'path-count')
V('c17-no-response', 'C17', 'C17.R1',
  (LSF, "        except CIMVersionError as exc:\n            self.send_http_error(400, \"unsupported-version\", str(exc))\n            return", "        except CIMVersionError as exc:\n            return"), 'path-count')
V('c17-unhandled-version-error', 'C17', 'C17.R2',
  (LSF, "        except DTDVersionError as exc:\n            self.send_http_error(400, \"unsupported-dtd-version\", str(exc))\n            return\n", ""), 'DTDVersionError')
V('c17-verb', 'C17', 'C17.R4',
  (LSF, "    def do_PATCH(self):\n        \"\"\"Invalid method for listener\"\"\"\n        self.invalid_method()", "    def do_PATCH(self):\n        \"\"\"Invalid method for listener\"\"\"\n        self.send_response(200)"), 'PATCH')
V('c17-header-order', 'C17', 'C17.R1',
  (LSF, "        self.send_header(\"Content-Type\", \"text/xml\")\n        self.send_header(\"Content-Length\", str(len(resp_body)))\n        self.send_header(\"CIMExport\", \"MethodResponse\")\n        self.end_headers()\n        self.wfile.write(resp_body)\n\n    @staticmethod",
        "        self.send_header(\"Content-Type\", \"text/xml\")\n        self.send_header(\"Content-Length\", str(len(resp_body)))\n        self.end_headers()\n        self.send_header(\"CIMExport\", \"MethodResponse\")\n        self.wfile.write(resp_body)\n\n    @staticmethod"),
  'sequence')

# ---- C19 ------------------------------------------------------------------
RECF = 'pywbem/_recorder.py'
HTTPF = 'pywbem/_cim_http.py'
V('c19-truncate-decode', 'C19', 'C19.R2',
  (RECF, "                upayload = (_decode_lenient(payload[:self.http_maxlen]) +", "                upayload = (_ensure_unicode(payload[:self.http_maxlen]) +"), '')
V('c19-strict-decode', 'C19', 'C19.R1',
  (RECF, "                data = _decode_lenient(http_response.payload)", "                data = http_response.payload.decode('utf-8')"), 'UnicodeError')
V('c19-unbound-result', 'C19', 'C19.R4',
  (OPSF, "                self.operation_recorder_stage_result(result_tuple, exc)\n\n    def CloseEnumeration(", "                self.operation_recorder_stage_result(result, exc)\n\n    def CloseEnumeration("), 'unbound-in-finally')
V('c19-keeps-input', 'C19', 'C19.R3',
  (HTTPF, "                # Ignore an invalid header value\n                svr_resp_time = None", "                pass"), 'keeps-input')
V('c19-creds-shown', 'C19', 'C19.R6',
  (OPSF, "        if self.creds is not None:\n            # (userid, password) was specified; the password is not shown", "        if isinstance(self.creds, tuple):\n            # (userid, password) was specified; the password is not shown", 2), 'creds-shown')
V('c19-password-to-recorder', 'C19', 'C19.R6',
  (HTTPF, "                conn.conn_id, 11, conn.url, target, 'POST',\n                dict(cimxml_headers), req_body)", "                conn.conn_id, 11, conn.url, target, 'POST',\n                dict(req_headers), req_body)"), 'password-flow')
V('c19-unguarded-recorder', 'C19', 'C19.R5',
  (HTTPF, "    if conn.operation_recorders:\n        for recorder in conn.operation_recorders:\n            recorder.stage_http_response2(resp_body)", "    for recorder in conn.operation_recorders or []:\n        recorder.stage_http_response2(resp_body)"), 'unguarded')
V('c19-stats-name', 'C19', 'C19.R4',
  (OPSF, "        stats = self.statistics.start_timer('InvokeMethod')", "        stats = self.statistics.start_timer('Invoke')"), 'InvokeMethod')
V('c19-exc-not-recorded', 'C19', 'C19.R4',
  (OPSF, "        except Exception as exce:\n            exc = exce\n            raise\n        finally:\n            self._last_operation_time = stats.stop_timer(\n                self.last_request_len, self.last_reply_len,\n                self.last_server_response_time, exc)\n            if self._operation_recorders:\n                self.operation_recorder_stage_result(None, exc)\n\n    def ExportIndication",
         "        except Exception as exce:\n            raise\n        finally:\n            self._last_operation_time = stats.stop_timer(\n                self.last_request_len, self.last_reply_len,\n                self.last_server_response_time, exc)\n            if self._operation_recorders:\n                self.operation_recorder_stage_result(None, exc)\n\n    def ExportIndication"),
  '')
V('c19-observer-raises', 'C19', 'C19.R1',
  (RECF, "        self._pywbem_method = method\n        if self.enabled and self.api_detail_level is not None and \\\n                self.apilogger.isEnabledFor(logging.DEBUG):", "        self._pywbem_method = method\n        if not kwargs:\n            raise ValueError('no arguments')\n        if self.enabled and self.api_detail_level is not None and \\\n                self.apilogger.isEnabledFor(logging.DEBUG):"), 'ValueError')

# ---- C10 / C11 --------------------------------------------------------------
STOREF = 'pywbem_mock/_inmemoryrepository.py'
IWPF = 'pywbem_mock/_instancewriteprovider.py'
DISPF = 'pywbem_mock/_providerdispatcher.py'
NSPF = 'pywbem_mock/_namespaceprovider.py'
V('c10-update-nocopy', 'C10', 'C10.R1',
  (STOREF, "        self._data[name] = deepcopy(cim_object)\n\n    def delete", "        self._data[name] = cim_object\n\n    def delete"), 'no-copy')
V('c10-get-nocopy', 'C10', 'C10.R2',
  (STOREF, "            if copy:\n                return deepcopy(self._data[name])\n            return self._data[name]", "            return self._data[name]"), 'uncopied')
V('c10-default-copy', 'C10', 'C10.R2',
  (STOREF, "    def iter_values(self, copy=True):", "    def iter_values(self, copy=False):"), 'default')
V('c10-borrowed-returned', 'C10', 'C10.R3',
  (BASEF, "        insts = [self._get_bare_instance(inst.path, instance_store, copy=True)", "        insts = [self._get_bare_instance(inst.path, instance_store)"), '')
V('c10-borrowed-mutated', 'C10', 'C10.R3',
  (IWPF, "        creation_class = class_store.get(InstanceName.classname, copy=False)\n", "        creation_class = class_store.get(InstanceName.classname, copy=False)\n        creation_class.qualifiers.pop('Description', None)\n"), '')
V('c10-dispatcher-nocopy', 'C10', 'C10.R5',
  (DISPF, "        new_instance = deepcopy(NewInstance)", "        new_instance = NewInstance"), 'caller-object-used')
V('c10-getinstance-nocopy', 'C10', 'C10.R5',
  (MAINF, "        rtn_inst = self._get_bare_instance(instance_name, instance_store,\n                                           copy=True)", "        rtn_inst = self._get_bare_instance(instance_name, instance_store,\n                                           copy=False)"), '')
V('c10-wrong-key', 'C10', 'C10.R4',
  (IWPF, "            instance_store.update(modified_instance.path, modified_instance)", "            instance_store.update(path, original_instance)"), 'key')
V('c11-write-before-validate', 'C11', 'C11.R1',
  (MAINF, "        # Add new class to CIM repository\n        class_store.create(new_class.classname, new_class)", "        # Add new class to CIM repository\n        class_store.create(new_class.classname, new_class)\n        self._validate_dependencies_exist(new_class, class_store, namespace)"), 'CreateClass')
V('c11-setqualifier-check-after', 'C11', 'C11.R1',
  (MAINF, "            qualifier_store.delete(QualifierName)\n        else:", "            qualifier_store.delete(QualifierName)\n            self.validate_namespace(namespace)\n        else:"), 'DeleteQualifier')
V('c11-multins-validate-in-write-loop', 'C11', 'C11.R1',
  (IWPF, "        # Modify the instance path for each namespace\n        for ns, path in modified_instance_paths.items():\n            instance_store = self.cimrepository.get_instance_store(ns)\n",
         "        # Modify the instance path for each namespace\n        for ns, path in modified_instance_paths.items():\n            instance_store = self.cimrepository.get_instance_store(ns)\n            _ = self.get_required_class(modified_instance, ns)\n"), 'modify_multi_namespace_instance')

# ---- C08 ------------------------------------------------------------------
V('c08-apostrophe', 'C08', 'C08.R1',
  (MOFF, "        elif ch == \"'\":\n            rv += \"'\"\n", ""), 'unhandled-escape')
V('c08-reader-wrong-char', 'C08', 'C08.R1',
  (MOFF, "        elif ch == 'f':\n            rv += '\\f'", "        elif ch == 'f':\n            rv += '\\v'"), 'reader-mismatch')
V('c08-writer-new-escape', 'C08', 'C08.R1',
  (OBJ, "        replace('\\u0007', '\\\\x0007').", "        replace('\\u0007', '\\\\a')."), 'not-in-lexer')
V('c08-writer-drops-cr', 'C08', 'C08.R1',
  (OBJ, "        replace('\\f', '\\\\f').\\\n        replace('\\r', '\\\\r')", "        replace('\\f', '\\\\f')"), 'raw-forbidden')
V('c08-escape-order', 'C08', 'C08.R2',
  [(OBJ, r"""    escaped_str = escaped_str.replace('\\', '\\\\')
""", ""),
   (OBJ, r"""    escaped_str = escaped_str.replace("'", "\\'")

    return escaped_str""", r"""    escaped_str = escaped_str.replace("'", "\\'")
    escaped_str = escaped_str.replace('\\', '\\\\')

    return escaped_str""")],
  'order')
V('c08-flavor-keyword', 'C08', 'C08.R5',
  (OBJ, "            mof_flavors.append('Restricted')", "            mof_flavors.append('NoSubclass')"), 'flavor-keyword')
V('c08-pragma-raw', 'C08', 'C08.R4',
  (MOFF, "    \"\"\"pragmaParameter : stringValue\"\"\"\n    p[0] = _fixStringValue(p[1], p)", "    \"\"\"pragmaParameter : stringValue\"\"\"\n    p[0] = p[1][1:-1]"), 'p_pragmaParameter')

# ---- C01 / C03 --------------------------------------------------------------
XMLF = 'pywbem/_cim_xml.py'
V('c01-reader-drops-attr', 'C01', 'C01.R3',
  (TPF, "        class_origin = attrl.get('CLASSORIGIN', None)\n        propagated = self.unpack_boolean(attrl.get('PROPAGATED', 'false'))\n\n        qualifiers = self.list_of_matching(tup_tree, ('QUALIFIER',))\n\n        # It is not possible",
        "        class_origin = None\n        propagated = self.unpack_boolean(attrl.get('PROPAGATED', 'false'))\n\n        qualifiers = self.list_of_matching(tup_tree, ('QUALIFIER',))\n\n        # It is not possible"),
  'CLASSORIGIN')
V('c01-reader-rejects-written', 'C01', 'C01.R2',
  (TPF, "        self.check_node(tup_tree, 'METHOD', ('NAME',),\n                        ('TYPE', 'CLASSORIGIN', 'PROPAGATED'),", "        self.check_node(tup_tree, 'METHOD', ('NAME',),\n                        ('TYPE', 'CLASSORIGIN'),"),
  'writer-not-read')
V('c01-default-wrong', 'C01', 'C01.R7',
  (TPF, "        tosubclass = self.unpack_boolean(attrl.get('TOSUBCLASS', 'true'))\n        toinstance = self.unpack_boolean(attrl.get('TOINSTANCE', 'false'))\n        translatable = self.unpack_boolean(attrl.get('TRANSLATABLE', 'false'))\n\n        try:\n            qual = CIMQualifier(",
        "        tosubclass = self.unpack_boolean(attrl.get('TOSUBCLASS', 'false'))\n        toinstance = self.unpack_boolean(attrl.get('TOINSTANCE', 'false'))\n        translatable = self.unpack_boolean(attrl.get('TRANSLATABLE', 'false'))\n\n        try:\n            qual = CIMQualifier("),
  'TOSUBCLASS')
V('c01-null-entries', 'C01', 'C01.R6',
  (TPF, "        if data is None:\n            return None\n\n        if cimtype == 'string':", "        if cimtype == 'string':"), 'null-entry')
V('c01-slot-not-written', 'C01', 'C01.R4',
  (OBJ, "            return _cim_xml.PROPERTY_ARRAY(\n                self.name,\n                self.type,\n                value_xml,\n                self.array_size,", "            return _cim_xml.PROPERTY_ARRAY(\n                self.name,\n                self.type,\n                value_xml,\n                None,"),
  'array_size')
V('c01-type-table', 'C01', 'C01.R5',
  (TYP, "    'sint64': Sint64,\n", "    'sint64': Uint64,\n"), 'cimtype')
V('c01-numeric-pattern', 'C01', 'C01.R5',
  (TPF, "NUMERIC_CIMTYPE_PATTERN = re.compile(r'^([su]int(8|16|32|64)|real(32|64))\\Z')", "NUMERIC_CIMTYPE_PATTERN = re.compile(r'^([su]int(8|16|32)|real(32|64))\\Z')"), 'numeric-pattern')
V('c03-attr-not-in-dtd', 'C03', 'C03.R1',
  (XMLF, "        CIMElement.__init__(self, 'PROPERTY')\n\n        self.setName(name)\n        self.setAttribute('TYPE', type_)\n\n        self.setOptionalAttribute('CLASSORIGIN', class_origin)",
         "        CIMElement.__init__(self, 'PROPERTY')\n\n        self.setName(name)\n        self.setAttribute('TYPE', type_)\n\n        self.setOptionalAttribute('CLASS_ORIGIN', class_origin)"),
  'undeclared-attribute')
V('c03-required-conditional', 'C03', 'C03.R1',
  (XMLF, "        CIMElement.__init__(self, 'INSTANCENAME')\n        self.setAttribute('CLASSNAME', classname)", "        CIMElement.__init__(self, 'INSTANCENAME')\n        self.setOptionalAttribute('CLASSNAME', classname)"),
  'required-missing')
V('c03-element-name', 'C03', 'C03.R2',
  (XMLF, "        CIMElement.__init__(self, 'VALUE.NULL')", "        CIMElement.__init__(self, 'VALUE.NIL')"), 'unknown-element')
V('c03-header-mismatch', 'C03', 'C03.R4',
  (OPSF, "            ('CIMOperation', 'MethodCall'),\n            ('CIMMethod', methodname),\n            ('CIMObject', get_cimobject_header(namespace)),", "            ('CIMOperation', 'MethodCall'),\n            ('CIMMethod', methodname.lower()),\n            ('CIMObject', get_cimobject_header(namespace)),"),
  'method-mismatch')
V('c03-type-chains', 'C03', 'C03.R5',
  (OPSF, "            if isinstance(obj, (CIMType, bool, str)):\n                # This includes CIMDateTime", "            if isinstance(obj, (CIMType, str)):\n                # This includes CIMDateTime"),
  'type-chains')
V('c03-bool-enum', 'C03', 'C03.R1',
  (XMLF, "        CIMElement.__init__(self, 'PROPERTY')\n\n        self.setName(name)\n        self.setAttribute('TYPE', type_)\n\n        self.setOptionalAttribute('CLASSORIGIN', class_origin)\n\n        if propagated is not None:\n            self.setAttribute('PROPAGATED', str(propagated).lower())",
         "        CIMElement.__init__(self, 'PROPERTY')\n\n        self.setName(name)\n        self.setAttribute('TYPE', type_)\n\n        self.setOptionalAttribute('CLASSORIGIN', class_origin)\n\n        if propagated is not None:\n            self.setAttribute('PROPAGATED', 'yes')"),
  'enum-value')

# ---- C04.R4 / C02.R2a -------------------------------------------------------
V('c04-path-not-stripped', 'C04', 'C04.R4',
  (OPSF, "        if isinstance(instancename, CIMInstanceName):\n            instancename = instancename.copy()\n            instancename.host = None\n            instancename.namespace = None", "        if isinstance(instancename, CIMInstanceName):\n            instancename = instancename.copy()\n            instancename.host = None"),
  'path-not-stripped')
V('c04-not-normalised', 'C04', 'C04.R4',
  (OPSF, "            ResultClass = self._iparam_classname(ResultClass, 'ResultClass')\n            Role = self._iparam_string(Role, 'Role')\n\n            result = self._imethodcall(", "            ResultClass = self._iparam_classname(ResultClass, 'ResultClass')\n\n            result = self._imethodcall("),
  'not-normalised')
V('c04-reader-child', 'C04', 'C04.R4',
  (TPF, "                                     'QUALIFIER.DECLARATION', 'CLASS',\n                                     'INSTANCE', 'VALUE.NAMEDINSTANCE'))\n\n        _name = attrs(tup_tree)['NAME']", "                                     'QUALIFIER.DECLARATION', 'CLASS',\n                                     'INSTANCE'))\n\n        _name = attrs(tup_tree)['NAME']"),
  'child-not-accepted')
V('c02-none-result', 'C02', 'C02.R2a',
  (OPSF, "        if result is None:\n            # _imethodcall() returns None for a response without any child\n            # elements; the checks below then report what is missing.\n            result = []\n", ""),
  'none-result')
V('c02-none-result-op', 'C02', 'C02.R2a',
  (OPSF, "            if result is None:\n                instances = []\n            else:\n                instances = result[0][2]\n\n            for instance in instances:\n\n                if not isinstance(instance, CIMInstance):", "            instances = result[0][2]\n\n            for instance in instances:\n\n                if not isinstance(instance, CIMInstance):"),
  'none-result')

# ---- C02.R2 (reply element shapes) -----------------------------------------
OPSF = 'pywbem/_cim_operations.py'
V('c02-shape-no-tuple-check', 'C02', 'C02.R2',
  (OPSF, "                if not isinstance(x, tuple):\n                    raise CIMXMLParseError(\n                        _format(\"Expecting a VALUE.OBJECT*, or OBJECTPATH \"\n                                \"element in result list, got {0} object\",\n                                x.__class__.__name__),\n                        conn_id=self.conn_id)\n                objects.append(x[2])",
         "                objects.append(x[2])"), 'subscript')
V('c02-shape-pull-no-type', 'C02', 'C02.R2',
  (OPSF, "            result_tuple = pull_path_result_tuple(\n                *self._get_rslt_params(result, namespace, CIMInstanceName))\n            return result_tuple\n\n        except (CIMXMLParseError, XMLParseError) as exce:\n            exce.request_data = self.last_raw_request\n            exce.response_data = self.last_raw_reply\n            exc = exce\n            raise\n        except Exception as exce:\n            exc = exce\n            raise\n        finally:\n            self._last_operation_time = stats.stop_timer(\n                self.last_request_len, self.last_reply_len,\n                self.last_server_response_time, exc)\n            if self._operation_recorders:\n                self.operation_recorder_stage_result(result_tuple, exc)\n\n    def PullInstances(",
         "            result_tuple = pull_path_result_tuple(\n                *self._get_rslt_params(result, namespace))\n            return result_tuple\n\n        except (CIMXMLParseError, XMLParseError) as exce:\n            exce.request_data = self.last_raw_request\n            exce.response_data = self.last_raw_reply\n            exc = exce\n            raise\n        except Exception as exce:\n            exc = exce\n            raise\n        finally:\n            self._last_operation_time = stats.stop_timer(\n                self.last_request_len, self.last_reply_len,\n                self.last_server_response_time, exc)\n            if self._operation_recorders:\n                self.operation_recorder_stage_result(result_tuple, exc)\n\n    def PullInstances("),
  'unchecked-return')
V('c02-shape-path-none', 'C02', 'C02.R2',
  (OPSF, "                if instance.path is None:\n                    raise CIMXMLParseError(\n                        \"Expecting CIMInstance object with path in result \"\n                        \"list (VALUE.NAMEDINSTANCE element), got CIMInstance \"\n                        \"object without path\",\n                        conn_id=self.conn_id)\n                instance.path.namespace = namespace",
         "                instance.path.namespace = namespace"), 'attribute .namespace')
V('c02-shape-getinstance-no-check', 'C02', 'C02.R2',
  (OPSF, "            if not isinstance(instance, CIMInstance):\n                raise CIMXMLParseError(\n                    _format(\"Expecting CIMInstance object in result, got {0} \"\n                            \"object\", instance.__class__.__name__),\n                    conn_id=self.conn_id)\n\n            # The GetInstance CIM-XML",
         "            # The GetInstance CIM-XML"), 'attribute .path')
V('c02-shape-wrong-type-param', 'C02', 'C02.R2',
  (OPSF, "            for obj in rtn_objects:\n                if not isinstance(obj, exp_type):",
         "            for obj in rtn_objects:\n                if obj is None:"), 'unchecked-return')
V('c02-shape-classlevel-unpack', 'C02', 'C02.R2',
  (OPSF, "                if not isinstance(obj, tuple):\n                    raise CIMXMLParseError(\n                        _format(\"Expecting tuple (CIMClassName, CIMClass) \"\n                                \"in result list, got {0} object\",\n                                obj.__class__.__name__),\n                        conn_id=self.conn_id)\n                classpath, klass = obj",
         "                classpath, klass = obj"), 'unpacking')
V('c02-shape-enumqual-no-check', 'C02', 'C02.R2',
  (OPSF, "                if not isinstance(qualifierdecl, CIMQualifierDeclaration):", "                if qualifierdecl is None:"), 'unchecked-return')

# ---- C16: request threads joined by server_close() -------------------------
LSF = 'pywbem/_listener.py'
V('c16-daemon-threads', 'C16', 'C16.R2',
  (LSF, "    allow_reuse_address = True\n", "    allow_reuse_address = True\n    daemon_threads = True\n"), 'request-threads-not-joined')
V('c16-no-block-on-close', 'C16', 'C16.R2',
  (LSF, "    allow_reuse_address = True\n", "    allow_reuse_address = True\n    block_on_close = False\n"), 'request-threads-not-joined')

# ---- C03.R3b/R3c, C10.R1b/R2b, E3 index primitive ---------------------------
V('c03-ns-filtered', 'C03', 'C03.R3c',
  ('pywbem/_cim_operations.py', "                             for ns in namespace.split('/')]),", "                             for ns in namespace.split('/') if ns]),"), 'may-be-empty')
V('c03-class-child-order', 'C03', 'C03.R3b',
  ('pywbem/_cim_xml.py', "        children = []\n        if qualifiers:\n            children.extend(qualifiers)\n        if properties:\n            children.extend(properties)\n        if methods:\n            children.extend(methods)\n        self.appendChildren(children)",
   "        children = []\n        if properties:\n            children.extend(properties)\n        if qualifiers:\n            children.extend(qualifiers)\n        if methods:\n            children.extend(methods)\n        self.appendChildren(children)"), 'child-sequence')
V('c03-instance-wrong-child', 'C03', 'C03.R3b',
  ('pywbem/_cim_obj.py', "            properties=[p.tocimxml() for p in self.properties.values()],\n            qualifiers=[q.tocimxml() for q in self.qualifiers.values()])\n\n        if self.path is None or ignore_path:",
   "            properties=[q.tocimxml() for q in self.qualifiers.values()],\n            qualifiers=[p.tocimxml() for p in self.properties.values()])\n\n        if self.path is None or ignore_path:"), 'child-sequence')
V('c10-create-key-alias', 'C10', 'C10.R1',
  ('pywbem_mock/_inmemoryrepository.py', "        self._data[deepcopy(name)] = deepcopy(cim_object)", "        self._data[name] = deepcopy(cim_object)"), 'key-not-copied')
V('c10-enum-names-shallow', 'C10', 'C10.R2',
  ('pywbem_mock/_mainprovider.py', "        inst_paths = [inst.path for inst in instance_store.iter_values()\n                      if inst.path.classname in clns]\n\n        return_paths = [path.copy() for path in inst_paths]\n",
   "        return_paths = [path for path in instance_store.iter_names()\n                        if path.classname in clns]\n"), 'shallow-name-returned')
V('c02-split-index', 'C02', 'C02.R1',
  ('pywbem/_cim_http.py', "            server_auths = [sa.split(' ')[0] for sa in server_auths]", "            server_auths = [sa.split()[0] for sa in server_auths]"), 'IndexError')

# ---- element-node linearity (C01.R10 / C04.R7) -----------------------------
V('c04-null-node-hoisted', 'C04', 'C04.R7',
  ('pywbem/_cim_obj.py', "                array_xml = []\n                for v in self.value:\n                    if v is None:\n                        if SEND_VALUE_NULL:\n                            array_xml.append(_cim_xml.VALUE_NULL())\n                        else:\n                            array_xml.append(_cim_xml.VALUE(None))\n                    elif self.embedded_object is not None:",
   "                null_xml = _cim_xml.VALUE_NULL() if SEND_VALUE_NULL else _cim_xml.VALUE(None)\n                array_xml = []\n                for v in self.value:\n                    if v is None:\n                        array_xml.append(null_xml)\n                    elif self.embedded_object is not None:"),
  'node-reused-in-loop')
V('c01-node-twice', 'C01', 'C01.R10',
  ('pywbem/_cim_obj.py', "        if self.path.namespace is None:\n            return _cim_xml.VALUE_NAMEDINSTANCE(\n                self.path.tocimxml(),\n                instance_xml)",
   "        if self.path.namespace is None:\n            _ = _cim_xml.VALUE_OBJECT(instance_xml)\n            return _cim_xml.VALUE_NAMEDINSTANCE(\n                self.path.tocimxml(),\n                instance_xml)"),
  'node-consumed-twice')

# ---- C08.R7 / C06.R6b / C06.R8 ----------------------------------------------
V('c08-null-keeps-default', 'C08', 'C08.R7',
  ('pywbem/_mof_compiler.py', "                pprop.value = cimvalue(pval, cprop.type)\n            inst.properties[pname] = pprop", "                    pprop.value = cimvalue(pval, cprop.type)\n            inst.properties[pname] = pprop"), 'default-kept')
V('c08-embedded-null-keeps-default', 'C08', 'C08.R7',
  ('pywbem/_mof_compiler.py', "                else:\n                    # NULL in the instance overrides a default value of the\n                    # property in the class\n                    pprop.value = None\n", ""), 'default-kept')
V('c06-exp-separator', 'C06', 'C06.R6',
  ('pywbem/_cim_types.py', "        s = f'{obj:.11G}'\n        if s == 'NAN':\n            s = 'NaN'\n        elif s in ('INF', '-INF'):\n            pass\n        elif '.' not in s:\n            parts = s.split('E')\n            parts[0] = parts[0] + '.0'\n            s = 'E'.join(parts)",
   "        s = f'{obj:.11G}'\n        if s == 'NAN':\n            s = 'NaN'\n        elif s in ('INF', '-INF'):\n            pass\n        elif '.' not in s:\n            mantissa, sep, exponent = s.partition('E+')\n            s = f'{mantissa}.0{sep}{exponent}'"), 'exponent-separator')
V('c06-interval-float-seconds', 'C06', 'C06.R8',
  ('pywbem/_cim_types.py', "            days = self.timedelta.days\n            hours = self.timedelta.seconds // 3600\n            sec_in_hour = self.timedelta.seconds - hours * 3600\n            minutes = sec_in_hour // 60\n            seconds = sec_in_hour - minutes * 60\n",
   "            total_secs = int(self.timedelta.total_seconds())\n            days, sec_in_day = divmod(total_secs, 86400)\n            hours, sec_in_hour = divmod(sec_in_day, 3600)\n            minutes, seconds = divmod(sec_in_hour, 60)\n"), 'float-path')

# ---- C09.R6b / C18.R2c -------------------------------------------------------
V('c09-restore-only-scalar', 'C09', 'C09.R6',
  ('pywbem/_mof_compiler.py', "                _ = self.parser.parse(mof, lexer=lexer)\n\n            self.parser.file = oldfile\n            self.parser.mof = oldmof\n            return self.parser.embedded_objects",
   "                _ = self.parser.parse(mof, lexer=lexer)\n                self.parser.file = oldfile\n                self.parser.mof = oldmof\n            return self.parser.embedded_objects"), 'not-restored')
V('c18-reuse-foreign-destination', 'C18', 'C18.R2',
  ('pywbem/_subscription_manager.py', "            for inst in self._owned_destinations[server_id]:\n                if inst['Destination'] == dest_inst['Destination'] and \\", "            for inst in existing_dest_insts:\n                if inst['Destination'] == dest_inst['Destination'] and \\"), 'foreign-instance-returned')

# ---- C11: mutation of a borrowed repository object is a write ---------------
V('c11-modify-borrowed', 'C11', 'C11.R1',
  ('pywbem_mock/_instancewriteprovider.py', "        original_instance = instance_store.get(modified_instance.path)\n", "        original_instance = instance_store.get(modified_instance.path,\n                                               copy=False)\n"), 'InstanceWriteProvider.ModifyInstance')

# ---- C06.R9 (printer shape analysis) -----------------------------------------
V('c06-dot-zero-appended', 'C06', 'C06.R9',
  ('pywbem/_cim_types.py', "        s = f'{obj:.11G}'\n        if s == 'NAN':\n            s = 'NaN'\n        elif s in ('INF', '-INF'):\n            pass\n        elif '.' not in s:\n            parts = s.split('E')\n            parts[0] = parts[0] + '.0'\n            s = 'E'.join(parts)",
   "        s = f'{obj:.11G}'\n        if s == 'NAN':\n            s = 'NaN'\n        elif s in ('INF', '-INF'):\n            pass\n        elif '.' not in s:\n            s = s + '.0'"), 'not-readable')
V('c06-lowercase-g', 'C06', 'C06.R9',
  ('pywbem/_cim_types.py', "        s = f'{obj:.17G}'", "        s = f'{obj:.17g}'"), 'not-readable')

# ---- C17.R5 / R2 extensions ---------------------------------------------------
V('c17-negative-length-read', 'C17', 'C17.R5',
  (LSF, "        if content_len < 0:\n", "        if content_len < -1:\n"), 'unbounded-read')
V('c17-param-keyerror', 'C17', 'C17.R2',
  (LSF, "            if len(params) != 1 or 'NewIndication' not in params:", "            if len(params) != 1:"), 'KeyError')
V('c17-header-none', 'C17', 'C17.R2',
  (LSF, "        content_encoding = self.headers.get('Content-Encoding', 'identity')", "        content_encoding = self.headers.get('Content-Encoding')"), 'AttributeError')

# ---- C17.R6 -----------------------------------------------------------------
V('c17-length-of-str', 'C17', 'C17.R6',
  (LSF, "        if isinstance(resp_body, str):\n            resp_body = resp_body.encode(\"utf-8\")\n\n        http_code = 200\n        self.send_response(http_code, http.client.responses.get(http_code, ''))\n        self.send_header(\"Content-Type\", \"text/xml\")\n        self.send_header(\"Content-Length\", str(len(resp_body)))\n        self.send_header(\"CIMExport\", \"MethodResponse\")\n        self.end_headers()\n        self.wfile.write(resp_body)",
   "        http_code = 200\n        self.send_response(http_code, http.client.responses.get(http_code, ''))\n        self.send_header(\"Content-Type\", \"text/xml\")\n        self.send_header(\"Content-Length\", str(len(resp_body)))\n        self.send_header(\"CIMExport\", \"MethodResponse\")\n        self.end_headers()\n        self.wfile.write(resp_body.encode(\"utf-8\"))", 2), 'length-of-other-object')

# ---- C02.R4b / C02.R7 ------------------------------------------------------------
V('c02-type-guard-dollar', 'C02', 'C02.R4b',
  ('pywbem/_tupleparse.py', "NUMERIC_CIMTYPE_PATTERN = re.compile(r'^([su]int(8|16|32|64)|real(32|64))\\Z')", "NUMERIC_CIMTYPE_PATTERN = re.compile(r'^([su]int(8|16|32|64)|real(32|64))$')"), 'guard-wider-than-table')
V('c02-type-guard-extra-name', 'C02', 'C02.R4b',
  ('pywbem/_tupleparse.py', "NUMERIC_CIMTYPE_PATTERN = re.compile(r'^([su]int(8|16|32|64)|real(32|64))\\Z')", "NUMERIC_CIMTYPE_PATTERN = re.compile(r'^([su]int(8|16|32|64|128)|real(32|64))\\Z')"), 'guard-wider-than-table')
V('c02-fstring-template', 'C02', 'C02.R7',
  ('pywbem/_tupletree.py', "                \"Line {0} column {1} of XML string (as binary UTF-8 string):\\n\"\n                \"{2}\\n\"\n                \"{3}\",\n                lineno, colno, line, marker_line)",
   "                f\"Line {lineno} column {colno} of XML string (as binary UTF-8 \"\n                \"string):\\n\"\n                f\"{line}\\n\"\n                f\"{marker_line}\")"), 'format')

# ---- rules from seed round b -------------------------------------------------
V('c01-falsy-value-guard', 'C01', 'C01.R11',
  ('pywbem/_tupleparse.py', "        if isinstance(val, list):\n            return [self.parse_embeddedObject(obj) for obj in val]\n        if val is None:\n            return None\n", "        if not val:\n            return None\n        if isinstance(val, list):\n            return [self.parse_embeddedObject(obj) for obj in val]\n"), 'truthiness-of-value')
V('c04-builtin-default-ns', 'C04', 'C04.R3b',
  ('pywbem/_cim_operations.py', "            localobject = CIMClassName(objectname,\n                                       namespace=self.default_namespace)", "            localobject = CIMClassName(objectname, namespace=DEFAULT_NAMESPACE)"), 'builtin-default')
V('c05-dict-copy-dynamic-class', 'C05', 'C05.R8',
  ('pywbem/_vendor/nocasedict/_nocasedict.py', "        result = NocaseDict()\n        result._data = self._data.copy()", "        result = type(self)()\n        result._data = self._data.copy()"), 'state-not-copied')
V('c07-userinfo-unfolded', 'C07', 'C07.R4',
  ('pywbem/_cim_obj.py', "            ret.append(case(self.host))", "            userinfo, sep, hostport = self.host.rpartition('@')\n            ret.append(userinfo + sep + case(hostport))", 2), 'not-folded')
V('c08-hex-unbounded', 'C08', 'C08.R1',
  ('pywbem/_mof_compiler.py', "            while j < 4:\n                c = s[i + j]", "            while i + j < len(s):\n                c = s[i + j]"), 'hex-width')
V('c09-optional-cim-error', 'C09', 'C09.R8',
  ('pywbem/_mof_compiler.py', "        ret_str += f\"\\n{self.cim_error}\"", "        ret_str += _format(\"\\n{0}\", self.cim_error.status_code)"), 'none-deref')
V('c18-handler-in-filter-list', 'C18', 'C18.R7',
  ('pywbem/_subscription_manager.py', "                    or inst.path.keybindings['Handler'] in \\\n                    owned_destination_paths:", "                    or inst.path.keybindings['Filter'] in \\\n                    owned_destination_paths:"), 'end-kind-mismatch')
V('c20-unclaimed-truthiness', 'C20', 'C20.R7',
  ('pywbem/_valuemapping.py', "        if self._b2v_unclaimed is not None:\n            return self._b2v_unclaimed", "        if self._b2v_unclaimed:\n            return self._b2v_unclaimed"), 'truthiness-of-sentinel')

# ---- C02.R2c ------------------------------------------------------------------
V('c02-tag-confusion-error', 'C02', 'C02.R2c',
  ('pywbem/_cim_operations.py', "        if tup_tree and _is_element_node(tup_tree[0], 'ERROR'):\n            # The operation failed", "        if tup_tree and tup_tree[0][0] == 'ERROR':\n            # The operation failed"), 'tag-confusion')
V('c02-tag-confusion-helper', 'C02', 'C02.R2c',
  ('pywbem/_cim_operations.py', "    return node[0] == name and isinstance(node[1], dict)", "    return node[0] == name"), 'tag-confusion')

# ---- C19.R7 / R8 -------------------------------------------------------------
V('c19-envelope-reset-drift', 'C19', 'C19.R8',
  ('pywbem/_cim_operations.py', "        self._last_raw_reply = None\n        self._last_reply_len = 0\n        self._last_server_response_time = None\n        if self.debug:\n            self._last_request = None  # will be set upon access\n            self._last_request_xml_item = req_xml\n            self._last_reply = None\n            self._last_reply_xml_item = None\n\n        # Send request and receive response\n        reply_data, self._last_server_response_time = wbem_request(\n            self, request_data, cimxml_headers)\n\n        # Set attributes recording the response, part 1.\n        # Only those that can be done without parsing (which can fail).\n        self._last_raw_reply = reply_data\n        self._last_reply_len = len(reply_data)\n\n        # Parse the XML into a tuple tree (may raise CIMXMLParseError or\n        # XMLParseError):\n        tt_ = xml_to_tupletree_sax(reply_data, \"CIM-XML response\")\n        tp = TupleParser(self.conn_id)\n        tup_tree = tp.parse_cim(tt_)\n\n        # Set attributes recording the response, part 2.\n        if self.debug:\n            self._last_reply = None  # will be set upon access\n            self._last_reply_xml_item = reply_data\n\n        # Check the tuple tree\n\n        if tup_tree[0] != 'CIM':\n            raise CIMXMLParseError(\n                _format(\"Expecting CIM element, got {0}\", tup_tree[0]),\n                conn_id=self.conn_id)\n        tup_tree = tup_tree[2]\n\n        if tup_tree[0] != 'MESSAGE':\n            raise CIMXMLParseError(\n                _format(\"Expecting MESSAGE element, got {0}\", tup_tree[0]),\n                conn_id=self.conn_id)\n        tup_tree = tup_tree[2]\n\n        if tup_tree[0] != 'SIMPLERSP':\n            raise CIMXMLParseError(\n                _format(\"Expecting SIMPLERSP element, got {0}\", tup_tree[0]),\n                conn_id=self.conn_id)\n        tup_tree = tup_tree[2]\n\n        if tup_tree[0] != 'METHODRESPONSE':",
   "        self._last_reply = None\n        self._last_reply_len = 0\n        self._last_server_response_time = None\n        if self.debug:\n            self._last_request = None  # will be set upon access\n            self._last_request_xml_item = req_xml\n            self._last_reply = None\n            self._last_reply_xml_item = None\n\n        # Send request and receive response\n        reply_data, self._last_server_response_time = wbem_request(\n            self, request_data, cimxml_headers)\n\n        # Set attributes recording the response, part 1.\n        # Only those that can be done without parsing (which can fail).\n        self._last_raw_reply = reply_data\n        self._last_reply_len = len(reply_data)\n\n        # Parse the XML into a tuple tree (may raise CIMXMLParseError or\n        # XMLParseError):\n        tt_ = xml_to_tupletree_sax(reply_data, \"CIM-XML response\")\n        tp = TupleParser(self.conn_id)\n        tup_tree = tp.parse_cim(tt_)\n\n        # Set attributes recording the response, part 2.\n        if self.debug:\n            self._last_reply = None  # will be set upon access\n            self._last_reply_xml_item = reply_data\n\n        # Check the tuple tree\n\n        if tup_tree[0] != 'CIM':\n            raise CIMXMLParseError(\n                _format(\"Expecting CIM element, got {0}\", tup_tree[0]),\n                conn_id=self.conn_id)\n        tup_tree = tup_tree[2]\n\n        if tup_tree[0] != 'MESSAGE':\n            raise CIMXMLParseError(\n                _format(\"Expecting MESSAGE element, got {0}\", tup_tree[0]),\n                conn_id=self.conn_id)\n        tup_tree = tup_tree[2]\n\n        if tup_tree[0] != 'SIMPLERSP':\n            raise CIMXMLParseError(\n                _format(\"Expecting SIMPLERSP element, got {0}\", tup_tree[0]),\n                conn_id=self.conn_id)\n        tup_tree = tup_tree[2]\n\n        if tup_tree[0] != 'METHODRESPONSE':"),
  'sibling-differs')

# ---- C04.R4b / C10.R9 ---------------------------------------------------------
V('c04-proplist-falsy', 'C04', 'C04.R4b',
  ('pywbem/_cim_operations.py', "    if property_list is None:\n        pass\n    elif isinstance(property_list, (list, tuple)):\n        pass", "    if not property_list:\n        property_list = None\n    elif isinstance(property_list, (list, tuple)):\n        pass"), 'truthiness-of-parameter')
V('c10-proplist-falsy-mock', 'C10', 'C10.R9',
  ('pywbem_mock/_baseprovider.py', "        if property_list is not None:", "        if property_list:"), 'truthiness-of-propertylist')

# ---- round c: C14.R9, C17.R7, C17.R3b -----------------------------------------
V('c14-id-from-table', 'C14', 'C14.R9',
  ('pywbem_mock/_mainprovider.py', "        return str(uuid.uuid4())", "        return str(len(self.enumeration_contexts) + 1)"), 'id-from-table')
V('c17-mixin-order', 'C17', 'C17.R7',
  (LSF, "class ThreadedHTTPServer(socketserver.ThreadingMixIn, HTTPServer):", "class ThreadedHTTPServer(HTTPServer, socketserver.ThreadingMixIn):"), 'mixin-order')
V('c17-header-not-latin1', 'C17', 'C17.R3b',
  (LSF, "            cim_error_details = quote(cim_error_details,\n                                      safe=HEADER_VALUE_SAFE_CHARS)\n", ""), 'latin1')

# ---- round c, second batch -------------------------------------------------------
V('c01-datetime-float-path', 'C01', 'C01.R12',
  (TYP, "            days = self.timedelta.days\n", "            days = int(self.timedelta.total_seconds() / 86400)\n"), 'float-path')
V('c03-content-length-of-str', 'C03', 'C03.R7',
  (LSF, "        if isinstance(resp_body, str):\n            resp_body = resp_body.encode(\"utf-8\")\n\n        http_code = 200\n        self.send_response(http_code, http.client.responses.get(http_code, ''))\n        self.send_header(\"Content-Type\", \"text/xml\")\n        self.send_header(\"Content-Length\", str(len(resp_body)))\n        self.send_header(\"CIMExport\", \"MethodResponse\")\n        self.end_headers()\n        self.wfile.write(resp_body)",
   "        http_code = 200\n        self.send_response(http_code, http.client.responses.get(http_code, ''))\n        self.send_header(\"Content-Type\", \"text/xml\")\n        self.send_header(\"Content-Length\", str(len(resp_body)))\n        self.send_header(\"CIMExport\", \"MethodResponse\")\n        self.end_headers()\n        self.wfile.write(resp_body.encode(\"utf-8\"))", 2), 'length-of-other-object')
V('c02-ctor-check-on-array-size', 'C02', 'C02.R4',
  (OBJ, "    if value is not None:\n        value_is_array = isinstance(value, (list, tuple))\n",
   "    if array_size is not None and array_size < 0:\n        raise ValueError(\"negative array_size\")\n    if value is not None:\n        value_is_array = isinstance(value, (list, tuple))\n"), 'ValueError')
V('c03-truthiness-vs-none', 'C03', 'C03.R3b',
  (OBJ, "        if self.namespace is None or ignore_namespace:\n            return instancename_xml\n", "        if not self.namespace or ignore_namespace:\n            return instancename_xml\n"), 'child-sequence')
V('c05-eq-converts-other', 'C05', 'C05.R9',
  (TYP, "        if not isinstance(other, CIMDateTime):\n            return False\n        return (_eq_item(self.datetime, other.datetime) and",
   "        if isinstance(other, str):\n            other = CIMDateTime(other)\n        if not isinstance(other, CIMDateTime):\n            return False\n        return (_eq_item(self.datetime, other.datetime) and"), 'rebinds')
V('c05-eq-foreign-type', 'C05', 'C05.R9',
  (TYP, "        if not isinstance(other, CIMDateTime):\n            return False\n        return (_eq_item(self.datetime, other.datetime) and",
   "        if isinstance(other, str):\n            return str(self) == other\n        if not isinstance(other, CIMDateTime):\n            return False\n        return (_eq_item(self.datetime, other.datetime) and"), 'foreign-type')
V('c07-colon-precheck', 'C07', 'C07.R6',
  (OBJ, "            try:\n                cimval = CIMInstanceName.from_wbem_uri(cimval)\n            except ValueError:\n                try:\n                    cimval = CIMDateTime(cimval)\n                except ValueError:\n                    cimval = _ensure_unicode(cimval)\n            return cimval\n",
   "            if ':' in cimval:\n                try:\n                    return CIMInstanceName.from_wbem_uri(cimval)\n                except ValueError:\n                    pass\n            try:\n                cimval = CIMDateTime(cimval)\n            except ValueError:\n                cimval = _ensure_unicode(cimval)\n            return cimval\n"), 'content-precheck')
V('c08-array-size-dropped', 'C08', 'C08.R8',
  (MOFF, "    if len(p) == 5:\n        args['is_array'] = True\n        args['array_size'] = p[4]\n    quals = OrderedDict([(x.name, x) for x in p[1]])\n    p[0] = CIMParameter(p[3], 'reference', qualifiers=quals,",
   "    if len(p) == 5:\n        args['is_array'] = True\n    quals = OrderedDict([(x.name, x) for x in p[1]])\n    p[0] = CIMParameter(p[3], 'reference', qualifiers=quals,"), 'p[4] array')
V('c09-cache-before-commit', 'C09', 'C09.R9',
  [(MOFF, "    p.parser.qualcache[ns][qualdecl.name] = qualdecl\n\n\ndef p_compilerDirective", "\n\ndef p_compilerDirective"),
   (MOFF, "    ns = p.parser.target_namespace or p.parser.handle.default_namespace\n    if p.parser.verbose:\n        p.parser.log(\n            _format(\"Setting qualifier {0}:{1}\",\n                    ns, qualdecl.name))\n    try:\n        p.parser.handle.SetQualifier(qualdecl, namespace=ns)\n",
    "    ns = p.parser.target_namespace or p.parser.handle.default_namespace\n    p.parser.qualcache[ns][qualdecl.name] = qualdecl\n    if p.parser.verbose:\n        p.parser.log(\n            _format(\"Setting qualifier {0}:{1}\",\n                    ns, qualdecl.name))\n    try:\n        p.parser.handle.SetQualifier(qualdecl, namespace=ns)\n")], 'before-commit')
V('c10-key-truthiness', 'C10', 'C10.R10',
  (OBJ, "                if prop in instance:\n                    keybindings[pname] = instance[prop]\n                else:\n                    if strict:",
   "                value = instance.get(prop)\n                if value:\n                    keybindings[pname] = value\n                else:\n                    if strict:"), 'truthiness-of-value')
V('c11-no-validation-loop', 'C11', 'C11.R1',
  (IWPF, "        for ns, path in new_instance_paths.items():\n            instance_store = self.cimrepository.get_instance_store(ns)\n            if instance_store.object_exists(path):\n                raise CIMError(\n                    CIM_ERR_ALREADY_EXISTS,\n                    _format(\"New instance {0!A} already exists in namespace \"\n                            \"{1!A}. Cannot create new instance.\", path, ns))\n\n", ""), 'loop')
V('c12-redeclared-no-init', 'C12', 'C12.R7',
  (RESF, "                        new_quals[inh_qname].propagated = False\n                        self._init_qualifier(new_quals[inh_qname],\n                                             qualifier_store)\n", "                        new_quals[inh_qname].propagated = False\n"), 'flavors-not-initialised')
V('c13-shadow-from-partial', 'C13', 'C13.R5',
  (IWPF, "            assoc_namespaces = self.find_multins_association_ref_namespaces(\n                original_instance, namespace)", "            assoc_namespaces = self.find_multins_association_ref_namespaces(\n                modified_instance, namespace)"), 'decision-object-differs')

V('c19-stats-not-reentrant', 'C19', 'C19.R9',
  ('pywbem/_statistics.py', "        if any(op_stat is not None and op_stat.name == name\n               for op_stat in self._cm_stack):\n", "        if False:\n"), 'timer-reentered')

# ---- round d ---------------------------------------------------------------------
V('c20-hex-no-plus', 'C20', 'C20.R8',
  (UTL, "    r'^[+\\-]?0X(?:[0-9A-F]+)$',", "    r'^-?0X(?:[0-9A-F]+)$',"), 'sign')
V('c20-binary-digits', 'C20', 'C20.R8',
  (UTL, "    r'^([+\\-]?(?:[0-1]+))B$',", "    r'^([+\\-]?(?:[1]+))B$',"), 'digit-alphabet')
V('c03-method-reference-type', 'C03', 'C03.R1b',
  (OBJ, "        if return_type == 'reference':\n            raise ValueError(\"Method cannot have a reference return type\")\n", ""), 'enum-value')
V('c03-qualifier-any-type', 'C03', 'C03.R1b',
  (OBJ, "        if type not in QUALIFIER_CIMTYPES:\n            raise ValueError(\n                _format(\"Invalid CIM type for a qualifier: {0}\", type))\n", "        if type not in ALL_CIMTYPES:\n            raise ValueError(\n                _format(\"Invalid CIM type for a qualifier: {0}\", type))\n", 2), 'enum-value')

# ---- sibling envelope rules ------------------------------------------------------
V('c02-handler-drift', 'C02', 'C02.R8',
  (OPSF, "            return result_tuple\n\n        except (CIMXMLParseError, XMLParseError) as exce:", "            return result_tuple\n\n        except CIMXMLParseError as exce:", None, 3), 'sibling-drift')
V('c19-staged-arg-dropped', 'C19', 'C19.R11',
  (OPSF, "                method=method_name,\n                context=context,\n                MaxObjectCount=MaxObjectCount)", "                method=method_name,\n                context=context)", None, 1), 'staged-args')
V('c19-finally-drift', 'C19', 'C19.R10',
  (OPSF, "                self.operation_recorder_stage_result(result_tuple, exc)", "                self.operation_recorder_stage_result(result_tuple, None)", None, 2), 'sibling-drift')

# ---- round e ---------------------------------------------------------------------
V('c02-unknown-encoding', 'C02', 'C02.R1',
  ('pywbem/_tupletree.py', "    except (LookupError, ValueError) as exc:\n", "    except ValueError as exc:\n"), 'LookupError')
V('c02-embedded-nonstring', 'C02', 'C02.R1',
  (TPF, "        if not isinstance(val, str):\n            # The element has a non-string CIM type\n", "        if False:\n            # The element has a non-string CIM type\n"), 'TypeError')
V('c02-exponential-regex', 'C02', 'C02.R9',
  (OBJ, "_KB_DOUBLE_QUOTED = r'\"(?:[^\"\\\\]|\\\\.)*\"'", "_KB_DOUBLE_QUOTED = r'\"(?:[^\"\\\\]+|\\\\.)*\"'"), 'exponential-regex')

# ---- round f rules ----------------------------------------------------------
TYPESF = 'pywbem/_cim_types.py'
V('c14-swapped-open-args', 'C14', 'C14.R13',
  (MAINF, "                                   MaxObjectCount,\n                                   ContinueOnError)",
          "                                   ContinueOnError,\n                                   MaxObjectCount)", 1, 2),
  'swapped-arguments')
V('c20-lookup-key-lowered', 'C20', 'C20.R10',
  ('pywbem/_valuemapping.py', "            return self._v2b_dict[values_str]", "            return self._v2b_dict[values_str.lower()]"),
  'key-transformed')
V('c20-lookup-key-int', 'C20', 'C20.R10',
  ('pywbem/_valuemapping.py', "            return self._b2v_single_dict[element_value]", "            return self._b2v_single_dict[int(element_value)]"),
  'key-transformed')
V('c18-dest-name-casefold', 'C18', 'C18.R10',
  ('pywbem/_subscription_manager.py', "            if name_prop and name_prop.value == name:", "            if name_prop and name_prop.value.upper() == name.upper():", 1, 0),
  'value-folded')
V('c16-callback-log-first-line', 'C16', 'C16.R5',
  ('pywbem/_listener.py', "                    callback.__name__, exc.__class__.__name__, exc)", "                    callback.__name__, exc.__class__.__name__,\n                    str(exc).splitlines()[0])"),
  'IndexError')
V('c09-cchar-plus', 'C09', 'C09.R12',
  ('pywbem/_mof_compiler.py', "stringvalue_re = fr'\"({sChar})*\"'", "stringvalue_re = fr'\"(({sChar})+)*\"'"),
  'exponential-regex')
V('c08-qualifier-if-not-value', 'C08', 'C08.R10',
  ('pywbem/_mof_compiler.py', "    if qval is None:\n        if qualdecl.type == 'boolean':\n            qval = True", "    if not qval:\n        if qualdecl.type == 'boolean':\n            qval = True"),
  'truthiness-default')
V('c10-class-default-bare-value', 'C10', 'C10.R15',
  ('pywbem_mock/_providerdispatcher.py',
   "                    modified_instance[pn] = CIMProperty(\n                        pn, cl_prop.value, type=cl_prop.type,\n                        is_array=cl_prop.is_array,\n                        array_size=cl_prop.array_size,\n                        embedded_object=cl_prop.embedded_object)",
   "                    modified_instance[pn] = cl_prop.value"),
  'type-dropped')
V('c04-iparam-bool-any-name', 'C04', 'C04.R10',
  ('pywbem/_tupleparse.py', "        if isinstance(child, str) and \\\n                _name.lower() in ('deepinheritance', 'localonly',\n                                  'includequalifiers', 'includeclassorigin'):\n            if child.lower() in ('true', 'false'):",
   "        if isinstance(child, str):\n            if child.lower() in ('true', 'false'):"),
  'untyped-conversion')
V('c02-context-dropped-when-empty', 'C02', 'C02.R10',
  ('pywbem/_cim_operations.py', "        rtn_ctxt = None if end_of_sequence else (enumeration_context,\n                                                 namespace)",
   "        rtn_ctxt = None if end_of_sequence or enumeration_context == '' \\\n            else (enumeration_context, namespace)"),
  'context-vs-eos')
V('c02-context-kept-at-eos', 'C02', 'C02.R10',
  ('pywbem/_cim_operations.py', "        rtn_ctxt = None if end_of_sequence else (enumeration_context,\n                                                 namespace)",
   "        rtn_ctxt = (enumeration_context, namespace)"),
  'context-vs-eos')
V('c01-real32-seven-digits', 'C01', 'C01.R15',
  (TYPESF, "        s = f'{obj:.11G}'", "        s = f'{obj:.7G}'"), 'real32:precision')
V('c01-real64-exponent-dropped', 'C01', 'C01.R15',
  (TYPESF, "            parts[0] = parts[0] + '.0'\n            s = 'E'.join(parts)\n        return s\n    else:", "            s = parts[0] + '.0'\n        return s\n    else:"),
  'real64:partial-text')
V('c07-float-str-12-digits', 'C07', 'C07.R8',
  (TYPESF, "        return float.__repr__(self)", "        return '%.12g' % self"), 'precision')
V('c06-field-from-unpadded-text', 'C06', 'C06.R11',
  (TYPESF, "        value_str = f'{value:0{field_len}d}'", "        value_str = str(value)"), 'unpadded-field')
V('c03-array-items-generic', 'C03', 'C03.R3b',
  ('pywbem/_cim_obj.py', "            else:\n                array_xml.append(_cim_xml.VALUE(atomic_to_cim_xml(v)))\n        value_xml = _cim_xml.VALUE_ARRAY(array_xml)", "            else:\n                array_xml.append(tocimxml(v))\n        value_xml = _cim_xml.VALUE_ARRAY(array_xml)"),
  'child-sequence')
V('c02-huge-hex-in-message', 'C02', 'C02.R11',
  ('pywbem/_tupleparse.py', "                        data, cimtype, exc),", "                        value, cimtype, exc),"),
  'unbounded-int-text')
V('c19-staging-extra-keyword', 'C19', 'C19.R13',
  ('pywbem/_cim_operations.py', "                method='InvokeMethod',\n                MethodName=MethodName,\n                ObjectName=ObjectName,\n                Params=Params,\n                **params)",
   "                method='InvokeMethod',\n                origin='api',\n                MethodName=MethodName,\n                ObjectName=ObjectName,\n                Params=Params,\n                **params)"),
  'keyword-collision')
V('c19-toyaml-str-subclass', 'C19', 'C19.R14',
  ('pywbem/_recorder.py', "            return str(obj)\n        if isinstance(obj, bool):", "            return obj\n        if isinstance(obj, bool):"),
  'not-yaml-plain')
V('c19-toyaml-cimfloat-object', 'C19', 'C19.R14',
  ('pywbem/_recorder.py', "        if isinstance(obj, CIMFloat):\n            return float(obj)", "        if isinstance(obj, CIMFloat):\n            return obj"),
  'not-yaml-plain')
V('c07-classpath-colon-by-format-list', 'C07', 'C07.R9',
  ('pywbem/_cim_obj.py', "        if self.namespace is not None or format != 'historical':\n            ret.append(':')\n\n        ret.append(case(self.classname))\n\n        return _ensure_unicode(''.join(ret))", "        if self.namespace is not None or format in ('standard', 'cimobject'):\n            ret.append(':')\n\n        ret.append(case(self.classname))\n\n        return _ensure_unicode(''.join(ret))"),
  'prefix-not-parsed')
V('c07-cimobject-keeps-host', 'C07', 'C07.R9',
  ('pywbem/_cim_obj.py', "        if self.host is not None and format != 'cimobject':\n            # The CIMObject format assumes there is no host component\n            ret.append('//')\n            ret.append(case(self.host))\n\n        if self.host is not None or format not in ('cimobject', 'historical'):\n            ret.append('/')\n\n        if self.namespace is not None:\n            ret.append(case(self.namespace))\n\n        if self.namespace is not None or format != 'historical':\n            ret.append(':')\n\n        ret.append(case(self.classname))\n\n        return",
   "        if self.host is not None and format != 'cimobject':\n            # The CIMObject format assumes there is no host component\n            ret.append('//')\n            ret.append(case(self.host))\n\n        if self.host is not None and format not in ('cimobject', 'historical'):\n            ret.append('/')\n\n        if self.namespace is not None:\n            ret.append(case(self.namespace))\n\n        if self.namespace is not None or format != 'historical':\n            ret.append(':')\n\n        ret.append(case(self.classname))\n\n        return"),
  'prefix-not-parsed')

# ---- round g rules ----------------------------------------------------------
MOCKCONN = 'pywbem_mock/_wbemconnection_mock.py'
V('c03-lenient-encoding', 'C03', 'C03.R8',
  ('pywbem/_utils.py', "        return obj.encode(\"utf-8\")", "        return obj.encode(\"utf-8\", \"replace\")"),
  'lenient-encoding')
V('c13-stamp-in-place', 'C13', 'C13.R9',
  (MAINF, "            rtn_names = [r.copy() for r in ref_paths]", "            rtn_names = list(ref_paths)"),
  'stamped-in-place')
V('c13-adapter-wrong-key', 'C13', 'C13.R10',
  (MOCKCONN, "            AssocClass=_cvt_opt_classname(params.get('AssocClass', None)),", "            AssocClass=_cvt_opt_classname(params.get('ResultClass', None)),", 1, 2),
  'wrong-request-key')
V('c15-adapter-wrong-key', 'C15', 'C15.R9',
  (MOCKCONN, "            AssocClass=_cvt_opt_classname(params.get('AssocClass', None)),", "            AssocClass=_cvt_opt_classname(params.get('ResultClass', None)),", 1, 2),
  'wrong-request-key')
V('c04-adapter-wrong-key', 'C04', 'C04.R11',
  (MOCKCONN, "            AssocClass=_cvt_opt_classname(params.get('AssocClass', None)),", "            AssocClass=_cvt_opt_classname(params.get('ResultClass', None)),", 1, 0),
  'wrong-request-key')
V('c17-log-error-reads-headers', 'C17', 'C17.R10',
  ('pywbem/_listener.py', "        self.logger.error(format, *args)", "        self.logger.error(format + ' (%s)', *(args + (self.headers.get('Host'),)))"),
  'late-attribute')
V('c20-truncation-default-truthiness', 'C20', 'C20.R7',
  ('pywbem/_valuemapping.py', "            if values_default is None:", "            if not values_default:", 1, 1),
  'truthiness-of-sentinel')
V('c08-translatable-only-for-arrays', 'C08', 'C08.R11',
  ('pywbem/_cim_obj.py', "        if self.translatable:\n            mof_flavors.append('Translatable')", "        if self.translatable and not self.is_array:\n            mof_flavors.append('Translatable')"),
  'keyword-by-several-attributes')
V('c09-find-mof-unpack', 'C09', 'C09.R1',
  ('pywbem/_mof_compiler.py', "                    if file_.endswith('.mof') and \\\n                            file_[:-4].lower() == classname:", "                    stem, ext = file_.rsplit('.', 1)\n                    if ext == 'mof' and stem.lower() == classname:"),
  'ValueError')
V('c16-queue-after-http-thread', 'C16', 'C16.R8',
  [('pywbem/_listener.py', "        self._ind_queue = queue.Queue(\n            maxsize=self._max_ind_queue_size)\n", "        pass\n"),
   ('pywbem/_listener.py', "    def stop(self):\n        \"\"\"\n        Stop the WBEM listener gracefully.", "        self._ind_queue = queue.Queue(\n            maxsize=self._max_ind_queue_size)\n\n    def stop(self):\n        \"\"\"\n        Stop the WBEM listener gracefully.")],
  'accepting-before-delivery')
V('c12-superclass-memo', 'C12', 'C12.R12',
  [('pywbem_mock/_resolvermixin.py', "                superclass = self.get_class(namespace, new_class.superclass,\n                                            local_only=False,\n                                            include_qualifiers=True,\n                                            include_classorigin=True)",
    "                memo_key = (namespace, new_class.superclass.lower())\n                if memo_key not in self._sc_memo:\n                    self._sc_memo[memo_key] = self.get_class(\n                        namespace, new_class.superclass, local_only=False,\n                        include_qualifiers=True, include_classorigin=True)\n                superclass = self._sc_memo[memo_key]")],
  'memo-table')

# ---- round i rules --------------------------------------------------------
V('c18-destination-delete-unchecked', 'C18', 'C18.R12',
  ('pywbem_mock/_subscriptionproviders.py',
   "        self.validate_no_subscription(InstanceName)\n", "", 1, 1),
  'unchecked-delete')
V('c13-open-assoc-paths-wrong-pull-kind', 'C13', 'C13.R12',
  ('pywbem_mock/_mainprovider.py', "                                   'PullInstancePaths',",
   "                                   'PullInstancesWithPath',", 1, 2),
  'pull-type')
V('c14-open-enum-paths-drops-maxobjectcount', 'C14', 'C14.R16',
  (MOCKCONN, "            ContinueOnError=params.get('ContinueOnError', None),\n            MaxObjectCount=params.get('MaxObjectCount', None))",
   "            ContinueOnError=params.get('ContinueOnError', None))", 1, 1),
  'filter-dropped')
V('c04-propertylist-accepts-set', 'C04', 'C04.R14',
  ('pywbem/_cim_operations.py', "    elif isinstance(property_list, (list, tuple)):",
   "    elif isinstance(property_list, (list, tuple, set)):"),
  'sequence-type')
V('c08-qualcache-only-if-new', 'C08', 'C08.R13',
  ('pywbem/_mof_compiler.py', "    p.parser.qualcache[ns][qualdecl.name] = qualdecl\n",
   "    if qualdecl.name not in p.parser.qualcache[ns]:\n        p.parser.qualcache[ns][qualdecl.name] = qualdecl\n"),
  'cache-not-replaced')
V('c11-copies-not-checked', 'C11', 'C11.R5',
  ('pywbem_mock/_instancewriteprovider.py',
   "                    if instance_store.object_exists(instance_name_copy):\n                        existing_copies.append(\n                            (instance_store, instance_name_copy))\n",
   "                    existing_copies.append(\n                        (instance_store, instance_name_copy))\n"),
  'unvalidated-delete')
V('c11-delete-while-looking-up', 'C11', 'C11.R5',
  ('pywbem_mock/_instancewriteprovider.py',
   "                    if instance_store.object_exists(instance_name_copy):\n                        existing_copies.append(\n                            (instance_store, instance_name_copy))\n",
   "                    if instance_store.object_exists(instance_name_copy):\n                        instance_store.delete(instance_name_copy)\n"),
  'lookup-between-deletes')
V('c01-property-reference-value-without-host', 'C01', 'C01.R16',
  (OBJ, "                value_xml = _cim_xml.VALUE_REFERENCE(self.value.tocimxml())", 
   "                value_xml = _cim_xml.VALUE_REFERENCE(\n                    self.value.tocimxml(ignore_host=True))", 1, 0),
  'nested-reduced')
V('c15-pull-validates-context-first', 'C15', 'C15.R8',
  ('pywbem_mock/_mainprovider.py',
   "        self._validate_pull_operations_enabled()\n        self.validate_namespace(namespace)\n        self._validate_open_params(FilterQueryLanguage, FilterQuery,\n                                   OperationTimeout)\n",
   "        self.validate_namespace(namespace)\n        self._validate_pull_operations_enabled()\n        self._validate_open_params(FilterQueryLanguage, FilterQuery,\n                                   OperationTimeout)\n", 1, 2),
  'switch-not-checked')
V('c17-deliver-logs-first-arg', 'C17', 'C17.R11',
  ('pywbem/_listener.py', "                    callback.__name__, exc.__class__.__name__, exc)",
   "                    callback.__name__, exc.__class__.__name__,\n                    exc.args[0])"),
  'IndexError')
V('c02-query-result-class-before-check', 'C02', 'C02.R2a',
  ('pywbem/_cim_operations.py',
   "            insts, eos, enum_ctxt = self._get_rslt_params(\n                result, namespace, CIMInstance)\n\n            query_result_class = _GetQueryRsltClass(result) if \\\n                ReturnQueryResultClass else None\n",
   "            query_result_class = _GetQueryRsltClass(result) if \\\n                ReturnQueryResultClass else None\n\n            insts, eos, enum_ctxt = self._get_rslt_params(\n                result, namespace, CIMInstance)\n"),
  'none-result')
V('c10-get-properties-try-around-loop', 'C10', 'C10.R17',
  ('pywbem_mock/_baseprovider.py',
   "            for pname in list(obj.properties.keys()):\n                if pname.lower() not in property_list:\n                    del obj.properties[pname]\n",
   "            try:\n                for pname in list(obj.properties.keys()):\n                    if pname.lower() not in property_list:\n                        obj.properties.pop(pname)\n            except KeyError:\n                pass\n"),
  'loop-cut-short')
V('c07-kbstr-message-fstring', 'C07', 'C07.R11',
  (OBJ, "                _format(\"WBEM URI has an invalid format for its keybindings: \"\n                        \"{0!A}\", keybindings_str))",
   "                _format(\"WBEM URI has an invalid format for its keybindings: \"\n                        f\"{keybindings_str!a}\"))"),
  '')

# ---- round j rules ----------------------------------------------------------
V('c03-array-kind-from-last-item', 'C03', 'C03.R10',
  ('pywbem/_cim_operations.py',
   "                if any(ref_items):\n                    if not all(ref_items):\n",
   "                if obj and ref_items[-1]:\n                    if not ref_items[0]:\n"),
  'array-kind-by-some-items')
V('c14-pull-empty-shortcut', 'C14', 'C14.R17',
  ('pywbem_mock/_mainprovider.py',
   "        return self._pull_response('PullInstances',\n",
   "        if not self.enumeration_contexts:\n            return ([], 'TRUE', '')\n        return self._pull_response('PullInstances',\n"),
  'answer-without-context')
V('c12-getclass-ignores-localonly', 'C12', 'C12.R14',
  ('pywbem_mock/_mainprovider.py',
   "                           local_only=LocalOnly,\n                           include_qualifiers=IncludeQualifiers,\n                           include_classorigin=IncludeClassOrigin)\n            for cln in clns]",
   "                           include_qualifiers=IncludeQualifiers,\n                           include_classorigin=IncludeClassOrigin)\n            for cln in clns]"),
  'parameter-ignored')
V('c02-qualifier-handler-valueerror-only', 'C02', 'C02.R14',
  ('pywbem/_tupleparse.py',
   "                toinstance=toinstance, translatable=translatable)\n        except (TypeError, ValueError) as exc:",
   "                toinstance=toinstance, translatable=translatable)\n        except ValueError as exc:", 2, 0),
  'handler-misses-TypeError')
V('c17-property-handler-typeerror-only', 'C17', 'C17.R12',
  ('pywbem/_tupleparse.py',
   "                toinstance=toinstance, translatable=translatable)\n        except (TypeError, ValueError) as exc:",
   "                toinstance=toinstance, translatable=translatable)\n        except TypeError as exc:", 2, 1),
  'handler-misses-ValueError')
V('c02-iparamvalue-truthy-guard', 'C02', 'C02.R13',
  ('pywbem/_tupleparse.py', "        if isinstance(child, str) and \\\n                _name.lower() in (",
   "        if child is not None and \\\n                _name.lower() in ("),
  'AttributeError')
V('c05-eq-item-prefix', 'C05', 'C05.R2',
  ('pywbem/_utils.py', "    if item2 is None:\n        return False\n    return item1 == item2\n",
   "    if item2 is None:\n        return False\n    if isinstance(item1, tuple):\n        return item1[:len(item2)] == item2\n    return item1 == item2\n"),
  'partial-comparison')
V('c06-offset-pattern-two-digits-plus', 'C06', 'C06.R7',
  ('pywbem/_cim_types.py', "r'([+|-])(\\d{3})')", "r'([+|-])([01]\\d{2})')"),
  'digit-range')
V('c11-warn-after-delete', 'C11', 'C11.R1',
  ('pywbem_mock/_providerdispatcher.py',
   "        # Verify provider method result.\n        assert isinstance(result, CIMInstanceName)\n\n        return result\n",
   "        # Verify provider method result.\n        assert isinstance(result, CIMInstanceName)\n        warnings.warn('created', ToleratedSchemaIssueWarning, 1)\n\n        return result\n"),
  'raise-after-write')
V('c13-shadow-loop-checks', 'C13', 'C13.R13',
  ('pywbem_mock/_instancewriteprovider.py',
   "            new_instance.path = path\n            self.add_new_instance(new_instance)\n",
   "            if path is None:\n                raise CIMError(CIM_ERR_INVALID_PARAMETER, 'no path')\n            new_instance.path = path\n            self.add_new_instance(new_instance)\n"),
  'check-inside-write-loop')
V('c09-createclass-dep-case-sensitive', 'C09', 'C09.R13',
  ('pywbem/_mof_compiler.py', "                    ccname = cc.classname.lower()\n", "                    ccname = cc.classname\n"),
  'case')
V('c04-real-suffix-after-exponent', 'C04', 'C04.R15',
  ('pywbem/_cim_types.py', "            parts = s.split('E')\n            parts[0] = parts[0] + '.0'\n            s = 'E'.join(parts)\n        return s\n    elif isinstance(obj, (Real64, float)):",
   "            s = s + '.0'\n        return s\n    elif isinstance(obj, (Real64, float)):"),
  'not-readable')

# ---- round k rules ----------------------------------------------------------
V('c18-exit-skips-on-error', 'C18', 'C18.R13',
  ('pywbem/_subscription_manager.py', '        self.remove_all_servers()\n        return False  # re-raise any exceptions\n', '        if exc_type is None:\n            self.remove_all_servers()\n        return False  # re-raise any exceptions\n'),
  'cleanup-skipped')
V('c07-string-key-folded', 'C07', 'C07.R13',
  ('pywbem/_cim_obj.py', '                # string, char16\n                ret.append(\'"\')\n                ret.append(value.\n', '                # string, char16\n                ret.append(\'"\')\n                ret.append(case(value).\n', 1, 0),
  'value-folded')
V('c17-qualifier-name-falsy', 'C17', 'C17.R13',
  ('pywbem/_cim_obj.py', '        if name is None:\n            raise ValueError("CIMQualifier \'name\' parameter must not be None")', '        if not name:\n            raise ValueError("CIMQualifier \'name\' parameter must not be None")'),
  'falsy-rejected')
V('c10-already-exists-extra', 'C10', 'C10.R19',
  ('pywbem_mock/_instancewriteprovider.py', '            if instance_store.object_exists(path):\n                raise CIMError(\n                    CIM_ERR_ALREADY_EXISTS,', '            if instance_store.object_exists(path) or \\\n                    ns != orig_ns and instance_store.len():\n                raise CIMError(\n                    CIM_ERR_ALREADY_EXISTS,'),
  'not-store-membership')
V('c13-modify-keyed-by-request-path', 'C13', 'C13.R14',
  ('pywbem_mock/_instancewriteprovider.py', '        instance_store.update(original_instance.path, original_instance)', '        instance_store.update(ModifiedInstance.path, original_instance)'),
  'key')
V('c20-tobinary-checks-qualifier', 'C20', 'C20.R11',
  ('pywbem/_valuemapping.py', '        try:\n            return self._v2b_dict[values_str]\n        except KeyError:', "        try:\n            if values_str not in self._element_obj.qualifiers['Values'].value:\n                raise KeyError(values_str)\n            return self._v2b_dict[values_str]\n        except KeyError:"),
  'raw-qualifier-read')
V('c04-methodcall-empty-namespace', 'C04', 'C04.R16',
  ('pywbem/_cim_operations.py', '            if localobject.namespace is None:\n                localobject.namespace = self.default_namespace\n            localobject.host = None\n', '            if not localobject.namespace:\n                localobject.namespace = self.default_namespace\n            localobject.host = None\n'),
  'default-for-given-namespace')
V('c11-add-namespace-finally', 'C11', 'C11.R1',
  ('pywbem_mock/_wbemconnection_mock.py', '        self._mainprovider.add_namespace(namespace, verbose=verbose)\n\n    def remove_namespace', '        try:\n            self._mainprovider.add_namespace(namespace, verbose=verbose)\n        finally:\n            if namespace not in self.cimrepository.namespaces:\n                self.cimrepository.add_namespace(namespace)\n\n    def remove_namespace'),
  '')
V('c01-embedded-object-result-dropped', 'C01', 'C01.R18',
  ('pywbem/_tupleparse.py', '        if embedded_object:\n            val = self.parse_embeddedObject(val)\n\n        try:\n            return CIMProperty(\n                pname, val, type=ptype, is_array=False,', '        if embedded_object:\n            obj = self.parse_embeddedObject(val)\n\n        try:\n            return CIMProperty(\n                pname, val, type=ptype, is_array=False,'),
  'result-dropped')
V('c12-decl-default-flavor-dropped', 'C12', 'C12.R15',
  ('pywbem/_mof_compiler.py', '    if len(p) == 5:\n        flist = []\n    else:\n        flist = p[5]\n\n    flavors = _build_flavors(p, flist, None, qualname)', '    flist = []\n\n    flavors = _build_flavors(p, flist, None, qualname)'),
  'defaultFlavor')
V('c09-qualified-instance-alias-dropped', 'C09', 'C09.R14',
  ('pywbem/_mof_compiler.py', '            props = p[7]\n            alias = p[5]\n', '            props = p[7]\n'),
  'alias')
V('c08-inherited-properties-by-keys', 'C08', 'C08.R14',
  ('pywbem/_mof_compiler.py', '                for prop in super_.properties.values():\n                    if prop.name not in cc.properties:\n                        cc.properties[prop.name] = prop\n', '                for pname in super_.properties.keys():\n                    if pname not in cc.properties.keys():\n                        cc.properties[pname] = super_.properties[pname]\n'),
  'case')
V('c02-methodcall-returnvalue-attr', 'C02', 'C02.R17',
  ('pywbem/_cim_operations.py', "            returnvalue = rsp_cimvalue(\n                'RETURNVALUE', tup_tree[0][2],\n", "            returnvalue = rsp_cimvalue(\n                'RETURNVALUE', tup_tree[0][2].strip(),\n"),
  'attribute')
V('c19-str-request-data-decode', 'C19', 'C19.R16',
  ('pywbem/_exceptions.py', '        ret_str = f"{error_str}\\nCIM-XML response: {self.response_data}"\n', '        ret_str = f"{error_str}\\nCIM-XML response: " + self.response_data\n'),
  'type-specific-use')
V('c02-parse-cim-handler-reraises', 'C02', 'C02.R16',
  ('pywbem/_tupleparse.py', '        except RecursionError:\n            # The parse methods recurse', '        except RecursionError:\n            raise\n            # The parse methods recurse'),
  'recursion-depth')
V('c17-parse-cim-no-handler', 'C17', 'C17.R14',
  ('pywbem/_tupleparse.py', '        except RecursionError:\n', '        except MemoryError:\n'),
  'recursion-depth')
V('c02-multibyte-not-caught', 'C02', 'C02.R1',
  ('pywbem/_tupletree.py', '    except (LookupError, ValueError) as exc:\n', '    except LookupError as exc:\n'),
  'ValueError')
V('c02-redirect-valueerror-not-caught', 'C02', 'C02.R1',
  ('pywbem/_cim_http.py', '    except ValueError as exc:\n        # requests follows HTTP redirects', '    except UnicodeError as exc:\n        # requests follows HTTP redirects'),
  'ValueError')

# ---- round l rules ----------------------------------------------------------
V('c20-single-dict-early-break', 'C20', 'C20.R12',
  ('pywbem/_valuemapping.py', '            if lo <= element_value <= hi:\n                return values_str\n', '            if element_value > hi:\n                break\n            if lo <= element_value:\n                return values_str\n'),
  'search-cut-short')
V('c07-host-class-without-hyphen', 'C07', 'C07.R2',
  ('pywbem/_cim_obj.py', "    r'(?://([\\w.:@\\[\\]\\-]*))?'  # authority (host)\n", "    r'(?://([\\w.:@\\[\\]]*))?'  # authority (host)\n", 2, 1),
  'host-not-accepted')
V('c13-subclass-names-case-sensitive', 'C13', 'C13.R2',
  ('pywbem_mock/_mainprovider.py', '                if c.superclass and c.superclass.lower() == classname.lower()]', '                if c.superclass and c.superclass == classname]'),
  'case')
V('c08-keyword-schema-not-a-name', 'C08', 'C08.R15',
  ('pywbem/_mof_compiler.py', '                  | SCHEMA\n                  | SCOPE\n', '                  | SCOPE\n'),
  'keyword-not-a-name')
V('c17-ord-of-group-run', 'C17', 'C17.R2',
  ('pywbem/_tupletree.py', "\\uD800-\\uDFFF\\uFFFE\\uFFFF])')", "\\uD800-\\uDFFF\\uFFFE\\uFFFF]{1,2})')"),
  'TypeError')
V('c03-instancename-normaliser-dropped', 'C03', 'C03.R11',
  ('pywbem/_cim_operations.py', "            InstanceName = self._iparam_instancename(\n                InstanceName, 'InstanceName', required=True)\n", "            self._iparam_instancename(\n                InstanceName, 'InstanceName', required=True)\n", 6, 0),
  'result-dropped')
V('c04-classname-normaliser-dropped', 'C04', 'C04.R18',
  ('pywbem/_cim_operations.py', "            AssocClass = self._iparam_classname(AssocClass, 'AssocClass')\n", "            self._iparam_classname(AssocClass, 'AssocClass')\n", 4, 0),
  'result-dropped')
V('c04-objectname-host-kept', 'C04', 'C04.R19',
  ('pywbem/_cim_operations.py', '            objectname.host = None\n            objectname.namespace = None\n', '            objectname.namespace = None\n'),
  'host-kept')
V('c04-methodcall-bool-by-truth', 'C04', 'C04.R17',
  ('pywbem/_cim_operations.py', "                if type_ == 'boolean':\n                    # The text of a VALUE element is 'true' or 'false' in any\n                    # lexical case; cimvalue() would apply the Python truth\n                    # test to that text ('FALSE' is a non-empty string).\n                    return rsp_boolean(value)\n                return cimvalue(value, type_)\n", '                return cimvalue(value, type_)\n'),
  'text-truth-tested')
V('c01-classorigin-on-some-paths', 'C01', 'C01.R19',
  ('pywbem/_cim_obj.py', '        return _cim_xml.METHOD(\n            self.name,\n            parameters=[p.tocimxml() for p in self.parameters.values()],\n            return_type=self.return_type,\n            class_origin=self.class_origin,\n', '        class_origin = None\n        if self.propagated:\n            class_origin = self.class_origin\n        return _cim_xml.METHOD(\n            self.name,\n            parameters=[p.tocimxml() for p in self.parameters.values()],\n            return_type=self.return_type,\n            class_origin=class_origin,\n'),
  'slot-on-some-paths')
V('c12-modifyclass-drops-propagated', 'C12', 'C12.R16',
  ('pywbem_mock/_mainprovider.py', '        modified_class = deepcopy(ModifiedClass)\n', '        modified_class = deepcopy(ModifiedClass)\n        for pname in [p for p, v in modified_class.properties.items()\n                      if v.propagated]:\n            del modified_class.properties[pname]\n'),
  'element-removed')
V('c14-openrefpaths-validate-after-open', 'C14', 'C14.R18',
  ('pywbem_mock/_mainprovider.py', "        instances = self.ReferenceNames(namespace, InstanceName,\n                                        ResultClass=ResultClass,\n                                        Role=Role)\n\n        return self._open_response(namespace, instances,\n                                   'PullInstancePaths',\n                                   OperationTimeout,\n                                   MaxObjectCount,\n                                   ContinueOnError)\n", "        instances = self.ReferenceNames(namespace, InstanceName,\n                                        ResultClass=ResultClass,\n                                        Role=Role)\n\n        result = self._open_response(namespace, instances,\n                                     'PullInstancePaths',\n                                     OperationTimeout,\n                                     MaxObjectCount,\n                                     ContinueOnError)\n        self._validate_open_params(FilterQueryLanguage, FilterQuery,\n                                   OperationTimeout)\n        return result\n"),
  'can-fail-after-registration')
V('c18-owned-filters-not-copied', 'C18', 'C18.R14',
  ('pywbem/_subscription_manager.py', '        return list(self._owned_filters[server_id])\n', '        return self._owned_filters[server_id]\n'),
  'internal-list-returned')
V('c11-namespace-set-raw-again', 'C11', 'C11.R3',
  ('pywbem_mock/_instancewriteprovider.py', '                        ref_namespaces.setdefault(ns_key, refprop_namespace)\n', '                        ref_namespaces.setdefault(refprop_namespace,\n                                                  refprop_namespace)\n'),
  'duplicates-possible')
V('c16-start-cleanup-without-listener-threads', 'C16', 'C16.R9',
  ('pywbem/_listener.py', "            self._stop_listener_threads()\n            self._stop_indication_delivery(immediate=True)\n            raise\n",
   "            self._stop_indication_delivery(immediate=True)\n            raise\n"),
  'not-undone-on-failure')
V('c18-destination-id-colon-unchecked', 'C18', 'C18.R4',
  ('pywbem/_subscription_manager.py', "            if ':' in destination_id:\n                raise ValueError(\n                    _format(\"Destination ID contains ':': {0!A}\",\n                            destination_id))\n",
   ""),
  'colon-check')
V('c12-modifyclass-namespace-positional', 'C12', 'C12.R17',
  ('pywbem/_mof_compiler.py', "            p.parser.handle.ModifyClass(cc, namespace=ns)\n", "            p.parser.handle.ModifyClass(cc, ns)\n"),
  'namespace-not-by-keyword')
V('c09-setqualifier-without-namespace', 'C09', 'C09.R15',
  ('pywbem/_mof_compiler.py', "            p.parser.handle.SetQualifier(qualdecl, namespace=ns)\n        elif ce.status_code == CIM_ERR_NOT_SUPPORTED:",
   "            p.parser.handle.SetQualifier(qualdecl)\n        elif ce.status_code == CIM_ERR_NOT_SUPPORTED:"),
  'namespace-not-by-keyword')
V('c09-pragma-classnames-not-set-up', 'C09', 'C09.R16',
  ('pywbem/_mof_compiler.py', "        if namespace not in p.parser.classnames:\n            p.parser.classnames[namespace] = []\n", ""),
  'cache-not-set-up')
V('c10-modify-key-default-retargets', 'C10', 'C10.R20',
  ('pywbem_mock/_providerdispatcher.py', "                    if cl_prop.qualifiers.get('key', False):\n                        # Key properties cannot be modified. Setting the\n                        # class default would also change the keybindings\n                        # of the instance path, i.e. which instance is\n                        # modified.\n                        continue\n", ""),
  'copy-retargeted')
V('c13-null-reference-compared', 'C13', 'C13.R15',
  ('pywbem_mock/_mainprovider.py', "                if prop.type == 'reference' and prop.value is not None:\n                    # Does this prop instance name match target inst name\n",
   "                if prop.type == 'reference':\n                    # Does this prop instance name match target inst name\n"),
  'null-reference-used')
V('c11-response-delay-unvalidated', 'C11', 'C11.R7',
  ('pywbem_mock/_wbemconnection_mock.py', "        self.response_delay = response_delay\n", "        self._response_delay = response_delay\n"),
  'setter-bypassed')
