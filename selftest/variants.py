"""Seeded breakages (source-level edits of the current tree, applied in
memory).  Each one still compiles; most would pass the existing test suite.
`expect` names the rule (and a key substring) that must report it."""

OBJ = 'pywbem/_cim_obj.py'
TYP = 'pywbem/_cim_types.py'
UTL = 'pywbem/_utils.py'
NCD = 'pywbem/_vendor/nocasedict/_nocasedict.py'

VARIANTS = []


def V(vid, prop, rule, edits, contains=''):
    if isinstance(edits, tuple):
        edits = [edits]
    VARIANTS.append({
        'id': vid, 'prop': prop,
        'edits': [{'file': e[0], 'old': e[1], 'new': e[2],
                   'count': e[3] if len(e) > 3 else 1} for e in edits],
        'expect': {'rule': rule, 'contains': contains}})


# ---- C05 ------------------------------------------------------------------
V('c05-eq-drop-propagated', 'C05', 'C05.R1',
  (OBJ, "                _eq_item(self.array_size, other.array_size) and\n"
        "                _eq_item(self.propagated, other.propagated) and\n"
        "                _eq_name(self.class_origin, other.class_origin) and\n",
        "                _eq_item(self.array_size, other.array_size) and\n"
        "                _eq_name(self.class_origin, other.class_origin) and\n"),
  'propagated')
V('c05-hash-kind', 'C05', 'C05.R2',
  (OBJ, "            _hash_name(self.reference_class),\n            _hash_item(self.embedded_object),",
        "            _hash_item(self.reference_class),\n            _hash_item(self.embedded_object),"),
  'reference_class')
V('c05-copy-drop-array-size', 'C05', 'C05.R1',
  (OBJ, "            class_origin=self.class_origin,\n            array_size=self.array_size,\n            propagated=self.propagated,\n            is_array=self.is_array,\n            reference_class=self.reference_class,",
        "            class_origin=self.class_origin,\n            propagated=self.propagated,\n            is_array=self.is_array,\n            reference_class=self.reference_class,"),
  'array_size')
V('c05-eq-name-case', 'C05', 'C05.R2',
  (UTL, "    return name1.lower() == name2.lower()", "    return name1 == name2"),
  'name-normalisation')
V('c05-ne', 'C05', 'C05.R4',
  (TYP, "        return not self.__eq__(other)\n\n    def __raise",
        "        return self is not other\n\n    def __raise"), 'ne-not-negation')
V('c05-setter-alias', 'C05', 'C05.R5',
  (OBJ, "        if scopes:\n            self.scopes.update(scopes)",
        "        if scopes:\n            self._scopes = scopes"), 'aliased')
V('c05-ncd-contains', 'C05', 'C05.R2',
  (NCD, "        k = self._casefolded_key(key)\n        return k in self._data",
        "        k = self._casefolded_key(key)\n        return key in self._data"),
  'unfolded-key')
V('c05-wrong-kind', 'C05', 'C05.R3',
  (OBJ, "        return (_eq_name(self.host, other.host) and\n                _eq_name(self.namespace, other.namespace) and\n                _eq_name(self.classname, other.classname) and\n                _eq_dict(self.keybindings, other.keybindings))",
        "        return (_eq_name(self.host, other.host) and\n                _eq_item(self.namespace, other.namespace) and\n                _eq_name(self.classname, other.classname) and\n                _eq_dict(self.keybindings, other.keybindings))"),
  'namespace')
