"""Provenance of the text written for a real number.

The text of a real32 / real64 value must determine the value again: it has
to come from a conversion with enough significant digits (17 for a double,
9 for a single; `repr` is exact) and every later edit of that text must keep
all of it.  `analyse(func, value_names, need)` interprets the return paths
of a (helper-inlined) function abstractly:

    num                the number itself
    text(ok)           the complete formatted text (ok: precision >= need)
    parts(sep, ok)     the list text.split(sep)
    part               a piece of the text (an element of the split, a slice)
    const(c)           a string constant

and reports a path that returns a `part` (e.g. the significand without the
exponent), a text of too low precision, or a constant that no comparison of
the text on that path justifies.  Expressions it does not understand make
the path undecided, never a finding.
"""
import ast
import re

from .model import norm, dotted
from .paths import return_paths

_KEEP = ('upper', 'lower', 'strip', 'lstrip', 'rstrip', 'ljust', 'rjust',
         'center', 'zfill', 'encode', 'decode')


def _prec_ok(spec, need):
    """format spec like '.17G' / '.11e' / 'r': enough digits?"""
    if spec in ('r', '!r'):
        return True
    m = re.match(r'^[<>=^+\- #0-9,_]*\.(\d+)([gGeE])$', spec or '')
    if not m:
        return None
    n = int(m.group(1))
    if m.group(2) in 'eE':
        n += 1          # digits after the point plus the leading one
    return n >= need


class _Interp:
    def __init__(self, value_names, need):
        self.value_names = set(value_names)
        self.need = need
        self.env = {}
        self.undecided = []

    def spec_of(self, fv):
        if fv.format_spec is None:
            return 'r' if fv.conversion == ord('r') else None
        out = ''
        for v in fv.format_spec.values:
            if isinstance(v, ast.Constant):
                out += str(v.value)
            elif isinstance(v, ast.FormattedValue) and \
                    isinstance(v.value, ast.Constant) and \
                    v.format_spec is None:
                out += str(v.value.value)
            else:
                return None
        return out

    def ev(self, e):
        if isinstance(e, ast.Name):
            if e.id in self.env:
                return self.env[e.id]
            if e.id in self.value_names:
                return ('num', True)
            return None
        if isinstance(e, ast.Constant) and isinstance(e.value, str):
            return ('const', e.value)
        if isinstance(e, ast.JoinedStr):
            fvs = [v for v in e.values if isinstance(v, ast.FormattedValue)]
            if len(fvs) == 1:
                v = self.ev(fvs[0].value)
                if v and v[0] == 'num':
                    spec = self.spec_of(fvs[0])
                    if spec is None and fvs[0].format_spec is None and \
                            fvs[0].conversion in (-1, ord('s'), ord('r')):
                        return ('text', v[1])
                    ok = _prec_ok(spec, self.need)
                    if ok is None:
                        return None
                    return ('text', ok and v[1])
                if v and v[0] in ('text', 'part'):
                    return v
            return None
        if isinstance(e, ast.BinOp) and isinstance(e.op, ast.Mod) and \
                isinstance(e.left, ast.Constant) and \
                isinstance(e.left.value, str):
            v = self.ev(e.right)
            m = re.fullmatch(r'%([-+ #0-9]*\.\d+[gGeE]|r|s)', e.left.value)
            if v and v[0] == 'num' and m:
                sp = m.group(1)
                ok = True if sp in ('r', 's') else _prec_ok(
                    sp.lstrip('-+ #0123456789') if not sp.startswith('.')
                    else sp, self.need)
                return ('text', bool(ok) and v[1])
            return None
        if isinstance(e, ast.BinOp) and isinstance(e.op, ast.Add):
            a, b = self.ev(e.left), self.ev(e.right)
            if a is None or b is None:
                return None
            kinds = {a[0], b[0]}
            if kinds == {'const'}:
                return ('const', a[1] + b[1])
            if 'part' in kinds and kinds <= {'part', 'const'}:
                return ('part',)
            if 'text' in kinds and kinds <= {'text', 'const'}:
                t = a if a[0] == 'text' else b
                return t
            return None
        if isinstance(e, ast.IfExp):
            a, b = self.ev(e.body), self.ev(e.orelse)
            if a is None or b is None:
                return None
            for bad in ('part',):
                if a[0] == bad or b[0] == bad:
                    return (bad,)
            if a[0] == b[0] == 'text':
                return ('text', a[1] and b[1])
            if a[0] == 'text' and b[0] == 'const':
                return a
            if b[0] == 'text' and a[0] == 'const':
                return b
            return a if a == b else None
        if isinstance(e, ast.Subscript):
            v = self.ev(e.value)
            if v and v[0] in ('parts', 'text', 'part'):
                return ('part',)
            return None
        if isinstance(e, ast.Call):
            d = dotted(e.func) or ''
            if d in ('repr', 'str', 'float.__repr__', 'float.__str__') and \
                    len(e.args) == 1:
                v = self.ev(e.args[0])
                if v and v[0] == 'num':
                    return ('text', v[1])
                if v and v[0] in ('text', 'part'):
                    return v
                return None
            if d == 'format' and len(e.args) == 2 and \
                    isinstance(e.args[1], (ast.Constant, ast.JoinedStr)):
                v = self.ev(e.args[0])
                sp = e.args[1]
                if isinstance(sp, ast.JoinedStr):
                    # a spec with constant fields nested in it
                    sp_txt = self.spec_of(ast.FormattedValue(
                        value=ast.Constant(value=0), conversion=-1,
                        format_spec=sp))
                else:
                    sp_txt = str(sp.value)
                if sp_txt is None:
                    return None
                ok = _prec_ok(sp_txt, self.need)
                if v and v[0] == 'num' and ok is not None:
                    return ('text', ok and v[1])
                return None
            if d in ('float', 'Real32', 'Real64') and len(e.args) == 1:
                v = self.ev(e.args[0])
                if v and v[0] == 'num':
                    return v
                if v and v[0] == 'text':
                    return ('num', v[1])
                if v and v[0] == 'part':
                    return ('num', False)
                return None
            if isinstance(e.func, ast.Attribute):
                recv = self.ev(e.func.value)
                at = e.func.attr
                if at in ('__repr__', '__str__') and recv and \
                        recv[0] == 'num' and not e.args:
                    return ('text', recv[1])
                if at in ('split', 'rsplit') and recv and \
                        recv[0] == 'text' and e.args and \
                        isinstance(e.args[0], ast.Constant):
                    return ('parts', e.args[0].value, recv[1])
                if at == 'partition' and recv and recv[0] == 'text':
                    return ('parts', '', recv[1])
                if at == 'join' and len(e.args) == 1:
                    sep = self.ev(e.func.value)
                    p = self.ev(e.args[0])
                    if p and p[0] == 'parts' and sep and \
                            sep[0] == 'const' and sep[1] == p[1]:
                        return ('text', p[2])
                    if p and p[0] == 'parts':
                        return ('part',)
                    return None
                if at in _KEEP and recv and recv[0] in ('text', 'part'):
                    return recv
                if at == 'replace' and recv and recv[0] in ('text', 'part') \
                        and len(e.args) >= 2:
                    b = e.args[1]
                    if isinstance(b, ast.Constant) and b.value == '':
                        return ('part',)
                    return recv
            return None
        return None

    def run(self, st):
        if isinstance(st, ast.Assign) and len(st.targets) == 1:
            t = st.targets[0]
            if isinstance(t, ast.Name):
                v = self.ev(st.value)
                if v is None:
                    self.env.pop(t.id, None)
                else:
                    self.env[t.id] = v
                return
            if isinstance(t, ast.Subscript) and isinstance(t.value, ast.Name) \
                    and self.env.get(t.value.id, (None,))[0] == 'parts':
                # parts[i] = parts[i] + '.0' keeps every piece
                same = [x for x in ast.walk(st.value)
                        if isinstance(x, ast.Subscript) and
                        norm(x) == norm(t)]
                only_add = all(
                    isinstance(x, (ast.BinOp, ast.Add, ast.Subscript,
                                   ast.Name, ast.Constant, ast.Load))
                    for x in ast.walk(st.value))
                if not (same and only_add):
                    self.env.pop(t.value.id, None)
                return
        if isinstance(st, ast.AugAssign) and isinstance(st.target, ast.Name):
            cur = self.env.get(st.target.id)
            v = self.ev(st.value)
            if cur and v and isinstance(st.op, ast.Add) and \
                    v[0] == 'const' and cur[0] in ('text', 'part'):
                return
            self.env.pop(st.target.id, None)
            return
        for x in ast.walk(st):
            if isinstance(x, ast.Name) and isinstance(x.ctx, ast.Store):
                self.env.pop(x.id, None)


def analyse(func, value_names, need, select=None):
    """[(path, verdict, detail)] for the return paths of func; verdict in
    'ok', 'partial-text', 'precision', 'constant', 'undecided'.
    select(path) -> bool chooses the paths to judge (default: all)."""
    paths = return_paths(func, max_paths=2000, inline=False)
    out = []
    for pth in paths or []:
        if pth.value is None:
            continue
        if select is not None and not select(pth):
            continue
        it = _Interp(value_names, need)
        text_names = set()
        for st in pth.effects:
            if isinstance(st, ast.Return):
                continue
            it.run(st)
            text_names |= {k for k, v in it.env.items()
                           if v[0] in ('text', 'part', 'parts')}
        v = it.ev(pth.value)
        if v is None:
            out.append((pth, 'undecided', norm(pth.value, 60)))
        elif v[0] == 'text':
            out.append((pth, 'ok' if v[1] else 'precision',
                        norm(pth.value, 60)))
        elif v[0] == 'part':
            out.append((pth, 'partial-text', norm(pth.value, 60)))
        elif v[0] == 'const':
            just = any(
                pol and isinstance(t, ast.Compare) and
                any(isinstance(x, ast.Name) and x.id in text_names
                    for x in ast.walk(t))
                for t, pol in pth.facts)
            out.append((pth, 'ok' if just else 'constant',
                        norm(pth.value, 60)))
        else:
            out.append((pth, 'undecided', norm(pth.value, 60)))
    return out
