"""Findings, known-findings matching, evidence writer, exit codes."""
import json
import os
import sys
import time

VERIF = os.path.dirname(os.path.dirname(os.path.abspath(__file__)))
KNOWN_PATH = os.path.join(VERIF, 'tables', 'known_findings.json')
REVIEWED_PATH = os.path.join(VERIF, 'tables', 'reviewed_safe.json')
FLOORS_PATH = os.path.join(VERIF, 'tables', 'floors.json')


_KEEP = {'None', 'True', 'False', 'not', 'is', 'in', 'and', 'or', 'if',
         'else', 'for', 'lambda', 'self', 'cls', 'assert', 'raise', 'return',
         'del', 'while', 'with', 'as', 'try', 'except', 'yield', 'from',
         'import', 'pass', 'break', 'continue', 'elif', 'def', 'class'}


def loose_key(key):
    """A finding key with local variable names abstracted away: identifiers
    that are neither attribute names (after a dot), nor called names (before
    a parenthesis), nor keywords are replaced by `_`.  Used only as the
    fallback when matching the committed known-findings / reviewed-safe
    tables, so that renaming a local variable does not turn a triaged site
    into a new violation.  The rule id, the function qualname and the fact
    stay exact."""
    import re
    parts = key.split('|')
    if len(parts) < 4:
        return key
    rule, func, fact = parts[0], parts[1], parts[-1]
    construct = '|'.join(parts[2:-1])

    def sub(m):
        w = m.group(0)
        return w if w in _KEEP else '_'
    construct = re.sub(r"(?<![\w.'\"])[A-Za-z_]\w*(?![\w]*\s*\()(?!['\"])",
                       sub, construct)
    return '|'.join([rule, func, construct, fact])


class Finding:
    """A rule hit. key = rule|function qualname|normalised construct|fact;
    never contains a line number."""

    def __init__(self, rule, func, construct, fact, file, line, msg,
                 path=None):
        self.rule = rule
        self.func = func
        self.construct = construct
        self.fact = fact
        self.file = file
        self.line = line
        self.msg = msg
        self.path = path or []

    @property
    def key(self):
        return '%s|%s|%s|%s' % (self.rule, self.func, self.construct,
                                self.fact)

    def text(self):
        s = '%s:%s %s [%s] %s: %s' % (self.file, self.line, self.rule,
                                      self.func, self.construct, self.msg)
        if self.path:
            s += ' ; path: ' + ' -> '.join(self.path)
        return s

    def as_dict(self):
        return {'key': self.key, 'file': self.file, 'line': self.line,
                'rule': self.rule, 'function': self.func,
                'construct': self.construct, 'fact': self.fact,
                'message': self.msg, 'path': self.path}


class RuleResult:
    """Bookkeeping of one rule: what was enumerated, what was proven."""

    def __init__(self, rule, title):
        self.rule = rule
        self.title = title
        self.sites = 0            # enumerated sites / instances
        self.obligations = 0      # obligations checked
        self.discharged = 0
        self.nontrivial = set()   # distinct (site) keys with real work
        self.undecided = []       # text
        self.findings = []
        self.samples = []
        self.notes = []
        self.functions = set()

    def ob(self, ok, site_key=None, sample=None):
        """Record one obligation."""
        self.obligations += 1
        if ok:
            self.discharged += 1
        if site_key is not None:
            self.nontrivial.add(site_key)
        if sample is not None and len(self.samples) < 6:
            self.samples.append(sample)

    def summary(self):
        return {'rule': self.rule, 'title': self.title, 'sites': self.sites,
                'obligations': self.obligations,
                'discharged': self.discharged,
                'distinct_nontrivial': len(self.nontrivial),
                'undecided': len(self.undecided),
                'undecided_list': self.undecided[:12],
                'findings': len(self.findings),
                'notes': self.notes[:12]}


def _load_json(path, default):
    if not os.path.exists(path):
        return default
    with open(path, encoding='utf-8') as f:
        return json.load(f)


class Report:
    def __init__(self, prop, tier, explanation, assumptions=None):
        self.prop = prop
        self.tier = tier
        self.explanation = explanation
        self.assumptions = list(assumptions or [])
        self.rules = []
        self.t0 = time.time()
        self.extra = {}
        self.analysis_errors = []

    def rule(self, rule_id, title):
        r = RuleResult(rule_id, title)
        self.rules.append(r)
        return r

    def finding(self, rr, func, construct, fact, file, line, msg, path=None,
                alt=None, alt_func=None):
        """alt: a second identification of the same defect (e.g. by the
        origin of a late exception instead of the statement it passes
        through); a known-findings / reviewed-safe entry may be keyed by
        either"""
        f = Finding(rr.rule, func, construct, fact, file, line, msg, path)
        # alt_func='*': the alternate key names the construct only, not the
        # function it sits in (a statement moved into a helper stays the
        # same triaged site)
        f.alt_key = '|'.join([rr.rule, alt_func or func, alt, fact]) \
            if alt else None
        # de-duplicate by key
        for g in rr.findings:
            if g.key == f.key:
                return g
        rr.findings.append(f)
        return f

    def error(self, msg):
        self.analysis_errors.append(msg)

    def floor_errors(self):
        """the anti-vacuity messages finish() would add (for the tools that
        look at a report without finishing it)"""
        floors = _load_json(FLOORS_PATH, {})
        return ['rule %s enumerated %d sites, floor is %d' % (
            rr.rule, rr.sites, floors[rr.rule]) for rr in self.rules
            if floors.get(rr.rule) is not None and
            rr.sites < floors[rr.rule]]

    # ------------------------------------------------------------------
    def finish(self, quiet=False):
        known = _load_json(KNOWN_PATH, {'findings': [], 'fixed': []})
        reviewed = _load_json(REVIEWED_PATH, {'entries': []})
        floors = _load_json(FLOORS_PATH, {})
        kmap = {}
        for e in known.get('findings', []):
            if e.get('property') == self.prop:
                kmap[e['key']] = e
        rmap = {}
        for e in reviewed.get('entries', []):
            if e.get('property') == self.prop:
                rmap[e['key']] = e

        out = []
        violations = []
        known_hits = []
        reviewed_hits = []
        rloose = {loose_key(k): k for k in rmap}
        kloose = {loose_key(k): k for k in kmap}
        for rr in self.rules:
            for f in rr.findings:
                if f.key in rmap:
                    reviewed_hits.append(f)
                elif f.key in kmap:
                    known_hits.append(f)
                elif loose_key(f.key) in rloose:
                    f.matched_key = rloose[loose_key(f.key)]
                    reviewed_hits.append(f)
                elif loose_key(f.key) in kloose:
                    f.matched_key = kloose[loose_key(f.key)]
                    known_hits.append(f)
                elif getattr(f, 'alt_key', None) in rmap:
                    f.matched_key = f.alt_key
                    reviewed_hits.append(f)
                elif getattr(f, 'alt_key', None) in kmap:
                    f.matched_key = f.alt_key
                    known_hits.append(f)
                else:
                    violations.append(f)

        # floors (anti-vacuity)
        for rr in self.rules:
            fl = floors.get(rr.rule)
            if fl is not None and rr.sites < fl:
                self.error('rule %s enumerated %d sites, floor is %d '
                           '(anchors moved? rule would pass vacuously)'
                           % (rr.rule, rr.sites, fl))
        # stale reviewed-safe entries: only checked on the unchanged-tree
        # self-run (VERIF_STRICT_TABLES=1); a refactoring of /repo that
        # removes a reviewed site must not make the check fail.
        if os.environ.get('VERIF_STRICT_TABLES') == '1':
            hit = {getattr(f, 'matched_key', f.key) for f in reviewed_hits}
            hit |= {f.alt_key for f in reviewed_hits
                    if getattr(f, 'alt_key', None)}
            for k in rmap:
                if k not in hit:
                    self.error('stale reviewed_safe entry: %s' % k)

        for f in known_hits:
            e = kmap[getattr(f, 'matched_key', f.key)]
            out.append('KNOWN-FINDING: property=%s %s %s:%s [%s] %s -- %s'
                       % (self.prop, f.rule, f.file, f.line, f.func,
                          f.construct, e.get('what', f.msg)))
        replay = os.path.join(VERIF, 'evidence',
                              '%s.violations.json' % self.prop)
        if violations:
            for f in violations:
                out.append('FINDING ' + f.text())
            try:
                with open(replay, 'w', encoding='utf-8') as fp:
                    json.dump({'property': self.prop,
                               'violations': [f.as_dict()
                                              for f in violations]},
                              fp, indent=1)
            except OSError:
                pass
            out.append('VIOLATION property=%s replay=%s' % (self.prop, replay))
        elif os.path.exists(replay):
            try:
                os.remove(replay)
            except OSError:
                pass
        for m in self.analysis_errors:
            out.append('ANALYSIS-ERROR property=%s %s' % (self.prop, m))

        wall = time.time() - self.t0
        evaluations = sum(r.obligations for r in self.rules)
        distinct = sum(len(r.nontrivial) for r in self.rules)
        samples = []
        for r in self.rules:
            for s in r.samples[:3]:
                samples.append({'rule': r.rule, 'case': s})
        functions = sorted(set().union(*[r.functions for r in self.rules])) \
            if self.rules else []
        ev = {
            'property_id': self.prop,
            'tier': self.tier,
            'seed': int(os.environ.get('VERIF_SEED', '0') or 0),
            'level': 'other',
            'coverage': {
                'explanation': self.explanation,
                'evaluations': evaluations,
                'distinct_nontrivial': distinct,
                'rule': 'one evaluation = one static obligation (a site x a '
                        'rule clause) decided on the AST/CFG of the current '
                        'working tree; distinct_nontrivial = number of '
                        'distinct (rule, site) pairs at which the rule had a '
                        'fact to establish (guard to find, tables to compare,'
                        ' path to follow), counted by the analyser',
                'samples': samples or [{'note': 'no obligations'}],
                'obligations': evaluations,
                'discharged': sum(r.discharged for r in self.rules),
                'exhaustive': True,
                'rules': [r.summary() for r in self.rules],
                'functions_analysed': len(functions),
                'functions_sample': functions[:40],
                'known_findings': [f.key for f in known_hits],
                'reviewed_safe': [f.key for f in reviewed_hits],
                'violations': [f.as_dict() for f in violations],
                'analysis_errors': self.analysis_errors,
            },
            'assumptions': self.assumptions,
            'wall_s': round(wall, 3),
            'violations': len(violations),
        }
        ev['coverage'].update(self.extra)
        evdir = os.path.join(VERIF, 'evidence')
        os.makedirs(evdir, exist_ok=True)
        with open(os.path.join(evdir, '%s.json' % self.prop), 'w',
                  encoding='utf-8') as fp:
            json.dump(ev, fp, indent=1, sort_keys=False)
            fp.write('\n')
        if not quiet:
            for line in out:
                print(line)
            print('%s %s: %d rules, %d sites, %d obligations (%d discharged),'
                  ' %d known, %d reviewed-safe, %d violations, %d undecided,'
                  ' %.2fs'
                  % (self.prop, self.tier, len(self.rules),
                     sum(r.sites for r in self.rules), evaluations,
                     ev['coverage']['discharged'], len(known_hits),
                     len(reviewed_hits), len(violations),
                     sum(len(r.undecided) for r in self.rules), wall))
            sys.stdout.flush()
        if violations:
            return 1, violations, known_hits
        if self.analysis_errors:
            return 2, violations, known_hits
        return 0, violations, known_hits


def unlisted_findings(rep):
    """findings of a finished or unfinished Report that are neither known
    findings nor reviewed-safe entries - the same matching as finish()
    (exact key, loosened key, alternate key)"""
    known = _load_json(KNOWN_PATH, {'findings': []})
    reviewed = _load_json(REVIEWED_PATH, {'entries': []})
    keys = [e['key'] for e in known.get('findings', [])
            if e.get('property') == rep.prop] + \
        [e['key'] for e in reviewed.get('entries', [])
         if e.get('property') == rep.prop]
    ok = set(keys) | {loose_key(k) for k in keys}
    out = []
    for rr in rep.rules:
        for f in rr.findings:
            if f.key in ok or loose_key(f.key) in ok or \
                    getattr(f, 'alt_key', None) in ok:
                continue
            out.append(f)
    return out
