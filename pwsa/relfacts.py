"""Relating the conditions of a callee's return paths to the conditions that
hold at a call site.

Atoms are (subject text, kind, polarity) with kind

  'none'   subject is None
  'truth'  subject is truthy
  'eq:<c>' subject == constant c

Two atoms about the same subject contradict when no value satisfies both:
  none/T  vs none/F;  truth/T vs truth/F;  none/T vs truth/T;
  eq:c/T vs eq:d/T (c != d);  eq:c/T vs eq:c/F;  none/T vs eq:c/T
Note that `x is not None` and `not x` are compatible (x == '' or 0): a
callee that tests truthiness where the caller tested `is None` does NOT
follow the caller's case split.
"""
import ast
import copy

from .model import norm
from .cfg import stmt_facts, expr_guards
from .constprop import evaluate, UNKNOWN, _lookup_at


def atom(expr, pol):
    """(subject, kind, polarity) or None"""
    if isinstance(expr, ast.UnaryOp) and isinstance(expr.op, ast.Not):
        return atom(expr.operand, not pol)
    if isinstance(expr, ast.Compare) and len(expr.ops) == 1:
        op, l, r = expr.ops[0], expr.left, expr.comparators[0]
        if isinstance(r, ast.Constant) and r.value is None and \
                isinstance(op, (ast.Is, ast.IsNot, ast.Eq, ast.NotEq)):
            neg = isinstance(op, (ast.IsNot, ast.NotEq))
            return (norm(l, 200), 'none', pol != neg)
        if isinstance(r, ast.Constant) and \
                isinstance(op, (ast.Eq, ast.NotEq, ast.Is, ast.IsNot)):
            neg = isinstance(op, (ast.NotEq, ast.IsNot))
            return (norm(l, 200), 'eq:%r' % (r.value,), pol != neg)
        return None
    if isinstance(expr, (ast.Name, ast.Attribute, ast.Subscript)):
        return (norm(expr, 200), 'truth', pol)
    return None


def contradict(a, b):
    if a is None or b is None or a[0] != b[0]:
        return False
    (_, ka, pa), (_, kb, pb) = a, b
    if ka == kb:
        return pa != pb
    kinds = {ka: pa, kb: pb}
    if kinds.get('none') is True:
        # x is None excludes truthiness and equality with a non-None const
        other = kb if ka == 'none' else ka
        return kinds[other] is True
    if ka.startswith('eq:') and kb.startswith('eq:'):
        return pa and pb           # two different constants
    if 'truth' in kinds:
        other = kb if ka == 'truth' else ka
        if other.startswith('eq:'):
            try:
                c = eval(other[3:], {})          # repr of a literal
            except Exception:                    # pylint: disable=broad-except
                return False
            if kinds[other] is True:
                return bool(c) != kinds['truth']
    return False


def split(expr, pol):
    """atomic consequences of (expr is pol): list of (expr, pol)"""
    if isinstance(expr, ast.UnaryOp) and isinstance(expr.op, ast.Not):
        return split(expr.operand, not pol)
    if isinstance(expr, ast.BoolOp):
        if isinstance(expr.op, ast.And) == pol:
            out = []
            for v in expr.values:
                out += split(v, pol)
            return out
        return [(expr, pol)]
    return [(expr, pol)]


def simplify(expr, pol, consts, path=None, pos=0):
    """atoms that (expr is pol) implies given constant parameters; False if
    it cannot hold; [] if nothing usable follows"""
    def look(name):
        if path is not None:
            return _lookup_at(path, pos, consts, ())(name)
        return consts.get(name, UNKNOWN)
    v = evaluate(expr, look)
    if v is not UNKNOWN:
        return [] if bool(v) == pol else False
    out = []
    for e, q in split(expr, pol):
        if isinstance(e, ast.BoolOp):
            # a disjunction that must hold (or a conjunction that must not):
            # operands decided by the constants drop out
            rest = []
            sat = False
            for x in e.values:
                xv = evaluate(x, look)
                if xv is UNKNOWN:
                    rest.append(x)
                elif bool(xv) == q:
                    sat = True
            if sat:
                continue
            if not rest:
                return False
            if len(rest) == 1:
                r = simplify(rest[0], q, consts, path, pos)
                if r is False:
                    return False
                out += r
            continue
        ev = evaluate(e, look)
        if ev is not UNKNOWN:
            if bool(ev) != q:
                return False
            continue
        a = atom(e, q)
        if a is not None:
            out.append(a)
    return out


def subst_self(a, recv):
    subj = a[0]
    r = norm(recv, 200)
    if subj == 'self':
        return (r,) + a[1:]
    if subj.startswith('self.'):
        return (r + subj[4:],) + a[1:]
    return ('<callee>' + subj,) + a[1:]      # callee-local: never matches


_STMT_OF = {}


def facts_at(func, node):
    """atoms known to hold when `node` (an expression inside func) is
    evaluated"""
    key = id(func.node)
    if key not in _STMT_OF or _STMT_OF[key][2] is not func.node:
        sf = stmt_facts(func.node)
        owner = {}
        for st in sf:
            for x in ast.walk(st):
                # innermost statement wins: visit order is outer first
                owner[id(x)] = st
        # make sure nested statements override their parents
        for st in sorted(sf, key=lambda s: (getattr(s, 'lineno', 0),
                                            -getattr(s, 'end_lineno', 0))):
            for x in ast.iter_child_nodes(st):
                if not isinstance(x, ast.stmt):
                    for y in ast.walk(x):
                        owner[id(y)] = st
        _STMT_OF[key] = (sf, owner, func.node)
    sf, owner = _STMT_OF[key][:2]
    st = owner.get(id(node))
    if st is None:
        return None
    facts, _t = sf[st]
    out = []
    for t, pol in facts:
        r = simplify(t, pol, {})
        if r:
            out += r
    for root in ast.iter_child_nodes(st):
        if isinstance(root, ast.stmt):
            continue
        if any(x is node for x in ast.walk(root)):
            for fs in expr_guards(root, node):
                for t, pol in fs:
                    r = simplify(t, pol, {})
                    if r:
                        out += r
    return out
