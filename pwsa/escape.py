"""E3 - interprocedural exception-escape (may-raise) analysis for a named
catalogue of raise sites.

Sources (each tagged with a kind):
  raise     explicit `raise C(...)`, `raise var`, bare re-raise
  assert    `assert` -> AssertionError
  conv      int(e) / float(e) on a non-constant argument -> ValueError
            (+ TypeError/OverflowError reported as facts of the callee
            where the repo itself shows them, see CONV_EXTRA)
  key       x['CONST'] on a receiver designated by the client rule
  none      attribute/subscript use of a possibly-None re match result
  decode    strict .decode()/.encode()/_ensure_unicode()/_to_unicode()
  unpack    fixed-arity tuple unpacking of str.split()
  index     constant subscript of str.split(): [k] with k not in (0, -1), or
            any [k] of a separator-less split() (empty for blank text)

Removed by enclosing handlers (class hierarchy of builtins + repo exception
classes), by the guard facts of the syntax-directed walker, and by the
client rule's own guard predicates.  Not modelled: IndexError, arithmetic
errors, MemoryError/RecursionError, exceptions inside the standard library
other than the catalogue, TypeError of ill-typed programs.
"""
import ast
import builtins

from .model import walk_no_nested, dotted, norm, const_str
from .cfg import stmt_facts
from .resolve import Resolver


# exceptions documented / observed for standard-library entry points that
# receive data from outside (beyond what their `except` clause in the repo
# usually names)
STDLIB_RAISES = {
    # expat: "unknown encoding: <name>" for the encoding named in the XML
    # declaration is a LookupError, not a SAXParseException; a non-bytes
    # argument is a TypeError; a *known* multi-byte encoding (shift_jis,
    # big5, euc_jp, cp932 ...) makes pyexpat's unknown-encoding handler
    # raise ValueError("multi-byte encodings are not supported")
    'xml.sax.parseString': ('SAXParseException', 'LookupError', 'TypeError',
                            'ValueError'),
    # requests follows redirects itself (Session.resolve_redirects) and
    # parses each Location header with urllib.parse.urlparse() unguarded:
    # `Location: http://[::1` gives ValueError('Invalid IPv6 URL'), which is
    # not a RequestException.  (A key starting with '*' matches the last
    # two components of the called name, whatever the receiver is called.)
    '*.session.post': ('RequestException', 'ValueError'),
}


def stdlib_raises(d_):
    out = tuple(STDLIB_RAISES.get(d_, ()))
    parts = d_.split('.')
    if len(parts) >= 3:
        out += tuple(STDLIB_RAISES.get('*.' + '.'.join(parts[-2:]), ()))
    return out


class Esc:
    """one way an exception escapes.  `chain` is the (shortest known) call
    chain from the function the summary belongs to down to the raising
    function; `alts` are other chains for the same origin that leave the
    summarised function through a different callee - kept so that every
    call site that lets the exception through is known, not only the first
    one met"""
    __slots__ = ('exc', 'kind', 'file', 'func', 'construct', 'line', 'chain',
                 'alts')

    def __init__(self, exc, kind, file, func, construct, line, chain=(),
                 alts=()):
        self.exc = exc
        self.kind = kind
        self.file = file
        self.func = func
        self.construct = construct
        self.line = line
        self.chain = chain
        self.alts = alts

    @property
    def key(self):
        return (self.exc, self.kind, self.func, self.construct)

    @staticmethod
    def _ext(caller, chain):
        chain = (caller,) + chain
        if len(chain) > 9:
            chain = chain[:5] + ('...',) + chain[-3:]
        return chain

    def via(self, caller):
        return Esc(self.exc, self.kind, self.file, self.func, self.construct,
                   self.line, self._ext(caller, self.chain),
                   tuple(self._ext(caller, a) for a in self.alts))

    def all_chains(self):
        return (self.chain,) + tuple(self.alts)

    def __repr__(self):
        return '<Esc %s %s %s:%s %s>' % (self.exc, self.kind, self.func,
                                         self.line, self.construct)


MAX_ALTS = 12


def _join(o, e):
    """the summary entry for an origin reached both as o and as e: the
    shorter chain leads, the chains that leave through another callee
    (different second element) are remembered"""
    a, b = (e, o) if len(e.chain) < len(o.chain) else (o, e)
    seen = {a.chain[:2]}
    alts = []
    for c in a.alts + (b.chain,) + b.alts:
        if c[:2] not in seen and len(alts) < MAX_ALTS:
            seen.add(c[:2])
            alts.append(c)
    if tuple(alts) == a.alts:
        return a
    return Esc(a.exc, a.kind, a.file, a.func, a.construct, a.line, a.chain,
               tuple(alts))


def _put(out, e):
    o = out.get(e.key)
    out[e.key] = e if o is None else _join(o, e)


class Hierarchy:
    def __init__(self, repo):
        self.repo = repo
        self.classes = {}
        for c in repo.all_classes():
            self.classes.setdefault(c.name, c)
        self._anc = {}

    def ancestors(self, name):
        if name in self._anc:
            return self._anc[name]
        self._anc[name] = {name, 'Exception', 'BaseException'}
        out = {name}
        b = getattr(builtins, name, None)
        c0 = self.classes.get(name)
        if c0 is not None and c0.module.relpath.endswith('_exceptions.py'):
            # pywbem's own ConnectionError/TimeoutError shadow the builtins
            b = None
        if isinstance(b, type) and issubclass(b, BaseException):
            out |= {k.__name__ for k in b.__mro__ if k is not object}
        elif name in self.classes:
            c = self.classes[name]
            for be in c.base_exprs:
                out |= self.ancestors(be.split('.')[-1])
        else:
            out |= {'Exception', 'BaseException'}
        # well-known stdlib aliases
        if name in ('error', 'timeout', 'gaierror', 'herror'):
            out |= {'OSError', 'Exception', 'BaseException'}
        self._anc[name] = out
        return out

    def is_sub(self, name, anc):
        return anc in self.ancestors(name)

    def caught_by(self, name, handler_names):
        if handler_names is None:        # bare except
            return True
        return any(self.is_sub(name, h) for h in handler_names)


def handler_names(h):
    if h.type is None:
        return None
    t = h.type
    elts = t.elts if isinstance(t, ast.Tuple) else [t]
    out = []
    for e in elts:
        d = dotted(e)
        if d is None:
            out.append('Exception')
        else:
            out.append(d.split('.')[-1])
    return out


class _B(ast.AST):
    _fields = ('body',)

    def __init__(self, body):
        self.body = list(body)


class EscapeAnalysis:
    """opts:
      key_receiver(expr, func) -> bool    subscripts that are modelled
      conv_guard(call, func, facts) -> bool   True = conversion proven safe
      extra_sources(stmt_or_expr, func, facts) -> [Esc]   client hooks
    """

    def __init__(self, repo, resolver=None, key_receiver=None,
                 conv_guard=None, model_none=True, model_decode=False,
                 model_unpack=False, skip_funcs=None, call_escapes=None,
                 esc_filter=None):
        self.repo = repo
        self.res = resolver or Resolver(repo)
        self.h = Hierarchy(repo)
        self.key_receiver = key_receiver
        self.conv_guard = conv_guard
        self.model_none = model_none
        self.model_decode = model_decode
        self.model_unpack = model_unpack
        self.skip_funcs = skip_funcs or set()
        self.call_escapes = call_escapes   # (call, func) -> [Esc] | None
        self.esc_filter = esc_filter       # (call, func, target, Esc) -> keep?
        self.summ = {}           # fq -> {key: Esc}
        self._facts = {}
        self._inprog = set()
        self.call_stats = {'resolved': 0, 'builtin': 0, 'unresolved': 0,
                           'stdlib': 0}
        self.unresolved = []
        self.analysed = set()
        self._ret_exc = {}

    # ------------------------------------------------------------------
    def facts(self, func):
        if func.fq not in self._facts:
            self._facts[func.fq] = stmt_facts(func.node)
        return self._facts[func.fq]

    def solve(self, entries, max_rounds=10):
        """Compute summaries for everything reachable from entries."""
        reach = []
        seen = set()
        work = list(entries)
        while work:
            f = work.pop()
            if f.fq in seen:
                continue
            seen.add(f.fq)
            reach.append(f)
            for callee in self._callees(f):
                if callee.fq not in seen:
                    work.append(callee)
        self.analysed = seen
        for f in reach:
            self.summ.setdefault(f.fq, {})
        for _ in range(max_rounds):
            changed = False
            for f in reversed(reach):
                if f.fq in self.skip_funcs:
                    continue
                new = self.esc_block(f, f.node.body, caught=None)
                old = self.summ[f.fq]
                if set(new) != set(old) or any(
                        {c[:2] for c in new[k].all_chains()} !=
                        {c[:2] for c in old[k].all_chains()} for k in new):
                    changed = True
                self.summ[f.fq] = new
            if not changed:
                break
        return self.summ

    def _callees(self, func):
        out = []
        for n in walk_no_nested(func.node):
            if isinstance(n, ast.Call):
                t, how = self.res.resolve(n, func)
                out.extend(t)
            elif isinstance(n, (ast.Assign, ast.AugAssign, ast.AnnAssign)):
                tg = n.targets if isinstance(n, ast.Assign) else [n.target]
                for t in tg:
                    out.extend(self.res.setter_targets(t, func))
        # nested functions that are called are found via resolve; nested
        # defs passed as callbacks are analysed as their own roots by the
        # client
        return out

    # ------------------------------------------------------------------
    def esc_block(self, func, stmts, caught):
        out = {}
        for st in stmts:
            self._merge(out, self.esc_stmt(func, st, caught))
        return out

    @staticmethod
    def _merge(dst, src):
        for k, v in src.items():
            o = dst.get(k)
            dst[k] = v if o is None else _join(o, v)

    def esc_stmt(self, func, st, caught):
        if isinstance(st, (ast.FunctionDef, ast.AsyncFunctionDef,
                           ast.ClassDef)):
            return {}
        if isinstance(st, ast.Try):
            return self._esc_try(func, st, caught)
        out = {}
        if isinstance(st, ast.If):
            self._merge(out, self.esc_expr(func, st.test, st))
            self._merge(out, self.esc_block(func, st.body, caught))
            self._merge(out, self.esc_block(func, st.orelse, caught))
            return out
        if isinstance(st, (ast.For, ast.AsyncFor)):
            self._merge(out, self.esc_expr(func, st.iter, st))
            self._merge(out, self.esc_block(func, st.body, caught))
            self._merge(out, self.esc_block(func, st.orelse, caught))
            return out
        if isinstance(st, ast.While):
            self._merge(out, self.esc_expr(func, st.test, st))
            self._merge(out, self.esc_block(func, st.body, caught))
            self._merge(out, self.esc_block(func, st.orelse, caught))
            return out
        if isinstance(st, (ast.With, ast.AsyncWith)):
            for it in st.items:
                self._merge(out, self.esc_expr(func, it.context_expr, st))
            self._merge(out, self.esc_block(func, st.body, caught))
            return out
        if isinstance(st, ast.Raise):
            if st.exc is not None:
                self._merge(out, self.esc_expr(func, st.exc, st))
            if st.cause is not None:
                self._merge(out, self.esc_expr(func, st.cause, st))
            for e in self._raised(func, st, caught):
                _put(out, e)
            return out
        if isinstance(st, ast.Assert):
            self._merge(out, self.esc_expr(func, st.test, st))
            e = Esc('AssertionError', 'assert', func.file, func.qualname,
                    norm(st, 100), st.lineno)
            _put(out, e)
            return out
        if hasattr(ast, 'Match') and isinstance(st, ast.Match):
            self._merge(out, self.esc_expr(func, st.subject, st))
            for c in st.cases:
                self._merge(out, self.esc_block(func, c.body, caught))
            return out
        # simple statement
        self._merge(out, self.esc_expr(func, st, st))
        if isinstance(st, (ast.Assign, ast.AugAssign, ast.AnnAssign)):
            tg = st.targets if isinstance(st, ast.Assign) else [st.target]
            for t in tg:
                for s in self.res.setter_targets(t, func):
                    for e in self.summ.get(s.fq, {}).values():
                        _put(out, e.via(func.qualname))
                if self.model_unpack and isinstance(t, (ast.Tuple, ast.List)) \
                        and isinstance(st, ast.Assign) and \
                        isinstance(st.value, ast.Call) and \
                        isinstance(st.value.func, ast.Attribute) and \
                        st.value.func.attr in ('split', 'rsplit'):
                    e = Esc('ValueError', 'unpack', func.file, func.qualname,
                            norm(st, 100), st.lineno)
                    _put(out, e)
        return out

    def _esc_try(self, func, st, caught):
        body = self.esc_block(func, st.body, caught)
        out = {}
        remaining = dict(body)
        for h in st.handlers:
            names = handler_names(h)
            matched = {k: v for k, v in remaining.items()
                       if self.h.caught_by(v.exc, names)}
            for k in matched:
                del remaining[k]
            hb = self.esc_block(func, h.body, (matched, h.name))
            self._merge(out, hb)
        self._merge(out, remaining)
        self._merge(out, self.esc_block(func, st.orelse, caught))
        self._merge(out, self.esc_block(func, st.finalbody, caught))
        return out

    # ------------------------------------------------------------------
    def exc_classes_of_expr(self, func, e, caught, depth=0):
        """Exception class names an expression evaluates to (for raise)."""
        if isinstance(e, ast.Call):
            if isinstance(e.func, ast.Attribute) and \
                    e.func.attr == 'with_traceback':
                return self.exc_classes_of_expr(func, e.func.value, caught,
                                                depth)
            d = dotted(e.func)
            if isinstance(e.func, ast.Name) and e.func.id in func.params:
                # raise exc_class(...): the class is an argument; what the
                # callers in the same class / module pass for it
                got = self._param_classes(func, e.func.id)
                if got:
                    return got
            if d is not None:
                simple = d.split('.')[-1]
                r = self.res.lookup_name(func, d.split('.')[0])
                if isinstance(e.func, ast.Name) and r is not None and \
                        r[0] == 'func':
                    return self.returned_exceptions(r[1])
                if isinstance(e.func, ast.Attribute) and r is not None and \
                        r[0] == 'module' and simple in r[1].functions:
                    return self.returned_exceptions(r[1].functions[simple])
                if isinstance(e.func, ast.Attribute) and \
                        d.split('.')[0] in ('self', 'cls') and depth < 3:
                    # raise self._new_error(...): a method that builds and
                    # returns the exception
                    targets, _how = self.res.resolve(e, func)
                    if targets:
                        out = []
                        for t in targets:
                            out += self.returned_exceptions(t)
                        return out
                return [simple]
            return ['Exception']
        if isinstance(e, (ast.Name, ast.Attribute)):
            d = dotted(e)
            if isinstance(e, ast.Name):
                if caught is not None and caught[1] == e.id:
                    return [v.exc for v in caught[0].values()] or []
                # local bound to constructor calls
                vals = []
                for n in walk_no_nested(func.node):
                    if isinstance(n, ast.Assign) and any(
                            isinstance(t, ast.Name) and t.id == e.id
                            for t in n.targets):
                        vals.append(n.value)
                    if isinstance(n, ast.ExceptHandler) and n.name == e.id:
                        vals.append(None)
                if vals and depth < 2:
                    out = []
                    for v in vals:
                        if v is None:
                            continue      # re-raise of a caught exception
                        out += self.exc_classes_of_expr(func, v, caught,
                                                        depth + 1)
                    return out
                r = self.res.lookup_name(func, e.id)
                if r is not None and r[0] in ('class', 'builtin'):
                    return [e.id]
                if e.id in func.params:
                    return ['Exception']
            if d is not None:
                return [d.split('.')[-1]]
        return ['Exception']

    def _param_classes(self, func, pname):
        """class names passed for parameter `pname` of `func` at its call
        sites in the same class (self.f(...)) or module (f(...)); [] when a
        site passes something that is not a class name"""
        params = [p for p in func.params if p not in ('self', 'cls')]
        if pname not in params:
            return []
        pos = params.index(pname)
        scope = list(func.cls.methods.values()) if func.cls is not None \
            else list(func.module.functions.values())
        out = []
        for g in scope:
            for c in ast.walk(g.node):
                if not isinstance(c, ast.Call):
                    continue
                d = dotted(c.func) or ''
                if d not in (func.name, 'self.' + func.name,
                             'cls.' + func.name):
                    continue
                arg = None
                if pos < len(c.args):
                    arg = c.args[pos]
                for k in c.keywords:
                    if k.arg == pname:
                        arg = k.value
                if not isinstance(arg, ast.Name):
                    return []
                r = self.res.lookup_name(g, arg.id)
                if r is None or r[0] not in ('class', 'builtin'):
                    return []
                out.append(arg.id)
        return sorted(set(out))

    def returned_exceptions(self, f):
        if f.fq in self._ret_exc:
            return self._ret_exc[f.fq]
        self._ret_exc[f.fq] = []
        out = []
        for n in walk_no_nested(f.node):
            if isinstance(n, ast.Return) and n.value is not None:
                out += self.exc_classes_of_expr(f, n.value, None, 1)
        self._ret_exc[f.fq] = out or ['Exception']
        return self._ret_exc[f.fq]

    def _raised(self, func, st, caught):
        if st.exc is None:
            if caught is None:
                return []
            return [v for v in caught[0].values()]
        # `raise exc` where exc is the handler variable: re-raise
        if isinstance(st.exc, ast.Name) and caught is not None and \
                caught[1] == st.exc.id:
            return [v for v in caught[0].values()]
        names = self.exc_classes_of_expr(func, st.exc, caught)
        construct = norm(st.exc, 80)
        if isinstance(st.exc, ast.Call):
            construct = norm(st.exc.func) + '(...)'
        return [Esc(n, 'raise', func.file, func.qualname,
                    'raise ' + construct, st.lineno) for n in names]

    # ------------------------------------------------------------------
    def esc_expr(self, func, node, stmt):
        """Escapes of evaluating the expressions inside `node` (a statement
        or expression), not descending into nested defs/lambdas."""
        out = {}
        facts = None
        self._cur_func = func
        for n in walk_no_nested(node):
            if isinstance(n, ast.Lambda):
                continue
            if isinstance(n, ast.Call):
                self._call(func, n, stmt, out)
            elif isinstance(n, ast.Subscript) and \
                    self.key_receiver is not None and \
                    isinstance(n.ctx, ast.Load):
                k = const_str(n.slice)
                if k is not None and self.key_receiver(n, func):
                    if facts is None:
                        facts, self._cur_trys = self.facts(func).get(
                            stmt, ((), ()))
                    if not self._key_guarded(n, k, facts, node):
                        e = Esc('KeyError', 'key', func.file, func.qualname,
                                norm(n), n.lineno)
                        _put(out, e)
        if self.model_none:
            for e in self._none_uses(func, node, stmt):
                _put(out, e)
        if getattr(self, 'model_index', True) and \
                isinstance(node, ast.Assign) and len(node.targets) == 1 and \
                isinstance(node.targets[0], (ast.Tuple, ast.List)) and \
                isinstance(node.value, ast.Call) and \
                isinstance(node.value.func, ast.Attribute) and \
                node.value.func.attr in ('split', 'rsplit') and \
                not any(isinstance(e, ast.Starred)
                        for e in node.targets[0].elts):
            # a, b = s.split(sep, 1): one piece only when sep is not in s
            want = len(node.targets[0].elts)
            args = node.value.args
            sep = args[0] if args else None
            if facts is None:
                facts, self._cur_trys = self.facts(func).get(
                    stmt, ((), ()))
            recv = norm(node.value.func.value)
            guarded = sep is not None and any(
                pol and isinstance(t, ast.Compare) and len(t.ops) == 1 and
                isinstance(t.ops[0], ast.In) and
                norm(t.left) == norm(sep) and
                norm(t.comparators[0]) == recv for t, pol in facts)
            if want >= 2 and not guarded:
                _put(out, Esc('ValueError', 'unpack', func.file,
                              func.qualname, norm(node, 80), node.lineno))
        if getattr(self, 'model_index', True):
            for n in walk_no_nested(node):
                if isinstance(n, ast.Subscript) and \
                        isinstance(n.ctx, ast.Load) and \
                        isinstance(n.value, ast.Call) and \
                        isinstance(n.value.func, ast.Attribute) and \
                        n.value.func.attr in ('split', 'rsplit',
                                              'splitlines') and \
                        not isinstance(n.value.func.value, ast.Constant):
                    idx = n.slice
                    if isinstance(idx, ast.UnaryOp) and \
                            isinstance(idx.op, ast.USub) and \
                            isinstance(idx.operand, ast.Constant):
                        k = -idx.operand.value
                    elif isinstance(idx, ast.Constant) and \
                            isinstance(idx.value, int):
                        k = idx.value
                    else:
                        continue
                    args = n.value.args
                    nosep = not args or (isinstance(args[0], ast.Constant)
                                         and args[0].value is None) or \
                        n.value.func.attr == 'splitlines'
                    # s.split(sep) always has at least one item;
                    # s.split() is empty for a blank string
                    if nosep or k not in (0, -1):
                        _put(out, Esc('IndexError', 'index', func.file,
                                      func.qualname, norm(n), n.lineno))
                # exc.args[k]: an exception raised without arguments has
                # args == ()
                if isinstance(n, ast.Subscript) and \
                        isinstance(n.ctx, ast.Load) and \
                        isinstance(n.value, ast.Attribute) and \
                        n.value.attr == 'args' and \
                        isinstance(n.value.value, ast.Name) and \
                        isinstance(n.slice, ast.Constant) and \
                        isinstance(n.slice.value, int):
                    hv = {h.name for t_ in ast.walk(func.node)
                          if isinstance(t_, ast.Try) for h in t_.handlers
                          if h.name}
                    if n.value.value.id in hv:
                        if facts is None:
                            facts, self._cur_trys = self.facts(func).get(
                                stmt, ((), ()))
                        from .cfg import expr_guards as _eg
                        known = list(facts) + list(_eg(stmt, n))
                        if not any(pol and norm(t) == norm(n.value)
                                   for t, pol in known):
                            _put(out, Esc('IndexError', 'index', func.file,
                                          func.qualname, norm(n), n.lineno))
        return out

    def _key_guarded(self, sub, key, facts, root):
        recv = norm(sub.value)
        from .cfg import expr_guards
        allfacts = list(facts) + list(expr_guards(root, sub))
        # not (a or b) gives not a, not b ; (a and b) gives a, b
        work = list(allfacts)
        while work:
            t, pol = work.pop()
            if isinstance(t, ast.BoolOp):
                if (isinstance(t.op, ast.Or) and not pol) or \
                        (isinstance(t.op, ast.And) and pol):
                    for v in t.values:
                        allfacts.append((v, pol))
                        work.append((v, pol))
            elif isinstance(t, ast.UnaryOp) and isinstance(t.op, ast.Not):
                allfacts.append((t.operand, not pol))
                work.append((t.operand, not pol))
        # `if 'A' in d or 'B' in d: try: d['A'] except KeyError: d['B']`
        for t, pol in allfacts:
            if pol and isinstance(t, ast.BoolOp) and isinstance(t.op, ast.Or):
                ds = set()
                for v in t.values:
                    if isinstance(v, ast.Compare) and len(v.ops) == 1 and \
                            isinstance(v.ops[0], ast.In) and \
                            norm(v.comparators[0]) == recv and \
                            const_str(v.left) is not None:
                        ds.add(const_str(v.left))
                if key in ds and len(ds) == len(t.values):
                    others = ds - {key}
                    trys = getattr(self, '_cur_trys', ())
                    in_try_body = any(part == 'body' and any(
                        isinstance(h.type, ast.Name) and
                        h.type.id == 'KeyError' for h in tr.handlers)
                        for tr, part in trys)
                    if in_try_body:
                        return True      # the KeyError is handled
                    for tr, part in trys:
                        if part == 'handler' and all(any(
                                isinstance(x, ast.Subscript) and
                                norm(x.value) == recv and
                                const_str(x.slice) == o
                                for b in tr.body for x in ast.walk(b))
                                for o in others) and len(ds) == 2:
                            return True
        for t, pol in allfacts:
            if pol and isinstance(t, ast.Compare) and len(t.ops) == 1 and \
                    isinstance(t.ops[0], ast.In) and \
                    const_str(t.left) == key and \
                    norm(t.comparators[0]) == recv:
                return True
            if (not pol) and isinstance(t, ast.Compare) and \
                    len(t.ops) == 1 and isinstance(t.ops[0], ast.NotIn) and \
                    const_str(t.left) == key and \
                    norm(t.comparators[0]) == recv:
                return True
        return False

    def _single_char(self, func, e, stmt):
        """the string `e` is known to have length 1 at `stmt`: an indexed
        character, capturing group k of a module regex whose group k
        matches exactly one character, or a value whose len() is pinned to
        1 by the facts that hold at the statement"""
        from . import rx
        from .guards import regex_const
        if isinstance(e, ast.Subscript) and \
                not isinstance(e.slice, ast.Slice):
            return True
        # len() facts: len(e) or a local L = len(e) compared with constants
        txt = norm(e)
        lens = {'len(%s)' % txt}
        for n in walk_no_nested(func.node):
            if isinstance(n, ast.Assign) and len(n.targets) == 1 and \
                    isinstance(n.targets[0], ast.Name) and \
                    norm(n.value) == 'len(%s)' % txt:
                lens.add(n.targets[0].id)
        facts = self.facts(func).get(stmt, ((), ()))[0]
        cons = []
        from .cfg import GuardWalker
        for t, pol in facts:
            for a, q in GuardWalker._atoms(t, pol):
                if isinstance(a, ast.Compare) and len(a.ops) == 1 and \
                        norm(a.left) in lens and \
                        isinstance(a.comparators[0], ast.Constant) and \
                        isinstance(a.comparators[0].value, int):
                    cons.append((type(a.ops[0]).__name__,
                                 a.comparators[0].value, q))
        if cons:
            import operator
            OPS_ = {'Eq': operator.eq, 'NotEq': operator.ne,
                    'Lt': operator.lt, 'LtE': operator.le,
                    'Gt': operator.gt, 'GtE': operator.ge}
            sol = [k for k in range(0, 8) if all(
                op in OPS_ and OPS_[op](k, v) == q for op, v, q in cons)]
            if sol == [1]:
                return True
        if isinstance(e, ast.Name):
            defs = [n for n in walk_no_nested(func.node)
                    if isinstance(n, ast.Assign) and any(
                        isinstance(t, ast.Name) and t.id == e.id
                        for t in n.targets)]
            mapped = [False]

            def one(v):
                if isinstance(v, ast.Subscript) and \
                        not isinstance(v.slice, ast.Slice):
                    return True
                if self._group_of_len1(func, v):
                    return True
                if isinstance(v, ast.Call) and not v.args and \
                        isinstance(v.func, ast.Attribute) and \
                        v.func.attr in ('upper', 'lower', 'casefold') and \
                        ((isinstance(v.func.value, ast.Name) and
                          v.func.value.id == e.id) or
                         (isinstance(v.func.value, ast.Subscript) and
                          not isinstance(v.func.value.slice, ast.Slice))):
                    # the case mapping of one character can be longer
                    # ('\xdf'.upper() == 'SS'); accepted only together with a
                    # character-class test of the result (below)
                    mapped[0] = True
                    return True
                return False
            if defs and all(one(d_.value) for d_ in defs):
                if not mapped[0]:
                    return True
                def char_class(a, q):
                    """the test `a` having truth value q says that the
                    variable is in a class of single characters"""
                    if isinstance(a, ast.UnaryOp) and \
                            isinstance(a.op, ast.Not):
                        return char_class(a.operand, not q)
                    if isinstance(a, ast.Call) and not a.args and \
                            isinstance(a.func, ast.Attribute) and \
                            a.func.attr in ('isdigit', 'isalpha',
                                            'isalnum') and \
                            norm(a.func.value) == e.id:
                        return q
                    if isinstance(a, ast.Compare) and len(a.ops) == 1 and \
                            norm(a.left) == e.id and \
                            isinstance(a.comparators[0], ast.Constant) and \
                            isinstance(a.comparators[0].value, str):
                        return (isinstance(a.ops[0], ast.In) and q) or \
                            (isinstance(a.ops[0], ast.NotIn) and not q)
                    return False
                for t, pol in facts:
                    if any(char_class(a, q)
                           for a, q in GuardWalker._atoms(t, pol)):
                        return True
                    # `not (A and B)`: one of them is false - enough when
                    # the falsity of each is such a test
                    if isinstance(t, ast.BoolOp) and \
                            isinstance(t.op, ast.And) and not pol and \
                            all(char_class(v, False) for v in t.values):
                        return True
                    if isinstance(t, ast.BoolOp) and \
                            isinstance(t.op, ast.Or) and pol and \
                            all(char_class(v, True) for v in t.values):
                        return True
                return False
        return self._group_of_len1(func, e)

    def _group_of_len1(self, func, v):
        from . import rx
        from .guards import regex_const
        if not (isinstance(v, ast.Call) and
                isinstance(v.func, ast.Attribute) and
                v.func.attr == 'group' and len(v.args) == 1 and
                isinstance(v.args[0], ast.Constant) and
                isinstance(v.args[0].value, int) and
                isinstance(v.func.value, ast.Name)):
            return False
        mname, k = v.func.value.id, v.args[0].value
        srcs = []
        for n in walk_no_nested(func.node):
            call = None
            if isinstance(n, ast.For) and isinstance(n.target, ast.Name) \
                    and n.target.id == mname:
                call = n.iter
            elif isinstance(n, ast.Assign) and any(
                    isinstance(t, ast.Name) and t.id == mname
                    for t in n.targets):
                call = n.value
            if call is None:
                continue
            if not (isinstance(call, ast.Call) and
                    isinstance(call.func, ast.Attribute) and
                    call.func.attr in ('finditer', 'match', 'search',
                                       'fullmatch')):
                return False
            srcs.append(call.func.value)
        if not srcs:
            return False
        for r_ in srcs:
            rc = regex_const(self.repo, func, r_)
            if not rc:
                return False
            try:
                g = rx.group(rx.parse(rc[0], rc[1]), k)
            except Exception:    # noqa: B902 - unparsable pattern
                return False
            if g is None or rx.min_len(g) != 1 or rx.max_len(g) != 1:
                return False
        return True

    def _call(self, func, call, stmt, out):
        d = dotted(call.func)
        # modelled primitives
        if d in ('int', 'float') and call.args:
            a = call.args[0]
            if isinstance(a, ast.Starred) and d == 'int':
                # int(*args): the argument may be a float (inf/nan)
                _put(out, Esc('OverflowError', 'conv', func.file,
                              func.qualname, norm(call), call.lineno))
            if not isinstance(a, ast.Constant):
                guarded = False
                if self.conv_guard is not None:
                    facts = self.facts(func).get(stmt, ((), ()))[0]
                    guarded = self.conv_guard(call, func, facts)
                if not guarded:
                    e = Esc('ValueError', 'conv', func.file, func.qualname,
                            norm(call), call.lineno)
                    _put(out, e)
            return
        if d == 'ord' and len(call.args) == 1 and \
                not isinstance(call.args[0], ast.Constant):
            # ord() takes exactly one character
            if not self._single_char(func, call.args[0], stmt):
                _put(out, Esc('TypeError', 'conv', func.file, func.qualname,
                              norm(call), call.lineno))
            return
        if self.model_decode:
            if isinstance(call.func, ast.Attribute) and \
                    call.func.attr in ('decode', 'encode'):
                errs = [k for k in call.keywords if k.arg == 'errors']
                strict = not errs and len(call.args) < 2
                if strict:
                    e = Esc('UnicodeError', 'decode', func.file,
                            func.qualname, norm(call), call.lineno)
                    _put(out, e)
        d_ = dotted(call.func) or ''
        for exc_ in stdlib_raises(d_):
            _put(out, Esc(exc_, 'stdlib', func.file, func.qualname,
                          norm(call), call.lineno))
        if self.call_escapes is not None:
            extra = self.call_escapes(call, func)
            if extra:
                for e in extra:
                    _put(out, e)
        targets, how = self.res.resolve(call, func)
        if targets:
            self.call_stats['resolved'] += 1
        elif how in ('builtin',):
            self.call_stats['builtin'] += 1
        elif how == 'stdlib':
            self.call_stats['stdlib'] += 1
        else:
            self.call_stats['unresolved'] += 1
            if len(self.unresolved) < 400:
                self.unresolved.append('%s:%s %s' % (func.file, call.lineno,
                                                     norm(call.func)))
        for t in targets:
            for e in self.summ.get(t.fq, {}).values():
                if self.esc_filter is not None and \
                        not self.esc_filter(call, func, t, e):
                    continue
                _put(out, e.via(func.qualname))

    # -- possibly-None regex match results -------------------------------
    def _none_uses(self, func, node, stmt):
        """m = P.match(...) ... m.group() without a dominating truthiness
        fact on m."""
        info = self._match_vars(func)
        if not info:
            return []
        out = []
        facts = None
        from .cfg import expr_guards
        for n in walk_no_nested(node):
            if isinstance(n, (ast.Attribute, ast.Subscript)) and \
                    isinstance(n.value, ast.Name) and n.value.id in info and \
                    isinstance(n.ctx, ast.Load):
                var = n.value.id
                if facts is None:
                    facts = self.facts(func).get(stmt, ((), ()))[0]
                ok = False
                for t, pol in list(facts) + list(expr_guards(node, n)):
                    s = norm(t)
                    if pol and s in (var, '%s is not None' % var):
                        ok = True
                    if (not pol) and s in ('not %s' % var,
                                           '%s is None' % var):
                        ok = True
                if not ok:
                    out.append(Esc('AttributeError', 'none', func.file,
                                   func.qualname, norm(n), n.lineno))
        return out

    def _match_vars(self, func):
        key = ('mv', func.fq)
        if key in self._facts:
            return self._facts[key]
        out = {}
        other = set()
        for n in walk_no_nested(func.node):
            if isinstance(n, ast.Assign) and len(n.targets) == 1 and \
                    isinstance(n.targets[0], ast.Name):
                v = n.value
                if isinstance(v, ast.Call) and \
                        isinstance(v.func, ast.Attribute) and \
                        v.func.attr in ('match', 'search', 'fullmatch') and \
                        not (isinstance(v.func.value, ast.Name) and
                             v.func.value.id in ('self',)):
                    out[n.targets[0].id] = n
                elif isinstance(v, ast.Call) and \
                        isinstance(v.func, ast.Attribute) and \
                        v.func.attr == 'get' and \
                        norm(v.func.value) in getattr(
                            self, 'none_get_receivers', ()) and \
                        (len(v.args) == 1 or (
                            len(v.args) == 2 and
                            isinstance(v.args[1], ast.Constant) and
                            v.args[1].value is None)):
                    # mapping.get(key) without a default: possibly None
                    out[n.targets[0].id] = n
                else:
                    other.add(n.targets[0].id)
        for k in other:
            out.pop(k, None)
        self._facts[key] = out
        return out
