"""E4 - return shapes of the tuple parser and shape-dependent uses of reply
elements in the operation tails (C02.R2).

Shapes (hashable tuples):
  ('obj', ClassName, nonnull)   a CIM object; nonnull = frozenset of
                                attributes known to be set to a non-None value
  ('tuple', n, payload)         an n-tuple; payload = frozenset of shapes of
                                its last item when n == 3 (name, attrs, X)
  ('list', elems)               a list; elems = frozenset of item shapes
  ('str',) ('none',) ('dict',)  text / None / dict
  ('value',)                    a converted CIM value (unpack_value)
  ('unknown',)                  not determined

The parser is a small closed world (every parse_X returns a constructor
call, a tuple literal, text, None, a list, or the result of another parse
method); the shape sets are a fixed point over its return statements.
"""
import ast

from .model import AnalysisError, walk_no_nested, dotted, norm, const_str, \
    fold_const, NotConst

TP = 'pywbem/_tupleparse.py'
STR = ('str',)
NONE = ('none',)
DICT = ('dict',)
VALUE = ('value',)
UNKNOWN = ('unknown',)


def show(shape):
    k = shape[0]
    if k == 'obj':
        return shape[1] + ('' if 'path' in shape[2] or shape[1] not in
                           ('CIMInstance', 'CIMClass') else '(path=None)')
    if k == 'tuple':
        return 'tuple%d' % shape[1]
    if k == 'list':
        return 'list'
    return {'str': 'str', 'none': 'None', 'dict': 'dict', 'value': 'value',
            'unknown': '?'}[k]


def parse_method_name(element):
    return 'parse_' + element.lower().replace('.', '_')


class ParserShapes:
    def __init__(self, repo):
        self.repo = repo
        self.tp = repo.cls(TP, 'TupleParser')
        self.shapes = {}           # method name -> frozenset(shape)
        self.children = {}         # method name -> tuple of child elements
        self._solve()

    # -- helpers -----------------------------------------------------------
    def _names_arg(self, call, func):
        """element names of a one_child/list_of_* call"""
        if len(call.args) < 2:
            return None
        a = call.args[1]
        try:
            v = fold_const(a)
        except (NotConst, TypeError, ValueError):
            v = None
        if v is None and isinstance(a, ast.Name):
            for n in walk_no_nested(func.node):
                if isinstance(n, ast.Assign) and \
                        norm(n.targets[0]) == a.id:
                    try:
                        v = fold_const(n.value)
                    except (NotConst, TypeError, ValueError):
                        v = None
        if isinstance(v, str):
            v = (v,)
        if isinstance(v, (tuple, list)) and all(isinstance(x, str)
                                                for x in v):
            return tuple(v)
        return None

    def _union_of(self, names):
        out = set()
        for el in names:
            out |= self.shapes.get(parse_method_name(el), frozenset())
        return out

    def _expr(self, e, func, env, depth=0):
        """set of shapes of expression e inside parser method func"""
        if e is None:
            return {NONE}
        if isinstance(e, ast.Constant):
            if e.value is None:
                return {NONE}
            if isinstance(e.value, str):
                return {STR}
            return {VALUE}
        if isinstance(e, ast.JoinedStr):
            return {STR}
        if isinstance(e, ast.Tuple):
            n = len(e.elts)
            payload = frozenset(self._expr(e.elts[-1], func, env, depth + 1)) \
                if n == 3 else frozenset()
            return {('tuple', n, payload)}
        if isinstance(e, ast.Dict):
            return {DICT}
        if isinstance(e, (ast.List, ast.ListComp)):
            el = set()
            if isinstance(e, ast.List):
                for x in e.elts:
                    el |= self._expr(x, func, env, depth + 1)
            else:
                el |= self._expr(e.elt, func, env, depth + 1)
            return {('list', frozenset(el))}
        if isinstance(e, ast.IfExp):
            return self._expr(e.body, func, env, depth + 1) | \
                self._expr(e.orelse, func, env, depth + 1)
        if isinstance(e, ast.Subscript):
            base = e.value
            if isinstance(base, ast.Call) and dotted(base.func) == 'attrs':
                return {STR}
            if isinstance(base, ast.Name) and base.id in ('attrl',):
                return {STR}
            return {UNKNOWN}
        if isinstance(e, ast.Name):
            if depth > 6:
                return {UNKNOWN}
            return set(env.get(e.id, {UNKNOWN}))
        if isinstance(e, ast.Call):
            d = dotted(e.func) or ''
            if d in ('pcdata', 'name'):
                return {STR}
            if d == 'attrs':
                return {DICT}
            if isinstance(e.func, ast.Attribute) and e.func.attr == 'join':
                return {STR}
            if d.startswith('self.'):
                m = d[5:]
                if m in ('one_child', 'optional_child'):
                    names = self._names_arg(e, func)
                    if names is None:
                        return {UNKNOWN}
                    out = self._union_of(names)
                    if m == 'optional_child':
                        out.add(NONE)
                    return out
                if m in ('list_of_various', 'list_of_matching',
                         'list_of_same'):
                    names = self._names_arg(e, func)
                    if names is None:
                        return {('list', frozenset({UNKNOWN}))}
                    return {('list', frozenset(self._union_of(names)))}
                if m in ('unpack_value', 'unpack_single_value',
                         'unpack_boolean', 'unpack_numeric',
                         'unpack_datetime', 'unpack_char16',
                         'unpack_string'):
                    return {VALUE}
                if m.startswith('parse_'):
                    return set(self.shapes.get(m, frozenset()))
                return {UNKNOWN}
            cls = self.repo.find_class(d) if d and '.' not in d else None
            if cls is not None:
                nonnull = set()
                for k in e.keywords:
                    if k.arg and not (isinstance(k.value, ast.Constant) and
                                      k.value.value is None):
                        nn = self._expr(k.value, func, env, depth + 1)
                        if NONE not in nn and UNKNOWN not in nn:
                            nonnull.add(k.arg)
                return {('obj', cls.name, frozenset(nonnull))}
            return {UNKNOWN}
        return {UNKNOWN}

    def _method(self, func):
        """shape set of one parse method under the current self.shapes"""
        env = {}
        # flow-insensitive local environment, iterated twice for chains
        assigns = []
        for n in walk_no_nested(func.node):
            if isinstance(n, ast.Assign) and len(n.targets) == 1 and \
                    isinstance(n.targets[0], ast.Name):
                assigns.append((n.targets[0].id, n.value))
            elif isinstance(n, ast.For) and isinstance(n.target, ast.Name):
                assigns.append((n.target.id, ('iter', n.iter)))
        for _ in range(3):
            new = {}
            for name, val in assigns:
                if isinstance(val, tuple):
                    sh = set()
                    for s in self._expr(val[1], func, env):
                        if s[0] == 'list':
                            sh |= set(s[1])
                        else:
                            sh.add(UNKNOWN)
                else:
                    sh = self._expr(val, func, env)
                new.setdefault(name, set()).update(sh)
            env = new
        # attribute stores executed on every path: <var>.attr = <non-None>
        # at the top level of the function body (not under if/for/try)
        definite = {}
        for st in func.body:
            if isinstance(st, ast.Assign) and len(st.targets) == 1 and \
                    isinstance(st.targets[0], ast.Attribute) and \
                    isinstance(st.targets[0].value, ast.Name):
                v = self._expr(st.value, func, env)
                if NONE not in v and UNKNOWN not in v:
                    definite.setdefault(st.targets[0].value.id,
                                        set()).add(st.targets[0].attr)
        for var, attrs_ in definite.items():
            if var in env:
                env[var] = {('obj', s[1], frozenset(s[2] | attrs_))
                            if s[0] == 'obj' else s for s in env[var]}
        out = set()
        for n in walk_no_nested(func.node):
            if isinstance(n, ast.Return):
                out |= self._expr(n.value, func, env)
        return frozenset(out)

    def _solve(self):
        meths = {n: f for n, f in self.tp.methods.items()
                 if n.startswith('parse_')}
        if len(meths) < 55:
            raise AnalysisError('only %d TupleParser.parse_* methods'
                                % len(meths))
        for n in meths:
            self.shapes[n] = frozenset()
        for _ in range(12):
            changed = False
            for n, f in meths.items():
                s = self._method(f)
                if s != self.shapes[n]:
                    self.shapes[n] = s
                    changed = True
            if not changed:
                break
        for n, f in meths.items():
            for c in walk_no_nested(f.node):
                if isinstance(c, ast.Call) and (dotted(c.func) or '') in (
                        'self.list_of_same', 'self.list_of_various',
                        'self.list_of_matching', 'self.one_child',
                        'self.optional_child'):
                    names = self._names_arg(c, f)
                    if names:
                        self.children[n] = tuple(
                            self.children.get(n, ())) + names

    def element_shapes(self, method):
        """{child element: shapes} of the list a parse method collects"""
        return {el: self.shapes.get(parse_method_name(el), frozenset())
                for el in self.children.get(method, ())}


# ---------------------------------------------------------------------------
# abstract values in the operation tails
# ---------------------------------------------------------------------------
class AV:
    """abstract value: kind in result / irv / rchild / elems / elem / tuple"""

    def __init__(self, kind, shapes=frozenset(), validated=False,
                 items=None, origin=None):
        self.kind = kind
        self.shapes = frozenset(shapes)
        self.validated = validated
        self.items = items or []
        self.origin = origin

    def __repr__(self):
        return 'AV(%s,%s,%s)' % (self.kind, sorted(show(s)
                                                  for s in self.shapes),
                                 self.validated)


def join(a, b):
    if a is None:
        return b
    if b is None:
        return a
    if a.kind == 'elems' and b.kind == 'elems':
        return AV('elems', a.shapes | b.shapes,
                  a.validated and b.validated, origin=a.origin or b.origin)
    if a.kind == 'elem' and b.kind == 'elem':
        return AV('elem', a.shapes | b.shapes, origin=a.origin or b.origin)
    if a.kind == 'elems' and not a.shapes:
        return b
    if b.kind == 'elems' and not b.shapes:
        return a
    return a


class TailInterp:
    """Abstract interpretation of one function of _cim_operations.py over
    the values derived from the reply of _imethodcall."""

    def __init__(self, repo, pshapes, conn_cls, report_use, depth=0):
        self.repo = repo
        self.ps = pshapes
        self.cls = conn_cls
        self.report_use = report_use   # callback(func, node, what, bad, av)
        self.depth = depth
        ch = set()
        self.by_shape = {}
        for el, ss in pshapes.element_shapes('parse_ireturnvalue').items():
            for s in ss:
                ch.add(s)
                self.by_shape.setdefault(s, set()).add(el)
                if s[0] == 'tuple':
                    for p in s[2]:
                        self.by_shape.setdefault(p, set()).add(
                            el + ' payload')
        if len(ch) < 6:
            raise AnalysisError('IRETURNVALUE child shapes not determined '
                                '(%d)' % len(ch))
        self.CH = frozenset(ch)
        self.returns = []
        self.uses = 0
        self._loop_ends = []     # per enclosing loop: envs at `continue`
        self._loop_broke = []
        self._post = None        # (call node, {caller variable: AV})
        self.final = (None, False)

    # -- class facts ---------------------------------------------------------
    def has_attr(self, clsname, attr):
        c = self.repo.find_class(clsname)
        if c is None:
            return True
        for k in c.mro():
            if attr in k.methods or attr in getattr(k, 'properties', {}) or \
                    attr in (s.lstrip('_') for s in (k.slots() or [])):
                return True
            if k.find_setter(attr) is not None:
                return True
        return False

    def has_getitem(self, clsname):
        c = self.repo.find_class(clsname)
        return c is not None and c.find_method('__getitem__') is not None

    # -- uses ------------------------------------------------------------------
    def _use(self, func, node, what, av, valid):
        self.uses += 1
        bad = [s for s in av.shapes if not valid(s)]
        self.report_use(func, node, what, bad, av, self)

    def use_subscript(self, func, node, av, idx):
        def valid(s):
            if s[0] == 'tuple':
                return idx is None or -s[1] <= idx < s[1]
            return False
        self._use(func, node, 'subscript [%s]' % ('?' if idx is None
                                                   else idx), av, valid)

    def use_attr(self, func, node, av, attr):
        if attr in ('__class__',):
            return

        def valid(s):
            return s[0] == 'obj' and self.has_attr(s[1], attr)
        self._use(func, node, 'attribute .%s' % attr, av, valid)

    def use_unpack(self, func, node, av, n):
        def valid(s):
            return s[0] == 'tuple' and s[1] == n
        self._use(func, node, 'unpacking into %d names' % n, av, valid)

    # -- narrowing -----------------------------------------------------------
    def _isinstance_types(self, call, env=None):
        if isinstance(call, ast.Call) and dotted(call.func) == 'isinstance' \
                and len(call.args) == 2:
            t = call.args[1]
            names = [norm(x) for x in t.elts] if isinstance(t, ast.Tuple) \
                else [norm(t)]
            if env is not None:
                out = []
                for n in names:
                    av = env.get(n)
                    if av is not None and av.kind == 'types':
                        out.extend(av.items)
                    else:
                        out.append(n)
                names = out
            return norm(call.args[0]), names
        return None

    def _narrow(self, av, names, positive=True):
        def match(s):
            for n in names:
                if n == 'tuple' and s[0] == 'tuple':
                    return True
                if n == 'list' and s[0] == 'list':
                    return True
                if n == 'str' and s[0] == 'str':
                    return True
                if s[0] == 'obj':
                    c = self.repo.find_class(s[1])
                    if s[1] == n or (c is not None and
                                     c.is_subclass_of(n)):
                        return True
            return False
        keep = frozenset(s for s in av.shapes if match(s) == positive)
        return AV(av.kind, keep, av.validated, av.items, av.origin)

    def conds(self, test, env, func):
        """(facts_if_true, facts_if_false): {varexpr: narrowing fn}"""
        t, f = {}, {}
        if isinstance(test, ast.UnaryOp) and isinstance(test.op, ast.Not):
            a, b = self.conds(test.operand, env, func)
            return b, a
        if isinstance(test, ast.BoolOp):
            parts = [self.conds(v, env, func) for v in test.values]
            if isinstance(test.op, ast.Or):
                # all disjuncts false on the false side
                for _, pf in parts:
                    for k, fn in pf.items():
                        f.setdefault(k, []).extend(fn)
            else:
                for pt, _ in parts:
                    for k, fn in pt.items():
                        t.setdefault(k, []).extend(fn)
            return t, f
        it = self._isinstance_types(test, env)
        if it:
            var, names = it
            t[var] = [('isinstance', names, True)]
            f[var] = [('isinstance', names, False)]
            return t, f
        if isinstance(test, ast.Compare) and len(test.ops) == 1 and \
                isinstance(test.comparators[0], ast.Constant) and \
                test.comparators[0].value is None:
            var = norm(test.left)
            if isinstance(test.ops[0], ast.Is):
                t[var] = [('none', True)]
                f[var] = [('none', False)]
            elif isinstance(test.ops[0], ast.IsNot):
                t[var] = [('none', False)]
                f[var] = [('none', True)]
            return t, f
        if isinstance(test, ast.Compare) and len(test.ops) == 1 and \
                isinstance(test.ops[0], ast.Eq) and \
                isinstance(test.left, ast.Name) and \
                env.get(test.left.id) is not None and \
                env[test.left.id].kind == 'tagof' and \
                const_str(test.comparators[0]) is not None:
            # name = p[0] ... name == 'IRETURNVALUE'
            t[env[test.left.id].items[0]] = [('tag', const_str(
                test.comparators[0]))]
            return t, f
        if isinstance(test, ast.Compare) and len(test.ops) == 1 and \
                isinstance(test.ops[0], ast.Eq) and \
                isinstance(test.left, ast.Subscript) and \
                isinstance(test.left.slice, ast.Constant) and \
                test.left.slice.value == 0 and \
                const_str(test.comparators[0]) is not None:
            # p[0] == 'IRETURNVALUE': the element name of a response child
            t[norm(test.left.value)] = [('tag', const_str(
                test.comparators[0]))]
            return t, f
        if isinstance(test, ast.Compare) and len(test.ops) == 1 and \
                isinstance(test.left, ast.Call) and \
                dotted(test.left.func) == 'len' and \
                isinstance(test.comparators[0], ast.Constant) and \
                isinstance(test.comparators[0].value, int):
            var = norm(test.left.args[0])
            n = test.comparators[0].value
            if isinstance(test.ops[0], ast.Eq):
                t[var] = [('len', n, True)]
            elif isinstance(test.ops[0], ast.NotEq):
                f[var] = [('len', n, True)]
            return t, f
        return t, f

    def apply(self, env, facts):
        env = dict(env)
        for var, fl in facts.items():
            av = env.get(var)
            if av is None and '.' in var:
                # narrowing of an attribute chain v.path is None / not None
                base, attr = var.rsplit('.', 1)
                b = env.get(base)
                if b is not None and b.kind == 'elem':
                    for fact in fl:
                        if fact[0] == 'none' and not fact[1]:
                            env[base] = AV('elem', frozenset(
                                ('obj', s[1], frozenset(s[2] | {attr}))
                                if s[0] == 'obj' else s
                                for s in b.shapes), origin=b.origin)
                continue
            if av is not None and av.kind == 'rchild':
                for fact in fl:
                    if fact[0] == 'tag':
                        env[var] = AV('irv') if fact[1] == 'IRETURNVALUE' \
                            else AV('param')
                continue
            if av is None or av.kind not in ('elem',):
                continue
            for fact in fl:
                if fact[0] == 'isinstance':
                    av = self._narrow(av, fact[1], fact[2])
                elif fact[0] == 'none':
                    keep = frozenset(s for s in av.shapes
                                     if (s == NONE) == fact[1])
                    av = AV('elem', keep, origin=av.origin)
                elif fact[0] == 'len':
                    keep = frozenset(
                        s for s in av.shapes
                        if not (s[0] == 'tuple' and s[1] != fact[1]))
                    av = AV('elem', keep, origin=av.origin)
            env[var] = av
        return env

    # -- expressions --------------------------------------------------------
    def ev(self, e, env, func):
        if e is None:
            return None
        if isinstance(e, ast.Name):
            return env.get(e.id)
        if isinstance(e, ast.Starred):
            return self.ev(e.value, env, func)
        if isinstance(e, ast.IfExp):
            t, f = self.conds(e.test, env, func)
            return join(self.ev(e.body, self.apply(env, t), func),
                        self.ev(e.orelse, self.apply(env, f), func))
        if isinstance(e, ast.List) and not e.elts:
            return AV('elems', frozenset(), True)
        if isinstance(e, (ast.Tuple, ast.List)):
            items = [self.ev(x, env, func) for x in e.elts]
            if any(i is not None for i in items):
                return AV('tuple', items=items)
            return None
        if isinstance(e, ast.Subscript):
            base = self.ev(e.value, env, func)
            if base is None:
                return None
            idx = None
            if isinstance(e.slice, ast.Constant) and \
                    isinstance(e.slice.value, int):
                idx = e.slice.value
            if base.kind == 'result':
                return AV('irv') if idx == 0 else AV('rchild')
            if base.kind in ('irv', 'rchild'):
                if idx == 2:
                    return AV('elems', self.CH, False, origin=norm(e))
                return None
            if base.kind == 'elems':
                if isinstance(e.slice, ast.Slice):
                    return base
                return AV('elem', base.shapes, origin=base.origin)
            if base.kind == 'tuple':
                if idx is not None and idx < len(base.items):
                    return base.items[idx]
                return None
            if base.kind == 'elem':
                self.use_subscript(func, e, base, idx)
                pay = set()
                for s in base.shapes:
                    if s[0] == 'tuple' and s[1] == 3 and idx == 2:
                        pay |= set(s[2])
                return AV('elem', frozenset(pay), origin=base.origin) \
                    if pay else None
            return None
        if isinstance(e, ast.Attribute):
            base = self.ev(e.value, env, func)
            if base is None or base.kind != 'elem':
                return None
            self.use_attr(func, e, base, e.attr)
            if e.attr == 'path':
                out = set()
                for s in base.shapes:
                    if s[0] == 'obj' and s[1] in ('CIMInstance', 'CIMClass'):
                        out.add(('obj', 'CIMInstanceName' if s[1] ==
                                 'CIMInstance' else 'CIMClassName',
                                 frozenset()))
                        if 'path' not in s[2]:
                            out.add(NONE)
                return AV('elem', frozenset(out), origin=base.origin)
            return None
        if isinstance(e, ast.ListComp) and len(e.generators) == 1:
            g = e.generators[0]
            it = self.ev(g.iter, env, func)
            if it is None or it.kind not in ('elems', 'result'):
                return None
            env2 = dict(env)
            self.bind_target(g.target, it, env2, func, g)
            for c in g.ifs:
                t, _ = self.conds(c, env2, func)
                env2 = self.apply(env2, t)
            el = self.ev(e.elt, env2, func)
            if el is not None and el.kind == 'elem':
                return AV('elems', el.shapes, False, origin=norm(e, 60))
            return None
        if isinstance(e, ast.Call):
            d = dotted(e.func) or ''
            if d == 'self._imethodcall':
                return AV('result')
            if isinstance(e.func, ast.Attribute) and not d:
                # a method called on a reply element reached through a
                # subscript (`x[2].strip()`): an attribute use
                self.ev(e.func, env, func)
            args = [self.ev(a, env, func) or self.types_av(a, env)
                    for a in e.args]
            kwargs = {}
            for k in e.keywords:
                v = self.ev(k.value, env, func) or self.types_av(k.value, env)
                if k.arg and v is not None:
                    kwargs[k.arg] = v
            if d.startswith('self.') and d[5:] in self.cls.methods and \
                    any(a is not None and a.kind != 'types'
                        for a in args) and self.depth < 3:
                callee = self.cls.methods[d[5:]]
                sub = TailInterp(self.repo, self.ps, self.cls,
                                 self.report_use, self.depth + 1)
                sub.CH, sub.by_shape = self.CH, self.by_shape
                params = [p for p in callee.params if p != 'self']
                cenv = {}
                for p, a in zip(params, args):
                    if a is not None:
                        cenv[p] = a
                for p, a in kwargs.items():
                    if p in params:
                        cenv[p] = a
                dflt = callee.param_defaults()
                for p in params:
                    if p not in cenv and isinstance(dflt.get(p), ast.Constant) \
                            and dflt[p].value is None:
                        cenv[p] = AV('noneconst')
                sub.run(callee, cenv)
                self.uses += sub.uses
                # a checking helper: it has no return statement, so it ends
                # only by falling off its end (or raising) - what it has
                # established about a list it was handed holds for the
                # caller's variable afterwards
                fenv, falive = sub.final
                if falive and fenv is not None and not any(
                        isinstance(n, ast.Return)
                        for n in walk_no_nested(callee.node)):
                    post = {}
                    for p, ax in zip(params, e.args):
                        v = fenv.get(p)
                        if isinstance(ax, ast.Name) and v is not None and \
                                v.kind == 'elems' and v.validated and \
                                not any(isinstance(n, ast.Name) and
                                        n.id == p and
                                        isinstance(n.ctx, ast.Store)
                                        for n in ast.walk(callee.node)):
                            post[ax.id] = v
                    if post:
                        self._post = (e, post)
                out = None
                for r in sub.returns:
                    out = r if out is None else join(out, r)
                return out
            local = None
            for n in walk_no_nested(func.node):
                if isinstance(n, ast.FunctionDef) and n.name == d and \
                        n is not func.node:
                    local = n
            if local is not None and any(a is not None for a in args):
                # nested helper (e.g. _GetQueryRsltClass): analysed in place
                return None
            if any(a is not None and a.kind in ('elems', 'elem', 'tuple')
                   for a in args) and d and d[0].islower() and \
                    d.endswith('_tuple'):
                flat = []
                for a in args:
                    if a is not None and a.kind == 'tuple':
                        flat.extend(a.items)
                    else:
                        flat.append(a)
                return AV('tuple', items=flat)
            return None
        return None

    def types_av(self, e, env):
        """a class (or tuple of classes) passed as an argument"""
        if isinstance(e, ast.Name):
            if e.id in env and env[e.id] is not None and \
                    env[e.id].kind == 'types':
                return env[e.id]
            if self.repo.find_class(e.id) is not None or \
                    e.id in ('tuple', 'list', 'str'):
                return AV('types', items=[e.id])
        if isinstance(e, ast.Tuple):
            parts = [self.types_av(x, env) for x in e.elts]
            if parts and all(p is not None for p in parts):
                return AV('types', items=[n for p in parts for n in p.items])
        return None

    def static_truth(self, test, env):
        """True/False when the test is decided by the abstract value of a
        parameter bound at the call site (a class object is not None; a
        defaulted None parameter is None), else None"""
        if isinstance(test, ast.UnaryOp) and isinstance(test.op, ast.Not):
            v = self.static_truth(test.operand, env)
            return None if v is None else not v
        if isinstance(test, ast.Compare) and len(test.ops) == 1 and \
                isinstance(test.left, ast.Name) and \
                isinstance(test.comparators[0], ast.Constant) and \
                test.comparators[0].value is None:
            av = env.get(test.left.id)
            if av is None or av.kind not in ('types', 'noneconst'):
                return None
            is_none = av.kind == 'noneconst'
            if isinstance(test.ops[0], ast.Is):
                return is_none
            if isinstance(test.ops[0], ast.IsNot):
                return not is_none
        return None

    def bind_target(self, target, it, env, func, node):
        if it.kind == 'result':
            if isinstance(target, ast.Name):
                env[target.id] = AV('rchild')
            return
        if isinstance(target, ast.Name):
            env[target.id] = AV('elem', it.shapes, origin=it.origin)
        elif isinstance(target, ast.Tuple):
            self.use_unpack(func, node, AV('elem', it.shapes,
                                           origin=it.origin),
                            len(target.elts))
            for t in target.elts:
                if isinstance(t, ast.Name):
                    env.pop(t.id, None)

    # -- statements ------------------------------------------------------------
    def block(self, stmts, env, func):
        """returns (env, falls_through)"""
        for st in stmts:
            env, alive = self.stmt(st, env, func)
            if not alive:
                return env, False
        return env, True

    def stmt(self, st, env, func):
        if isinstance(st, (ast.FunctionDef, ast.AsyncFunctionDef,
                           ast.ClassDef)):
            return env, True
        if isinstance(st, ast.Raise):
            return env, False
        if isinstance(st, ast.Continue) and self._loop_ends:
            self._loop_ends[-1].append(env)
            return env, False
        if isinstance(st, ast.Break) and self._loop_ends:
            self._loop_broke[-1] = True
            return env, False
        if isinstance(st, ast.Return):
            av = self.ev(st.value, env, func)
            if av is not None:
                av.node = st
                self.returns.append(av)
            return env, False
        if isinstance(st, ast.Assign):
            av = self.ev(st.value, env, func)
            v = st.value
            if av is None and isinstance(v, ast.Subscript) and \
                    isinstance(v.value, ast.Name) and \
                    isinstance(v.slice, ast.Constant) and \
                    v.slice.value == 0 and \
                    env.get(v.value.id) is not None and \
                    env[v.value.id].kind == 'rchild':
                # the element name of a response child kept in a local
                av = AV('tagof', items=[v.value.id])
            env = dict(env)
            for t in st.targets:
                if isinstance(t, ast.Name):
                    if av is None:
                        env.pop(t.id, None)
                    else:
                        env[t.id] = av
                elif isinstance(t, ast.Tuple) and av is not None and \
                        av.kind == 'elem':
                    self.use_unpack(func, st, av, len(t.elts))
                    for tt in t.elts:
                        if isinstance(tt, ast.Name):
                            env.pop(tt.id, None)
                elif isinstance(t, ast.Tuple) and av is not None and \
                        av.kind == 'tuple':
                    for tt, item in zip(t.elts, av.items):
                        if isinstance(tt, ast.Name):
                            if item is None:
                                env.pop(tt.id, None)
                            else:
                                env[tt.id] = item
                elif isinstance(t, ast.Attribute):
                    base = self.ev(t.value, env, func)
                    if base is not None and base.kind == 'elem':
                        self.use_attr(func, t, base, t.attr)
                        # the attribute is now set (non-None unless None
                        # is assigned)
                        if isinstance(t.value, ast.Name) and not (
                                isinstance(st.value, ast.Constant) and
                                st.value.value is None):
                            env[t.value.id] = AV('elem', frozenset(
                                ('obj', s[1], frozenset(s[2] | {t.attr}))
                                if s[0] == 'obj' else s
                                for s in base.shapes), origin=base.origin)
                elif isinstance(t, ast.Subscript):
                    self.ev(t.value, env, func)
            return env, True
        if isinstance(st, ast.AugAssign):
            self.ev(st.value, env, func)
            return env, True
        if isinstance(st, ast.Expr):
            c = st.value
            if isinstance(c, ast.Call) and isinstance(c.func, ast.Attribute) \
                    and c.func.attr == 'append' and \
                    isinstance(c.func.value, ast.Name) and len(c.args) == 1:
                item = self.ev(c.args[0], env, func)
                lst = env.get(c.func.value.id)
                if item is not None and item.kind == 'elem' and \
                        (lst is None or lst.kind == 'elems'):
                    env = dict(env)
                    env[c.func.value.id] = join(
                        lst, AV('elems', item.shapes, False,
                                origin=norm(c.args[0], 60)))
                return env, True
            self._post = None
            self.ev(st.value, env, func)
            if self._post is not None and self._post[0] is st.value:
                env = dict(env)
                env.update(self._post[1])
            self._post = None
            return env, True
        if isinstance(st, ast.If):
            truth = self.static_truth(st.test, env)
            if truth is True:
                return self.block(st.body, env, func)
            if truth is False:
                return self.block(st.orelse, env, func)
            t, f = self.conds(st.test, env, func)
            self.ev_test(st.test, env, func)
            env_t, alive_t = self.block(st.body, self.apply(env, t), func)
            env_f, alive_f = self.block(st.orelse, self.apply(env, f), func)
            if alive_t and alive_f:
                out = {}
                for k in set(env_t) | set(env_f):
                    a, b = env_t.get(k), env_f.get(k)
                    if a is not None and b is not None:
                        out[k] = join(a, b)
                    elif k in env_t and k in env_f:
                        out[k] = a or b
                    else:
                        out[k] = a or b
                return out, True
            if alive_t:
                return env_t, True
            if alive_f:
                return env_f, True
            return env, False
        if isinstance(st, (ast.For, ast.AsyncFor)):
            it = self.ev(st.iter, env, func)
            env2 = dict(env)
            if it is not None and it.kind in ('elems', 'result'):
                self.bind_target(st.target, it, env2, func, st)
            self._loop_ends.append([])
            self._loop_broke.append(False)
            env_b, alive_b = self.block(st.body, env2, func)
            ends = self._loop_ends.pop()
            broke = self._loop_broke.pop()
            if alive_b:
                ends.append(env_b)
            if ends:
                # the state at the end of an iteration: the body's end or
                # any `continue`
                env_b = dict(ends[0])
                for other in ends[1:]:
                    for k in set(env_b) | set(other):
                        a, b = env_b.get(k), other.get(k)
                        env_b[k] = join(a, b) if a is not None and \
                            b is not None else (a or b)
            out = dict(env)
            # names assigned in the body survive the loop
            for k, v in env_b.items():
                if k not in env2 or env2[k] is not v:
                    if not (isinstance(st.target, ast.Name) and
                            k == st.target.id):
                        out[k] = join(out.get(k), v) if k in out else v
            # validation: the loop narrowed its element variable
            if it is not None and it.kind == 'elems' and not broke and \
                    isinstance(st.target, ast.Name) and \
                    isinstance(st.iter, ast.Name):
                after = env_b.get(st.target.id)
                def base(ss):
                    return {x[:2] if x[0] == 'obj' else x for x in ss}
                if after is not None and after.kind == 'elem' and \
                        base(after.shapes) != base(it.shapes) and \
                        base(after.shapes) <= base(it.shapes):
                    out[st.iter.id] = AV('elems', after.shapes, True,
                                         origin=it.origin)
            if it is not None and it.kind == 'elems' and \
                    isinstance(st.target, ast.Tuple) and \
                    isinstance(st.iter, ast.Name):
                n = len(st.target.elts)
                okshapes = frozenset(s for s in it.shapes
                                     if s[0] == 'tuple' and s[1] == n)
                if okshapes == it.shapes:
                    out[st.iter.id] = AV('elems', okshapes, True,
                                         origin=it.origin)
            self.block(st.orelse, out, func)
            return out, True
        if isinstance(st, ast.While):
            self.block(st.body, env, func)
            return env, True
        if isinstance(st, ast.Try):
            env_b, alive = self.block(st.body, env, func)
            for h in st.handlers:
                self.block(h.body, env, func)
            if st.orelse and alive:
                env_b, alive = self.block(st.orelse, env_b, func)
            if st.finalbody:
                self.block(st.finalbody, env_b if alive else env, func)
            return env_b, alive
        if isinstance(st, ast.With):
            return self.block(st.body, env, func)
        return env, True

    def ev_test(self, test, env, func):
        """evaluate the sub-expressions of a test in short-circuit order so
        that `not isinstance(x, tuple) or x[2]` sees the narrowing"""
        if isinstance(test, ast.BoolOp):
            cur = env
            for v in test.values:
                self.ev_test(v, cur, func)
                t, f = self.conds(v, cur, func)
                cur = self.apply(cur, f if isinstance(test.op, ast.Or)
                                 else t)
            return
        if isinstance(test, ast.UnaryOp):
            self.ev_test(test.operand, env, func)
            return
        if isinstance(test, ast.Compare):
            self.ev(test.left, env, func)
            for c in test.comparators:
                self.ev(c, env, func)
            return
        if isinstance(test, ast.Call) and dotted(test.func) == 'isinstance':
            # isinstance(x[2], T): the subscript is a use, isinstance(x, T)
            # is not
            if not isinstance(test.args[0], ast.Name):
                self.ev(test.args[0], env, func)
            return
        self.ev(test, env, func)

    def run(self, func, env):
        self.final = self.block(func.body, env, func)
        return self.returns
