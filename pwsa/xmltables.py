"""E8 - writer tables of pywbem/_cim_xml.py and reader tables of
TupleParser (shared by C01 and C03)."""
import ast

from .model import (AnalysisError, walk_no_nested, dotted, norm, const_str,
                    fold_const, NotConst)

XML = 'pywbem/_cim_xml.py'
TP = 'pywbem/_tupleparse.py'


class Writer:
    def __init__(self, cls):
        self.cls = cls
        self.element = None
        self.uncond = set()      # attributes always emitted
        self.cond = set()        # attributes emitted conditionally
        self.dynamic = []        # non-literal attribute names
        self.children = []       # (how, arg text, conditional)
        self.text_children = False
        init = cls.methods.get('__init__')
        self.init = init
        if init is None:
            return

        def walk(stmts, cond):
            for s in stmts:
                if isinstance(s, ast.If):
                    walk(s.body, True)
                    walk(s.orelse, True)
                    continue
                if isinstance(s, (ast.For, ast.While)):
                    walk(s.body, True)
                    continue
                for c in ast.walk(s):
                    if not isinstance(c, ast.Call):
                        continue
                    d = dotted(c.func) or ''
                    if d.endswith('.__init__') and len(c.args) >= 2 and \
                            const_str(c.args[1]) is not None:
                        self.element = const_str(c.args[1])
                    elif d == 'super().__init__' and c.args and \
                            const_str(c.args[0]) is not None:
                        self.element = const_str(c.args[0])
                    elif d == 'self.setName':
                        (self.cond if cond else self.uncond).add('NAME')
                    elif d == 'self.setAttribute' and c.args:
                        k = const_str(c.args[0])
                        if k is None:
                            self.dynamic.append(norm(c.args[0]))
                        else:
                            (self.cond if cond else self.uncond).add(k)
                    elif d == 'self.setOptionalAttribute' and c.args:
                        k = const_str(c.args[0])
                        if k is None:
                            self.dynamic.append(norm(c.args[0]))
                        else:
                            self.cond.add(k)
                    elif d in ('self.appendChild', 'self.appendChildren',
                               'self.appendOptionalChild') and c.args:
                        a = c.args[0]
                        if isinstance(a, ast.Call) and \
                                dotted(a.func) in ('_pcdata_nodes', '_text'):
                            self.text_children = True
                        else:
                            self.children.append((
                                d.split('.')[1], norm(a),
                                cond or d.endswith('OptionalChild') or
                                d.endswith('appendChildren')))
        walk(init.body, False)

    @property
    def attrs(self):
        return self.uncond | self.cond


def writers(repo):
    m = repo.module(XML)
    out = {}
    for c in m.classes.values():
        if c.name == 'CIMElement' or not c.is_subclass_of('CIMElement'):
            continue
        w = Writer(c)
        if w.element is None:
            raise AnalysisError('_cim_xml.%s: element name not found'
                                % c.name)
        out[w.element] = w
    if len(out) < 55:
        raise AnalysisError('only %d CIM-XML writer classes found' % len(out))
    return out


class Reader:
    def __init__(self, func, call):
        self.func = func
        self.element = const_str(call.args[1])

        def tup(node):
            if node is None:
                return set()
            try:
                v = fold_const(node)
            except NotConst:
                return None
            return set(v) if v is not None else set()
        args = list(call.args[2:])
        kw = {k.arg: k.value for k in call.keywords}
        self.required = tup(args[0] if len(args) > 0
                            else kw.get('required_attrs'))
        self.optional = tup(args[1] if len(args) > 1
                            else kw.get('optional_attrs'))
        ch = args[2] if len(args) > 2 else kw.get('allowed_children')
        self.children = tup(ch) if ch is not None else None
        ap = kw.get('allow_pcdata')
        self.pcdata = ap is not None and norm(ap) == 'True'


def readers(repo):
    tp = repo.cls(TP, 'TupleParser')
    out = {}
    for n, f in tp.methods.items():
        if not n.startswith('parse_'):
            continue
        for c in walk_no_nested(f.node):
            if isinstance(c, ast.Call) and \
                    dotted(c.func) == 'self.check_node' and len(c.args) >= 2 \
                    and const_str(c.args[1]) is not None:
                r = Reader(f, c)
                out[r.element] = r
    if len(out) < 45:
        raise AnalysisError('only %d check_node tables found' % len(out))
    return out


def parse_method_name(element):
    return 'parse_' + element.lower().replace('.', '_')


def constructed_elements(repo):
    """{element class name: [(file, func, line)]} for _cim_xml.X(...) calls
    outside _cim_xml.py."""
    out = {}
    for m in repo.modules.values():
        if m.relpath == XML or m.relpath.startswith('pywbem/_vendor'):
            continue
        for f in m.all_funcs():
            for c in walk_no_nested(f.node):
                if isinstance(c, ast.Call):
                    d = dotted(c.func) or ''
                    if d.startswith('_cim_xml.') and d.count('.') == 1:
                        out.setdefault(d.split('.')[1], []).append(
                            (m.relpath, f.qualname, c.lineno, c))
    return out


def attr_aliases(func):
    """local names bound to the attribute dict of the element being parsed
    (`x = attrs(tup_tree)`), plus the textual form of the direct call"""
    out = set()
    for n in walk_no_nested(func.node):
        if isinstance(n, ast.Assign) and len(n.targets) == 1 and \
                isinstance(n.targets[0], ast.Name) and \
                isinstance(n.value, ast.Call) and \
                dotted(n.value.func) == 'attrs':
            out.add(n.targets[0].id)
    return out


def is_attr_dict(expr, func, aliases=None):
    if isinstance(expr, ast.Call) and dotted(expr.func) == 'attrs':
        return True
    if isinstance(expr, ast.Name):
        return expr.id in (aliases if aliases is not None
                           else attr_aliases(func))
    return False
