"""Truthiness tests of values whose empty state is meaningful.

`truthiness_uses(func, is_name)` returns the Name / Attribute nodes that are
used for their truth value (`if x`, `if not x`, `x and ...`, `x or ...`,
`while x`, `a if x else b`, `assert x`) and for which is_name(node) holds.
"""
import ast

from .model import walk_no_nested


def _collect(t, is_name, out):
    if isinstance(t, ast.BoolOp):
        for v in t.values:
            _collect(v, is_name, out)
    elif isinstance(t, ast.UnaryOp) and isinstance(t.op, ast.Not):
        _collect(t.operand, is_name, out)
    elif isinstance(t, (ast.Name, ast.Attribute)) and is_name(t):
        out.append(t)


def truthiness_uses(func, is_name):
    out = []
    for n in walk_no_nested(func.node):
        tests = []
        if isinstance(n, (ast.If, ast.While, ast.IfExp, ast.Assert)):
            tests.append(n.test)
        elif isinstance(n, ast.BoolOp):
            tests.append(n)
        for t in tests:
            _collect(t, is_name, out)
    seen = set()
    uniq = []
    for x in out:
        if id(x) not in seen:
            seen.add(id(x))
            uniq.append(x)
    return uniq
