"""pwsa - pywbem static analysis (stdlib only; never imports or runs pywbem)."""
