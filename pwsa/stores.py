"""Role-based recognition of the mock repository's object stores.

A *store expression* is
  - a local name assigned from <repo>.get_instance_store(...) /
    get_class_store(...) / get_qualifier_store(...),
  - such a call itself,
  - or (fallback, for parameters handed down to helpers) a name or attribute
    whose text ends in `_store`.
"""
import ast

from .model import walk_no_nested, dotted

_GETTERS = {'get_instance_store': 'instance', 'get_class_store': 'class',
            'get_qualifier_store': 'qualifier'}
_CACHE = {}


def store_vars(func):
    """{local name: kind} for locals bound to a store"""
    key = id(func.node)
    if key in _CACHE:
        return _CACHE[key]
    out = {}
    for n in walk_no_nested(func.node):
        if isinstance(n, ast.Assign) and len(n.targets) == 1 and \
                isinstance(n.targets[0], ast.Name) and \
                isinstance(n.value, ast.Call) and \
                isinstance(n.value.func, ast.Attribute) and \
                n.value.func.attr in _GETTERS:
            out[n.targets[0].id] = _GETTERS[n.value.func.attr]
    # parameters named like stores (helpers receive the store as argument)
    for p in func.params:
        if p.endswith('_store') or p.endswith('_repo'):
            kind = 'instance' if 'inst' in p else (
                'class' if 'class' in p else (
                    'qualifier' if 'qual' in p else 'object'))
            out.setdefault(p, kind)
    _CACHE[key] = out
    return out


def store_kind(expr, func):
    """kind of store the expression denotes, or None"""
    if isinstance(expr, ast.Name):
        k = store_vars(func).get(expr.id)
        if k:
            return k
        if expr.id.endswith('_store'):
            return 'instance' if 'inst' in expr.id else (
                'class' if 'class' in expr.id else 'object')
        return None
    if isinstance(expr, ast.Call) and isinstance(expr.func, ast.Attribute) \
            and expr.func.attr in _GETTERS:
        return _GETTERS[expr.func.attr]
    d = dotted(expr) or ''
    if d.endswith('_store'):
        return 'instance' if 'inst' in d else (
            'class' if 'class' in d else 'object')
    return None
