"""Agreement of sibling functions on a shared skeleton.

The 34 WBEMConnection operations were written from one template: the same
two exception handlers around the request, the same finally clause (stop the
timer, hand the result and the exception to the recorders, ...).  What may
differ is slotted out (the operation's own name, the name of its result
variable); everything else must be identical in all siblings.  A sibling
that deviates is reported with the text it has and the text the others have.
"""
import ast
import collections
import re


def _text(nodes, slots):
    s = '\n'.join(ast.unparse(n) for n in nodes)
    for pat, rep_ in slots:
        s = re.sub(pat, rep_, s)
    return s


def compare(family, part, slots_of):
    """family: [(name, func-like)], part(func) -> list of AST nodes or None,
    slots_of(name, func) -> [(regex, replacement)].
    -> (majority text, [(name, text)] deviating, n compared)"""
    texts = {}
    for name, f in family:
        nodes = part(f)
        if nodes is None:
            texts[name] = None
            continue
        texts[name] = _text(nodes, slots_of(name, f))
    cnt = collections.Counter(t for t in texts.values())
    if not cnt:
        return None, [], 0
    major, _n = cnt.most_common(1)[0]
    dev = [(n, t) for n, t in sorted(texts.items()) if t != major]
    return major, dev, len(texts)


def first_difference(a, b):
    """the first line that differs, as (line of a, line of b)"""
    la = (a or '').split('\n')
    lb = (b or '').split('\n')
    for x, y in zip(la, lb):
        if x != y:
            return x.strip(), y.strip()
    if len(la) != len(lb):
        longer = la if len(la) > len(lb) else lb
        extra = longer[min(len(la), len(lb))].strip()
        return (extra, '(missing)') if longer is la else ('(missing)', extra)
    return '', ''
