"""E5 - small dataflow helpers on the statement CFG: definite assignment,
must-precede, simple taint."""
import ast

from .cfg import CFG
from .model import walk_no_nested, norm


def _stores(st):
    """Names bound by statement st itself (not by nested statements of a
    compound statement)."""
    out = set()

    def targets(t):
        for n in ast.walk(t):
            if isinstance(n, ast.Name) and isinstance(n.ctx, (ast.Store,)):
                out.add(n.id)
    if isinstance(st, ast.Assign):
        for t in st.targets:
            targets(t)
    elif isinstance(st, (ast.AugAssign, ast.AnnAssign)):
        if not (isinstance(st, ast.AnnAssign) and st.value is None):
            targets(st.target)
    elif isinstance(st, (ast.For, ast.AsyncFor)):
        targets(st.target)
    elif isinstance(st, (ast.With, ast.AsyncWith)):
        for it in st.items:
            if it.optional_vars is not None:
                targets(it.optional_vars)
    elif isinstance(st, (ast.Import, ast.ImportFrom)):
        for a in st.names:
            out.add((a.asname or a.name).split('.')[0])
    elif isinstance(st, (ast.FunctionDef, ast.AsyncFunctionDef,
                         ast.ClassDef)):
        out.add(st.name)
    elif isinstance(st, ast.ExceptHandler):
        if st.name:
            out.add(st.name)
    # walrus anywhere in the statement's own expressions
    for n in _own_exprs(st):
        for x in ast.walk(n):
            if isinstance(x, ast.NamedExpr) and isinstance(x.target, ast.Name):
                out.add(x.target.id)
    return out


def _own_exprs(st):
    """Expressions evaluated by the CFG node `st` itself."""
    if isinstance(st, ast.If) or isinstance(st, ast.While):
        return [st.test]
    if isinstance(st, (ast.For, ast.AsyncFor)):
        return [st.iter]
    if isinstance(st, (ast.With, ast.AsyncWith)):
        return [it.context_expr for it in st.items]
    if isinstance(st, ast.Try):
        return []
    if isinstance(st, ast.ExceptHandler):
        return [st.type] if st.type is not None else []
    if isinstance(st, (ast.FunctionDef, ast.AsyncFunctionDef, ast.ClassDef)):
        return list(st.decorator_list)
    if hasattr(ast, 'Match') and isinstance(st, ast.Match):
        return [st.subject]
    return [st]


def _loads(st):
    out = []
    for e in _own_exprs(st):
        comp_bound = set()
        for n in ast.walk(e):
            if isinstance(n, ast.comprehension):
                for x in ast.walk(n.target):
                    if isinstance(x, ast.Name):
                        comp_bound.add(x.id)
            if isinstance(n, ast.Lambda):
                for a in n.args.args + n.args.kwonlyargs:
                    comp_bound.add(a.arg)
        for n in walk_no_nested(e):
            if isinstance(n, ast.Name) and isinstance(n.ctx, ast.Load) and \
                    n.id not in comp_bound:
                out.append(n)
    return out


def possibly_unbound(func):
    """[(name, use_stmt, name_node)] where a local name may be read on a
    path from function entry that passes no binding of it."""
    node = func.node
    params = set(func.params)
    cfg = CFG(node)
    declared_global = set()
    for n in walk_no_nested(node):
        if isinstance(n, (ast.Global, ast.Nonlocal)):
            declared_global.update(n.names)
    binders = {}
    for st in cfg.nodes:
        if isinstance(st, (ast.stmt, ast.ExceptHandler)):
            for name in _stores(st):
                binders.setdefault(name, set()).add(st)
    out = []
    for st in cfg.nodes:
        if not isinstance(st, (ast.stmt, ast.ExceptHandler)):
            continue
        for nm in _loads(st):
            name = nm.id
            if name in params or name in declared_global or \
                    name not in binders:
                continue
            bs = binders[name]
            if st in bs and isinstance(st, (ast.For, ast.AsyncFor)):
                # `for x in f(x)` - iter evaluated before binding
                pass
            if st is cfg.ENTRY:
                continue
            # a path from the entry to the use on which no binding of the
            # name completes: a binding statement is passed only through
            # its exception edge (its right-hand side raised, nothing was
            # bound)
            seen = {cfg.ENTRY}
            work = [cfg.ENTRY]
            found = False
            while work and not found:
                a = work.pop()
                for b in cfg.succ[a]:
                    if a in bs:
                        simple = isinstance(a, (ast.Assign, ast.AnnAssign,
                                                ast.AugAssign))
                        if not simple or \
                                cfg.label.get((a, b)) != {'exc'}:
                            continue
                    if b is st:
                        found = True
                        break
                    if b not in seen:
                        seen.add(b)
                        work.append(b)
            if found:
                out.append((name, st, nm))
    return out


def value_of(func, expr, depth=0):
    """the expression `expr` stands for inside `func`, as far as that is
    evident from the shape of the code: a local that is assigned exactly
    once (and is no parameter) is replaced by its definition, the call of a
    private same-class / same-module helper that has a single `return` by
    the value that helper returns (seen the same way, its parameters left
    as they are).  The result is a new tree; sub-expressions are resolved
    too.  Used to read constants that a refactoring moved into a local or a
    small helper."""
    import ast
    import copy
    from .model import walk_no_nested
    from .paths import _helper_of
    if expr is None or depth > 4:
        return expr
    params = set(getattr(func, 'params', ()) or ())

    def single_def(name):
        if name in params:
            return None
        defs = []
        for n in walk_no_nested(func.node):
            if isinstance(n, ast.Assign):
                for t in n.targets:
                    if isinstance(t, ast.Name) and t.id == name:
                        defs.append(n.value)
                    elif any(isinstance(x, ast.Name) and x.id == name
                             for x in ast.walk(t)
                             if not isinstance(t, ast.Name)) and \
                            isinstance(t, (ast.Tuple, ast.List)):
                        defs.append(None)
            elif isinstance(n, (ast.AugAssign, ast.AnnAssign, ast.For,
                                ast.With, ast.NamedExpr)):
                tg = getattr(n, 'target', None)
                if tg is not None and any(
                        isinstance(x, ast.Name) and x.id == name
                        for x in ast.walk(tg)):
                    defs.append(None)
        return defs[0] if len(defs) == 1 and defs[0] is not None else None

    class R(ast.NodeTransformer):
        def visit_Name(self, node):
            if isinstance(node.ctx, ast.Load):
                d = single_def(node.id)
                if d is not None:
                    return value_of(func, copy.deepcopy(d), depth + 1)
            return node

        def visit_Call(self, node):
            self.generic_visit(node)
            h = _helper_of(func, node) if hasattr(func, 'cls') else None
            if h is not None:
                from .paths import _bind_args
                binding = _bind_args(h, node)
                rets = [r for r in walk_no_nested(h.node)
                        if isinstance(r, ast.Return)]
                rebound = {x.id for x in ast.walk(h.node)
                           if isinstance(x, ast.Name) and
                           isinstance(x.ctx, (ast.Store, ast.Del))}
                if binding is not None and len(rets) == 1 and \
                        rets[0].value is not None and \
                        not (set(binding) & rebound):
                    val = value_of(h, copy.deepcopy(rets[0].value),
                                   depth + 1)

                    class B(ast.NodeTransformer):
                        def visit_Name(self, n):
                            if isinstance(n.ctx, ast.Load) and \
                                    n.id in binding:
                                return copy.deepcopy(binding[n.id])
                            return n
                    return B().visit(val)
            return node

        def visit_Lambda(self, node):
            return node
    return R().visit(copy.deepcopy(expr))
