"""E7 - reader for the DSP0203 CIM-XML DTD (tests/dtd/DSP0203_2.3.1.dtd).

Entities are expanded textually; <!ELEMENT name model> gives the content
model (kept as text plus the set of child names, EMPTY / #PCDATA flags and
top-level particle count); <!ATTLIST ...> gives
{attr: {'type': 'CDATA'|'NMTOKEN'|[enum], 'default': '#REQUIRED'|'#IMPLIED'|
literal}}.
"""
import re

from .model import AnalysisError


class DTD:
    def __init__(self, text):
        text = re.sub(r'<!--.*?-->', ' ', text, flags=re.S)
        self.entities = {}
        for m in re.finditer(r'<!ENTITY\s+%\s+(\w+)\s+"([^"]*)"\s*>', text,
                             re.S):
            self.entities[m.group(1)] = m.group(2)

        def expand(s, depth=0):
            if depth > 5:
                return s
            return re.sub(r'%(\w+);', lambda m: expand(
                self.entities.get(m.group(1), ''), depth + 1), s)
        self.elements = {}
        for m in re.finditer(r'<!ELEMENT\s+([\w.]+)\s+(.*?)>', text, re.S):
            model = ' '.join(expand(m.group(2)).split())
            self.elements[m.group(1)] = model
        self.attlists = {}
        for m in re.finditer(r'<!ATTLIST\s+([\w.]+)\s+(.*?)>', text, re.S):
            body = expand(m.group(2))
            self.attlists.setdefault(m.group(1), {}).update(
                self._attrs(body))
        if len(self.elements) < 50:
            raise AnalysisError('DTD: only %d elements parsed'
                                % len(self.elements))

    @staticmethod
    def _attrs(body):
        out = {}
        tok = re.compile(r"""\s*(
            \([^)]*\) | '[^']*' | "[^"]*" | \#\w+ | [\w:.\-]+ )""", re.X)
        toks = [m.group(1) for m in tok.finditer(body)]
        i = 0
        while i < len(toks):
            name = toks[i]
            if i + 1 >= len(toks):
                break
            typ = toks[i + 1]
            if typ.startswith('('):
                typ = [x.strip() for x in typ[1:-1].split('|')]
            i += 2
            default = None
            if i < len(toks) and (toks[i].startswith('#') or
                                  toks[i][0] in '\'"'):
                default = toks[i]
                if default[0] in '\'"':
                    default = default[1:-1]
                i += 1
                if default == '#FIXED' and i < len(toks):
                    default = toks[i].strip('\'"')
                    i += 1
            out[name] = {'type': typ, 'default': default}
        return out

    def required(self, elem):
        return {a for a, d in self.attlists.get(elem, {}).items()
                if d['default'] == '#REQUIRED'}

    def attrs(self, elem):
        return set(self.attlists.get(elem, {}))

    def children(self, elem):
        model = self.elements.get(elem, '')
        return set(re.findall(r'[A-Z][A-Z0-9_.]*', model)) - {'EMPTY',
                                                               'PCDATA',
                                                               'ANY'}

    def is_empty(self, elem):
        return self.elements.get(elem, '').strip() == 'EMPTY'

    def is_pcdata(self, elem):
        return '#PCDATA' in self.elements.get(elem, '')


def load(repo):
    from .model import DTD_PATH
    return DTD(repo.read_text(DTD_PATH))
