"""Finite value sets of object-model attributes.

`attr_values(cls, attr)` - the set of values attribute `attr` of repo class
`cls` can hold, when its property setter stores the parameter only on paths
that have established membership in a constant table
(`if type not in ALL_CIMTYPES: raise`), or stores `_ensure_bool(x)`
(None / True / False).  None if the setter does not pin the values down.

`refine(values, subject_text, facts)` - the subset compatible with branch
facts about the same expression (`== c`, `!= c`, `in (..)`, `not in (..)`).
"""
import ast

from .cfg import stmt_facts, GuardWalker
from .model import (norm, dotted, walk_no_nested, fold_const, NotConst,
                    module_env)


def attr_values(repo, cls, attr):
    st = cls.find_setter(attr)
    if st is None:
        return None
    params = [p for p in st.params if p != 'self']
    if not params:
        return None
    p = params[0]
    mod = st.module
    env = module_env(repo, mod, cls)
    stores = [(s, fs) for s, (fs, _t) in stmt_facts(st.node).items()
              if isinstance(s, ast.Assign) and
              any(norm(t) == 'self._' + attr for t in s.targets)]
    if not stores:
        return None
    out = set()
    for s, fs in stores:
        v = s.value
        if isinstance(v, ast.Call) and dotted(v.func) == '_ensure_bool':
            out |= {None, True, False}
            continue
        if isinstance(v, ast.Call) and dotted(v.func) == '_ensure_unicode' \
                and v.args:
            v = v.args[0]
        if not (isinstance(v, ast.Name) and v.id == p):
            return None
        table = None
        for t, pol in fs:
            for a, q in GuardWalker._atoms(t, pol):
                if isinstance(a, ast.Compare) and len(a.ops) == 1 and \
                        norm(a.left) == p and \
                        ((isinstance(a.ops[0], ast.NotIn) and not q) or
                         (isinstance(a.ops[0], ast.In) and q)):
                    try:
                        table = set(fold_const(a.comparators[0], env))
                    except (NotConst, TypeError):
                        table = None
        if table is None:
            return None
        # further conditions on the parameter (`== 'reference': raise`)
        out |= refine(table, p, fs)
    return out


def refine(values, subject, facts):
    vals = set(values)
    for t, pol in facts:
        for a, q in GuardWalker._atoms(t, pol):
            if not (isinstance(a, ast.Compare) and len(a.ops) == 1 and
                    norm(a.left) == subject):
                continue
            op, r = a.ops[0], a.comparators[0]
            try:
                c = fold_const(r)
            except (NotConst, TypeError):
                continue
            if isinstance(op, (ast.Eq, ast.NotEq)):
                keep_eq = isinstance(op, ast.Eq) == q
                vals = {v for v in vals if (v == c) == keep_eq}
            elif isinstance(op, (ast.In, ast.NotIn)):
                try:
                    cs = set(c)
                except TypeError:
                    continue
                keep_in = isinstance(op, ast.In) == q
                vals = {v for v in vals if (v in cs) == keep_in}
            elif isinstance(op, (ast.Is, ast.IsNot)) and c is None:
                keep = isinstance(op, ast.Is) == q
                vals = {v for v in vals if (v is None) == keep}
    return vals


def class_const_values(repo, classnames, attr):
    """values of class attribute `attr` over the named repo classes and
    their subclasses (None entries skipped); None if a class is unknown"""
    out = set()
    for cn in classnames:
        c = repo.find_class(cn)
        if c is None:
            return None
        for k in repo.subclasses_of(cn):
            v = k.consts.get(attr)
            if v is None:
                continue
            try:
                fv = fold_const(v)
            except (NotConst, TypeError):
                return None
            if fv is not None:
                out.add(fv)
    return out


def local_values(repo, func, name):
    """union of the values assigned to local `name` anywhere in func:
    literals, and `x.attr` where an isinstance fact at the assignment names
    the classes of x and attr is a class constant; None if some assignment
    has another form"""
    out = set()
    found = False
    for st, (fs, _t) in stmt_facts(func.node).items():
        if not (isinstance(st, ast.Assign) and any(
                isinstance(t, ast.Name) and t.id == name
                for t in st.targets)):
            continue
        found = True
        v = st.value
        if isinstance(v, ast.Constant):
            out.add(v.value)
            continue
        if isinstance(v, ast.Attribute) and isinstance(v.value, ast.Name):
            classes = None
            for t, pol in fs:
                for a, q in GuardWalker._atoms(t, pol):
                    if q and isinstance(a, ast.Call) and \
                            dotted(a.func) == 'isinstance' and \
                            norm(a.args[0]) == v.value.id:
                        tt = a.args[1]
                        classes = [norm(x) for x in (
                            tt.elts if isinstance(tt, ast.Tuple) else [tt])]
            if classes:
                cv = class_const_values(repo, classes, v.attr)
                if cv is not None:
                    out |= cv
                    continue
        return None
    return out if found else None
