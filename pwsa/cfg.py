"""E2 - statement-level CFG, dominators, and a syntax-directed guard walker.

CFG nodes are ast statement nodes (compound statements stand for their
header: an `If` node is its test, a `For` node its iteration step, a `Try`
node the entry of the try block, a `With` node the context entry).  Three
synthetic nodes: ENTRY, EXIT (normal return / fall off the end) and RAISE
(exception leaves the function).

Exception edges are added (a) from `raise`/`assert`, and (b) from every
statement inside a `try` body to each of its handlers (any statement may
raise).  Outside a `try`, implicit exceptions of ordinary statements are not
edges (the escape analysis E3 deals with them); this keeps dominance facts
meaningful.  `finally` bodies are entered from every exit of the protected
region and continue both to the normal successor and to the pending
return/raise target (over-approximation: more paths, hence conservative for
must-pass-through / dominance claims).
"""
import ast


class Node:
    __slots__ = ('kind',)

    def __init__(self, kind):
        self.kind = kind

    def __repr__(self):
        return '<%s>' % self.kind


class CFG:
    def __init__(self, funcnode):
        self.func = funcnode
        self.ENTRY = Node('ENTRY')
        self.EXIT = Node('EXIT')
        self.RAISE = Node('RAISE')
        self.succ = {}
        self.pred = {}
        self.label = {}      # (a, b) -> set of labels
        self.nodes = []
        self.parent_try = {}  # stmt -> innermost (Try, part)
        for n in (self.ENTRY, self.EXIT, self.RAISE):
            self._add(n)
        body = funcnode.body
        # frames: loop stack (continue_target, break_targets list),
        # try stack for handlers/finally
        self._loops = []
        self._trys = []      # list of dicts
        ends = self._block(body, [(self.ENTRY, None)])
        for e, lab in ends:
            self._edge(e, self.EXIT, lab)
        self._dom = None
        self._pdom = None

    # ------------------------------------------------------------------
    def _add(self, n):
        if n not in self.succ:
            self.succ[n] = []
            self.pred[n] = []
            self.nodes.append(n)

    def _edge(self, a, b, lab=None):
        self._add(a)
        self._add(b)
        if b not in self.succ[a]:
            self.succ[a].append(b)
            self.pred[b].append(a)
        self.label.setdefault((a, b), set()).add(lab)

    def _connect(self, preds, n):
        for p, lab in preds:
            self._edge(p, n, lab)

    def _exc_targets(self):
        """Where an exception raised *here* goes: innermost enclosing try
        region's handlers (if in its body), else its finally, else outward."""
        out = []
        for fr in reversed(self._trys):
            if fr['part'] == 'body':
                if fr['handlers']:
                    out.extend(fr['handlers'])
                    # an exception not matched by any handler continues
                    # outward unless a catch-all handler exists
                    if fr['catch_all']:
                        return out
                    if fr['finally'] is not None:
                        out.append(fr['finally'])
                        fr['fin_pending'].add('raise')
                        return out
                    continue
                if fr['finally'] is not None:
                    out.append(fr['finally'])
                    fr['fin_pending'].add('raise')
                    return out
            elif fr['part'] in ('handler', 'else'):
                if fr['finally'] is not None:
                    out.append(fr['finally'])
                    fr['fin_pending'].add('raise')
                    return out
            # part == 'finally': exception propagates outward
        out.append(self.RAISE)
        return out

    def _jump_through_finally(self, src, lab, kind, final_target):
        """return/break/continue from src: pass through enclosing finally
        blocks (innermost first) up to the frame boundary."""
        for fr in reversed(self._trys):
            if kind in ('break', 'continue') and \
                    fr['loop_depth'] < len(self._loops):
                # try is outside the loop being left: stop
                break
            if fr['part'] != 'finally' and fr['finally'] is not None:
                self._edge(src, fr['finally'], lab)
                fr['fin_pending'].add((kind, final_target))
                return
        self._edge(src, final_target, lab)

    def _block(self, stmts, preds):
        """Wire a statement list; preds = [(node, label)] flowing into it.
        Returns the list of (node, label) that fall out of the block."""
        for st in stmts:
            preds = self._stmt(st, preds)
        return preds

    def _stmt(self, st, preds):
        self._add(st)
        self._connect(preds, st)
        if self._trys:
            fr = self._trys[-1]
            self.parent_try[st] = (fr['node'], fr['part'])
            # any statement in a try body may raise into the handlers
            if any(f['part'] == 'body' for f in self._trys):
                for t in self._exc_targets():
                    if t is not self.RAISE:
                        self._edge(st, t, 'exc')
        if isinstance(st, ast.If):
            b = self._block(st.body, [(st, True)])
            if st.orelse:
                o = self._block(st.orelse, [(st, False)])
            else:
                o = [(st, False)]
            return b + o
        if isinstance(st, (ast.For, ast.AsyncFor, ast.While)):
            brk = []
            self._loops.append({'head': st, 'breaks': brk})
            b = self._block(st.body, [(st, True)])
            self._loops.pop()
            for e, lab in b:
                self._edge(e, st, lab)
            infinite = isinstance(st, ast.While) and \
                isinstance(st.test, ast.Constant) and bool(st.test.value)
            out = []
            if st.orelse:
                out = self._block(st.orelse, [(st, False)])
            elif not infinite:
                out = [(st, False)]
            return out + brk
        if isinstance(st, (ast.With, ast.AsyncWith)):
            return self._block(st.body, [(st, None)])
        if isinstance(st, ast.Try) or \
                (hasattr(ast, 'TryStar') and isinstance(st, ast.TryStar)):
            return self._try(st)
        if isinstance(st, ast.Return):
            self._jump_through_finally(st, None, 'return', self.EXIT)
            return []
        if isinstance(st, ast.Raise):
            for t in self._exc_targets():
                self._edge(st, t, 'exc')
            return []
        if isinstance(st, ast.Assert):
            for t in self._exc_targets():
                self._edge(st, t, 'exc')
            return [(st, None)]
        if isinstance(st, ast.Break):
            if self._loops:
                lp = self._loops[-1]
                # through finally blocks inside the loop
                done = False
                for fr in reversed(self._trys):
                    if fr['loop_depth'] < len(self._loops):
                        break
                    if fr['part'] != 'finally' and fr['finally'] is not None:
                        self._edge(st, fr['finally'], None)
                        fr['fin_pending'].add(('break', lp))
                        done = True
                        break
                if not done:
                    lp['breaks'].append((st, None))
            return []
        if isinstance(st, ast.Continue):
            if self._loops:
                lp = self._loops[-1]
                done = False
                for fr in reversed(self._trys):
                    if fr['loop_depth'] < len(self._loops):
                        break
                    if fr['part'] != 'finally' and fr['finally'] is not None:
                        self._edge(st, fr['finally'], None)
                        fr['fin_pending'].add(('continue', lp))
                        done = True
                        break
                if not done:
                    self._edge(st, lp['head'], None)
            return []
        if hasattr(ast, 'Match') and isinstance(st, ast.Match):
            out = []
            for case in st.cases:
                out += self._block(case.body, [(st, None)])
            return out + [(st, None)]
        return [(st, None)]

    def _try(self, st):
        fin = None
        if st.finalbody:
            fin = Node('FINALLY')
            self._add(fin)
        handler_entries = []
        catch_all = False
        for h in st.handlers:
            hn = h
            self._add(hn)
            handler_entries.append(hn)
            if h.type is None:
                catch_all = True
            else:
                names = []
                t = h.type
                for e in (t.elts if isinstance(t, ast.Tuple) else [t]):
                    if isinstance(e, ast.Name):
                        names.append(e.id)
                if 'BaseException' in names:
                    catch_all = True
        fr = {'node': st, 'part': 'body', 'handlers': handler_entries,
              'catch_all': catch_all, 'finally': fin, 'fin_pending': set(),
              'loop_depth': len(self._loops)}
        self._trys.append(fr)
        # the Try node itself is the entry of the protected region
        b = self._block(st.body, [(st, None)])
        fr['part'] = 'else'
        if st.orelse:
            b = self._block(st.orelse, b)
        outs = list(b)
        fr['part'] = 'handler'
        for h in st.handlers:
            outs += self._block(h.body, [(h, None)])
        fr['part'] = 'finally'
        if fin is not None:
            self._connect(outs, fin)
            f_out = self._block(st.finalbody, [(fin, None)])
            pend = fr['fin_pending']
            self._trys.pop()
            result = []
            # normal continuation only if something reaches finally normally
            if outs:
                result = list(f_out)
            for p in pend:
                if p == 'raise':
                    for e, lab in f_out:
                        for t in self._exc_targets():
                            self._edge(e, t, 'exc')
                else:
                    kind, target = p
                    for e, lab in f_out:
                        if kind == 'return':
                            self._jump_through_finally(e, lab, 'return',
                                                       self.EXIT)
                        elif kind == 'break':
                            target['breaks'].append((e, lab))
                        elif kind == 'continue':
                            self._edge(e, target['head'], lab)
            return result
        self._trys.pop()
        return outs

    # ------------------------------------------------------------------
    def reachable(self, start=None):
        start = start or self.ENTRY
        seen = {start}
        st = [start]
        while st:
            n = st.pop()
            for s in self.succ[n]:
                if s not in seen:
                    seen.add(s)
                    st.append(s)
        return seen

    def _dominators(self, entry, succ, pred):
        nodes = [n for n in self._order(entry, succ)]
        allset = set(nodes)
        dom = {n: set(allset) for n in nodes}
        dom[entry] = {entry}
        changed = True
        while changed:
            changed = False
            for n in nodes:
                if n is entry:
                    continue
                ps = [dom[p] for p in pred[n] if p in dom]
                new = set.intersection(*ps) if ps else set()
                new = new | {n}
                if new != dom[n]:
                    dom[n] = new
                    changed = True
        return dom

    def _order(self, entry, succ):
        seen = []
        seen_set = set()
        st = [entry]
        while st:
            n = st.pop()
            if n in seen_set:
                continue
            seen_set.add(n)
            seen.append(n)
            st.extend(reversed(succ[n]))
        return seen

    def dominators(self):
        if self._dom is None:
            self._dom = self._dominators(self.ENTRY, self.succ, self.pred)
        return self._dom

    def dominates(self, a, b):
        """Every path ENTRY -> b passes a (b unreachable -> True)."""
        d = self.dominators()
        if b not in d:
            return True
        return a in d[b]

    def postdominators(self, exit_nodes=None):
        """Post-dominators w.r.t. a virtual sink joining EXIT and RAISE."""
        if self._pdom is None:
            sink = Node('SINK')
            succ = {n: list(s) for n, s in self.succ.items()}
            pred = {n: list(p) for n, p in self.pred.items()}
            succ[sink] = []
            pred[sink] = []
            for e in (self.EXIT, self.RAISE):
                succ[e].append(sink)
                pred[sink].append(e)
            self._pdom = self._dominators(sink, pred, succ)
        return self._pdom

    def path_avoiding(self, src, dst, avoid, avoid_edge=None):
        """Is there a path src ->* dst that passes no node for which
        avoid(node) is true (src itself not tested) and no edge for which
        avoid_edge(a, b, labels) is true?  Returns a witness list of nodes
        or None."""
        prev = {src: None}
        st = [src]
        while st:
            n = st.pop()
            for s in self.succ[n]:
                if s in prev and s is not dst:
                    continue
                if avoid_edge is not None and \
                        avoid_edge(n, s, self.label.get((n, s), set())):
                    continue
                if s is dst:
                    if s in prev:
                        # a cycle back to the source
                        out = [s, n]
                        while prev[out[-1]] is not None:
                            out.append(prev[out[-1]])
                        return list(reversed(out))
                    prev[s] = n
                    out = [s]
                    while prev[out[-1]] is not None:
                        out.append(prev[out[-1]])
                    return list(reversed(out))
                if avoid(s):
                    continue
                prev[s] = n
                st.append(s)
        return None

    def stmts(self):
        return [n for n in self.nodes if isinstance(n, ast.stmt)]


# ---------------------------------------------------------------------------
# Syntax-directed guard walker
# ---------------------------------------------------------------------------

def always_exits(stmts):
    """The statement list cannot fall through (ends in raise/return/
    continue/break, or an if/try all of whose branches do)."""
    if not stmts:
        return False
    last = stmts[-1]
    if isinstance(last, (ast.Raise, ast.Return, ast.Continue, ast.Break)):
        return True
    if isinstance(last, ast.If):
        return always_exits(last.body) and always_exits(last.orelse)
    if isinstance(last, ast.Try):
        if last.finalbody and always_exits(last.finalbody):
            return True
        main = always_exits(last.orelse) if last.orelse else \
            always_exits(last.body)
        return main and all(always_exits(h.body) for h in last.handlers)
    if isinstance(last, (ast.With, ast.AsyncWith)):
        return always_exits(last.body)
    return False


class GuardWalker:
    """Walk a function body; call visit(stmt, facts) for every statement,
    where facts is a tuple of (test_expr, polarity) known to hold when the
    statement starts.  Facts are invalidated conservatively: when a name
    occurring in a fact's test is (re)assigned, the fact is dropped.

    Also calls visit_expr_guard for sub-expressions guarded by short-circuit
    operators / conditional expressions via `expr_facts`."""

    def __init__(self, funcnode, visit):
        self.visit = visit
        self.func = funcnode
        self.try_stack = []
        self.loop_depth = 0

    def run(self):
        self._block(self.func.body, ())

    @staticmethod
    def _names(expr):
        return {n.id for n in ast.walk(expr) if isinstance(n, ast.Name)}

    @staticmethod
    def _assigned(st):
        out = set()
        for n in ast.walk(st):
            if isinstance(n, ast.Name) and isinstance(n.ctx, (ast.Store,
                                                              ast.Del)):
                out.add(n.id)
            elif isinstance(n, (ast.Attribute, ast.Subscript)) and \
                    isinstance(n.ctx, (ast.Store, ast.Del)):
                # x.a = ... invalidates facts about x.a (tracked by text)
                b = n
                while isinstance(b, (ast.Attribute, ast.Subscript)):
                    b = b.value
                if isinstance(b, ast.Name):
                    out.add('@' + ast.unparse(n))
        return out

    def _kill(self, facts, st):
        ass = self._assigned(st)
        if not ass:
            return facts
        names = {a for a in ass if not a.startswith('@')}
        texts = {a[1:] for a in ass if a.startswith('@')}
        keep = []
        for f in facts:
            t = f[0]
            if self._names(t) & names:
                continue
            if texts:
                s = ast.unparse(t)
                if any(x in s for x in texts):
                    continue
            keep.append(f)
        return tuple(keep)

    @staticmethod
    def _atoms(test, pol):
        """((test, pol), ...) plus what follows from it: the conjuncts of a
        true `and`, the negated disjuncts of a false `or`, the operand of
        `not` with flipped polarity"""
        out = [(test, pol)]
        work = [(test, pol)]
        while work:
            t, p_ = work.pop()
            if isinstance(t, ast.BoolOp):
                if (isinstance(t.op, ast.And) and p_) or \
                        (isinstance(t.op, ast.Or) and not p_):
                    for v in t.values:
                        out.append((v, p_))
                        work.append((v, p_))
            elif isinstance(t, ast.UnaryOp) and isinstance(t.op, ast.Not):
                out.append((t.operand, not p_))
                work.append((t.operand, not p_))
        return tuple(out)

    def _block(self, stmts, facts):
        """returns facts holding after the block (if it falls through)"""
        for st in stmts:
            facts = self._stmt(st, facts)
        return facts

    def _stmt(self, st, facts):
        self.visit(st, facts, tuple(self.try_stack))
        if isinstance(st, ast.If):
            bf = self._block(st.body, facts + self._atoms(st.test, True))
            of = self._block(st.orelse, facts + self._atoms(st.test, False))
            b_exit = always_exits(st.body)
            o_exit = always_exits(st.orelse) if st.orelse else False
            if b_exit and o_exit:
                return ()
            if b_exit:
                return self._dedupe(of)
            if o_exit:
                return self._dedupe(bf)
            return tuple(f for f in bf if f in of)
        if isinstance(st, (ast.For, ast.AsyncFor, ast.While)):
            inner = self._kill(facts, _Blk(st.body + st.orelse))
            inner = self._kill(inner, st)
            self.loop_depth += 1
            if isinstance(st, ast.While):
                self._block(st.body, inner + self._atoms(st.test, True))
            else:
                self._block(st.body, inner)
            self.loop_depth -= 1
            self._block(st.orelse, inner)
            return inner
        if isinstance(st, (ast.With, ast.AsyncWith)):
            f2 = self._kill(facts, _Hdr(st))
            return self._block(st.body, f2)
        if isinstance(st, ast.Try):
            self.try_stack.append((st, 'body'))
            bf = self._block(st.body, facts)
            self.try_stack.pop()
            killed = self._kill(facts, _Blk(st.body))
            self.try_stack.append((st, 'else'))
            ef = self._block(st.orelse, bf)
            self.try_stack.pop()
            outs = []
            if not always_exits(st.orelse if st.orelse else st.body):
                outs.append(ef)
            for h in st.handlers:
                self.try_stack.append((st, 'handler'))
                hf = self._block(h.body, killed)
                self.try_stack.pop()
                if not always_exits(h.body):
                    outs.append(hf)
            if outs:
                common = [f for f in outs[0]
                          if all(f in o for o in outs[1:])]
            else:
                common = []
            after = tuple(common)
            if st.finalbody:
                self.try_stack.append((st, 'finally'))
                fin_in = self._kill(killed, _Blk(
                    [x for h in st.handlers for x in h.body] + st.orelse))
                self._block(st.finalbody, fin_in)
                self.try_stack.pop()
                after = self._kill(after, _Blk(st.finalbody))
            return after
        if isinstance(st, ast.Assert):
            return self._dedupe(self._kill(facts, st) +
                                self._atoms(st.test, True))
        return self._kill(facts, st)

    @staticmethod
    def _dedupe(facts):
        out = []
        for f in facts:
            if f not in out:
                out.append(f)
        return tuple(out)


class _Blk(ast.AST):
    """Pseudo node wrapping a statement list for ast.walk."""
    _fields = ('body',)

    def __init__(self, body):
        self.body = list(body)


class _Hdr(ast.AST):
    _fields = ('items',)

    def __init__(self, with_stmt):
        self.items = [i for i in with_stmt.items]


def stmt_facts(funcnode):
    """{stmt: (facts, try_stack)} for every statement of the function (not
    descending into nested defs)."""
    out = {}

    def visit(st, facts, trys):
        out[st] = (facts, trys)
    GuardWalker(funcnode, visit).run()
    return out


def expr_guards(root, target):
    """Facts established *inside* an expression for sub-expression `target`
    by short-circuit evaluation: in `a and b`, b is evaluated under a=True;
    `a or b` -> a=False; `x if c else y`; comprehension `if`s."""
    res = []

    def rec(n, facts):
        if n is target:
            res.append(tuple(facts))
            return True
        if isinstance(n, ast.BoolOp):
            acc = list(facts)
            for v in n.values:
                if rec(v, acc):
                    return True
                acc = acc + [(v, isinstance(n.op, ast.And))]
            return False
        if isinstance(n, ast.IfExp):
            if rec(n.test, facts):
                return True
            if rec(n.body, facts + [(n.test, True)]):
                return True
            return rec(n.orelse, facts + [(n.test, False)])
        if isinstance(n, (ast.ListComp, ast.SetComp, ast.GeneratorExp,
                          ast.DictComp)):
            acc = list(facts)
            for g in n.generators:
                if rec(g.iter, acc):
                    return True
                for c in g.ifs:
                    if rec(c, acc):
                        return True
                    acc = acc + [(c, True)]
            elts = [n.key, n.value] if isinstance(n, ast.DictComp) \
                else [n.elt]
            for e in elts:
                if rec(e, acc):
                    return True
            return False
        for c in ast.iter_child_nodes(n):
            if isinstance(c, (ast.FunctionDef, ast.AsyncFunctionDef,
                              ast.ClassDef)):
                continue
            if rec(c, facts):
                return True
        return False
    rec(root, [])
    return res[0] if res else ()


def enclosing_stmt_map(funcnode):
    """{id(expr node): innermost statement containing it} without nested
    function bodies."""
    out = {}

    def rec_stmt(st):
        for field, val in ast.iter_fields(st):
            vals = val if isinstance(val, list) else [val]
            for v in vals:
                if isinstance(v, ast.stmt):
                    if not isinstance(v, (ast.FunctionDef,
                                          ast.AsyncFunctionDef,
                                          ast.ClassDef)):
                        rec_stmt(v)
                elif isinstance(v, ast.excepthandler):
                    if v.type is not None:
                        for x in ast.walk(v.type):
                            out[id(x)] = st
                    for b in v.body:
                        rec_stmt(b)
                elif isinstance(v, ast.AST):
                    if hasattr(ast, 'match_case') and \
                            isinstance(v, ast.match_case):
                        for b in v.body:
                            rec_stmt(b)
                        continue
                    for x in ast.walk(v):
                        if isinstance(x, ast.Lambda):
                            pass
                        out[id(x)] = st
    for s in funcnode.body:
        rec_stmt(s)
    return out


def assertion_only(st):
    """the statement only asserts: an `assert`, or a loop / if whose body is
    made of such statements, calling nothing but isinstance/type/len (so it
    neither changes state nor answers a request)"""
    if isinstance(st, ast.Assert):
        calls = [c for c in ast.walk(st) if isinstance(c, ast.Call)]
    elif isinstance(st, (ast.For, ast.If)):
        if not all(assertion_only(x) for x in st.body + st.orelse):
            return False
        hdr = st.iter if isinstance(st, ast.For) else st.test
        calls = [c for c in ast.walk(hdr) if isinstance(c, ast.Call)]
    elif isinstance(st, ast.Pass):
        return True
    else:
        return False
    return all(isinstance(c.func, ast.Name) and
               c.func.id in ('isinstance', 'type', 'len') for c in calls)


def canonical_handlers(try_node):
    """the handlers of a try statement in a form that does not depend on how
    the case distinction between exception types is written:

      * the types of a tuple are sorted by name;
      * `except T as e: A; if isinstance(e, X): S; B` (no else) is split into
        `except X as e: A; S; B` followed by `except T as e: A; B` - the same
        exceptions are caught and the same statements run for each.

    Returns new ExceptHandler nodes (the tree is not modified)."""
    import copy

    def type_names(t):
        if t is None:
            return None
        elts = t.elts if isinstance(t, ast.Tuple) else [t]
        return sorted(ast.unparse(e) for e in elts)

    def mk(names, like, body):
        if names is None:
            ty = None
        elif len(names) == 1:
            ty = ast.parse(names[0], mode='eval').body
        else:
            ty = ast.Tuple(elts=[ast.parse(n, mode='eval').body
                                 for n in names], ctx=ast.Load())
        h = ast.ExceptHandler(type=ty, name=like.name, body=body)
        ast.copy_location(h, like)
        ast.fix_missing_locations(h)
        return h
    out = []
    for h in try_node.handlers:
        split = None
        if h.name:
            for i, st in enumerate(h.body):
                if isinstance(st, ast.If) and not st.orelse and \
                        isinstance(st.test, ast.Call) and \
                        isinstance(st.test.func, ast.Name) and \
                        st.test.func.id == 'isinstance' and \
                        len(st.test.args) == 2 and \
                        isinstance(st.test.args[0], ast.Name) and \
                        st.test.args[0].id == h.name and \
                        not any(isinstance(x, ast.Name) and x.id == h.name
                                and isinstance(x.ctx, ast.Store)
                                for s0 in h.body[:i] for x in ast.walk(s0)):
                    split = (i, st)
                    break
        if split is None:
            out.append(mk(type_names(h.type), h, copy.deepcopy(h.body)))
            continue
        i, st = split
        out.append(mk(type_names(st.test.args[1]), h,
                      copy.deepcopy(h.body[:i] + st.body + h.body[i + 1:])))
        out.append(mk(type_names(h.type), h,
                      copy.deepcopy(h.body[:i] + h.body[i + 1:])))
    return out


def flag_facts(funcnode, use_stmt, facts):
    """Facts that follow from what is known about boolean *flag* locals.

    For a fact (v, pol) about a plain local v all of whose bindings are
    simple assignments: the bindings to the opposite constant cannot have
    produced the value, so if exactly one binding `v = E` remains, E had the
    truth value pol when it was evaluated - and still has at use_stmt if no
    path from that binding to use_stmt re-binds a name of E without also
    re-binding v.  Returns the additional (expr, polarity) facts (atoms of
    E included)."""
    out = []
    cfg = None
    for t, pol in facts:
        if not isinstance(t, ast.Name):
            continue
        v = t.id
        defs = []
        simple = True
        for n in ast.walk(funcnode):
            if isinstance(n, ast.Name) and n.id == v and \
                    isinstance(n.ctx, (ast.Store, ast.Del)):
                simple = False      # re-checked below for Assign targets
        binds = [n for n in ast.walk(funcnode)
                 if isinstance(n, ast.Assign) and len(n.targets) == 1 and
                 isinstance(n.targets[0], ast.Name) and
                 n.targets[0].id == v]
        n_stores = sum(1 for n in ast.walk(funcnode)
                       if isinstance(n, ast.Name) and n.id == v and
                       isinstance(n.ctx, (ast.Store, ast.Del)))
        if n_stores != len(binds) or not binds:
            continue
        rest = [b for b in binds
                if not (isinstance(b.value, ast.Constant) and
                        b.value.value is (not pol))]
        if len(rest) != 1 or isinstance(rest[0].value, ast.Constant):
            continue
        d = rest[0]
        names = {x.id for x in ast.walk(d.value) if isinstance(x, ast.Name)}
        if cfg is None:
            cfg = CFG(funcnode)
        if d not in cfg.succ or use_stmt not in cfg.succ:
            continue
        stores = [n for n in cfg.stmts()
                  if n is not d and not isinstance(
                      n, (ast.If, ast.While, ast.Try, ast.With)) and
                  any(isinstance(x, ast.Name) and x.id in names and
                      isinstance(x.ctx, (ast.Store, ast.Del))
                      for x in ast.walk(n))]
        others = [b for b in binds if b is not d]

        def blocked(n_):
            return n_ in others
        stale = False
        for s_ in stores:
            a = s_ is d or cfg.path_avoiding(d, s_, blocked) is not None
            b = cfg.path_avoiding(s_, use_stmt, blocked) is not None
            if a and b:
                stale = True
        if stale:
            continue
        out += list(GuardWalker._atoms(d.value, pol))
    return out


def prop_models(facts, extra_leaves=()):
    """Truth assignments of the atomic conditions that are consistent with
    the facts [(expr, polarity)].  Conditions are taken apart at and / or /
    not; everything else is an atom identified by its text.  Returns
    (leaves, [assignment dict]) or None when there are too many atoms."""
    from .model import norm
    leaves = []

    def collect(e):
        if isinstance(e, ast.BoolOp):
            for v in e.values:
                collect(v)
        elif isinstance(e, ast.UnaryOp) and isinstance(e.op, ast.Not):
            collect(e.operand)
        else:
            k = norm(e, 300)
            if k not in leaves:
                leaves.append(k)
    for t, _p in facts:
        collect(t)
    for e in extra_leaves:
        collect(e)
    if len(leaves) > 12:
        return None

    def ev(e, asg):
        if isinstance(e, ast.BoolOp):
            vals = [ev(v, asg) for v in e.values]
            return all(vals) if isinstance(e.op, ast.And) else any(vals)
        if isinstance(e, ast.UnaryOp) and isinstance(e.op, ast.Not):
            return not ev(e.operand, asg)
        return asg[norm(e, 300)]
    models = []
    for bits in range(1 << len(leaves)):
        asg = {k: bool(bits >> i & 1) for i, k in enumerate(leaves)}
        if all(ev(t, asg) == bool(p) for t, p in facts):
            models.append(asg)
    return leaves, models


def pure_binding(st):
    """an assignment that cannot raise and has no effect but binding a
    local name: its value is built from names and constants only"""
    return isinstance(st, (ast.Assign, ast.AnnAssign)) and \
        st.value is not None and \
        all(isinstance(t, ast.Name) for t in (
            st.targets if isinstance(st, ast.Assign) else [st.target])) and \
        not any(isinstance(c, (ast.Call, ast.Subscript, ast.Attribute,
                               ast.BinOp, ast.Await, ast.Yield))
                for c in ast.walk(st.value))


def first_effective(stmts):
    """the first statement that is neither assertion-only nor a pure
    binding (what a handler really *does* first)"""
    for st in stmts:
        if assertion_only(st) or pure_binding(st) or \
                isinstance(st, ast.Pass):
            continue
        return st
    return None
