"""Typestate check of the open / pull loop of an Iter* generator on its CFG.

For the variable PR that holds the result of the Open call:

  * every result is delivered: between an assignment `PR = self.Open*/Pull*(...)`
    and the next such assignment (or the end of the pull branch) every path
    passes a loop over PR.instances / PR.paths that yields its items (or a
    `yield from` of them);
  * a Pull is issued only when the last result said eos is false;
  * the pull branch is left normally (PR cleared / return) only when the last
    result said eos is true.

The exploration follows normal control flow only (exception edges lead to
the handler / the finally block, which other rules judge) and keeps, per
path, what is known about PR.eos from the branch conditions passed since the
last assignment - whatever the loop looks like (`while not PR.eos`,
`while True: ... if PR.eos: break`, a flag variable is not supported and is
reported as undecided).
"""
import ast

from .cfg import CFG
from .model import norm, dotted
from .relfacts import split


def _assigned_call(st, var):
    if isinstance(st, ast.Assign) and len(st.targets) == 1 and \
            norm(st.targets[0]) == var and isinstance(st.value, ast.Call):
        return dotted(st.value.func) or ''
    return None


def _clears(st, var):
    return isinstance(st, ast.Assign) and len(st.targets) == 1 and \
        norm(st.targets[0]) == var and \
        isinstance(st.value, ast.Constant) and st.value.value is None


def _delivers(st, var):
    """statement (CFG node) that hands the items of the current result to
    the caller"""
    if isinstance(st, (ast.For, ast.AsyncFor)) and \
            norm(st.iter) in (var + '.instances', var + '.paths'):
        tgt = norm(st.target)
        for x in ast.walk(st):
            if isinstance(x, ast.Yield) and x.value is not None and \
                    norm(x.value) == tgt:
                return True
        return False
    if isinstance(st, ast.Expr) and isinstance(st.value, ast.YieldFrom) and \
            norm(st.value.value) in (var + '.instances', var + '.paths'):
        return True
    # collected into a list that is handed out at the end
    # (IterQueryInstances)
    items = (var + '.instances', var + '.paths')
    if isinstance(st, ast.Assign) and norm(st.value) in items:
        return True
    if isinstance(st, ast.AugAssign) and isinstance(st.op, ast.Add) and \
            norm(st.value) in items:
        return True
    if isinstance(st, ast.Expr) and isinstance(st.value, ast.Call) and \
            isinstance(st.value.func, ast.Attribute) and \
            st.value.func.attr == 'extend' and st.value.args and \
            norm(st.value.args[0]) in items:
        return True
    return False


def check(funcnode, var='pull_result'):
    """-> (problems, stats); problems = [(kind, node, text)]"""
    cfg = CFG(funcnode)
    starts = [n for n in cfg.nodes if isinstance(n, ast.stmt) and
              (_assigned_call(n, var) or '').startswith(
                  ('self.Open', 'self.Pull'))]
    problems = []
    seen_pull = seen_end = 0
    for a in starts:
        # state: (eos knowledge, delivered)
        init = (None, False)
        work = [(a, init)]
        seen = {(a, init)}
        first = True
        while work:
            n, (eos, dlv) = work.pop()
            if not first and isinstance(n, ast.stmt):
                call = _assigned_call(n, var)
                if call is not None and call.startswith('self.Pull'):
                    seen_pull += 1
                    if eos is not False:
                        problems.append((
                            'pull-without-eos-false', n,
                            'a Pull is issued on a path that has not seen '
                            '%s.eos false since the last result (eos %s)'
                            % (var, 'true' if eos else 'not tested')))
                    if not dlv:
                        problems.append((
                            'not-delivered', n,
                            'the previous result is replaced by the next '
                            'Pull without its items having been yielded'))
                    continue
                if _clears(n, var) or call is not None:
                    if _clears(n, var):
                        seen_end += 1
                        if eos is not True:
                            problems.append((
                                'end-without-eos', n,
                                'the pull branch ends (%s cleared) on a path '
                                'that has not seen %s.eos true (eos %s): '
                                'objects the server still holds are never '
                                'pulled' % (var, var, 'false' if eos is False
                                            else 'not tested')))
                        if not dlv:
                            problems.append((
                                'not-delivered', n,
                                'the last result is dropped without its '
                                'items having been yielded'))
                    continue
            if not first and n is cfg.EXIT:
                seen_end += 1
                if eos is not True or not dlv:
                    problems.append((
                        'end-without-eos', a,
                        'the generator returns on a path that has not seen '
                        '%s.eos true / not delivered the last result' % var))
                continue
            first = False
            if isinstance(n, ast.stmt) and _delivers(n, var):
                dlv = True
            for b in cfg.succ[n]:
                labs = cfg.label.get((n, b), {None})
                if labs == {'exc'}:
                    continue
                neweos = eos
                if isinstance(n, (ast.If, ast.While)):
                    for lab in labs:
                        if lab in (True, False):
                            for t, pol in split(n.test, lab):
                                if norm(t) == var + '.eos':
                                    neweos = pol
                st = (neweos, dlv)
                if (b, st) not in seen:
                    seen.add((b, st))
                    work.append((b, st))
    return problems, {'results': len(starts), 'pull_sites': seen_pull,
                      'end_sites': seen_end}
