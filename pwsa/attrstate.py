"""Must-analysis of the None-ness of object attributes (`x.attr`) on the CFG.

State: {text of `x.attr`: True (is None) | False (is not None)}.

  x.attr = None                   -> is None
  x.attr = <non-None expression>  -> is not None   (literal, str-method call,
                                     or an expression listed in `nonnull`)
  x.attr = <anything else>        -> unknown
  x = Cls(p=...)                  -> per keyword / default of Cls.__init__
                                     (parameters that are stored under the
                                     same name), for repo classes
  x = <anything else>             -> everything about x unknown
  f(x) / x.m(...)                 -> everything about x unknown, unless m is
                                     in PURE
  if x.attr is None / is not None -> refines along the edge

Join = keep what both predecessors agree on.  The result `facts_before(n)`
holds on every path reaching statement n.
"""
import ast

from .cfg import CFG
from .model import norm, dotted
from .relfacts import split, atom

PURE = ('tocimxml', 'tocimxmlstr', 'to_wbem_uri', 'copy', 'tomof', 'get',
        'keys', 'values', 'items', 'lower', 'upper', 'strip', 'startswith',
        'endswith', 'format', 'join', 'has_key')
_STR_METHODS = ('lower', 'upper', 'strip', 'lstrip', 'rstrip', 'format',
                'join', 'replace', 'casefold')


def _nonnull_expr(e, nonnull):
    if isinstance(e, ast.Constant):
        return e.value is not None
    if isinstance(e, (ast.JoinedStr, ast.List, ast.Tuple, ast.Dict,
                      ast.ListComp)):
        return True
    if isinstance(e, ast.Call) and isinstance(e.func, ast.Attribute) and \
            e.func.attr in _STR_METHODS:
        return True
    if norm(e, 200) in nonnull:
        return True
    return None


_PURE_MEMO = {}


def _leaves_arg_alone(repo, module, call, arg_index, depth=0):
    """the repo function called by `call` does not change the object it
    receives as positional argument arg_index (no attribute / item stores on
    the parameter, only pure methods, passed on only to functions for which
    the same holds)"""
    if repo is None or module is None or not isinstance(call.func, ast.Name):
        return False
    f = module.functions.get(call.func.id)
    if f is None:
        r = repo.resolve_import(module, call.func.id)
        if r is not None and r[1] in r[0].functions:
            f = r[0].functions[r[1]]
    if f is None:
        return False
    ps = [p for p in f.params if p not in ('self', 'cls')]
    if arg_index >= len(ps):
        return False
    key = (f.fq, ps[arg_index])
    if key in _PURE_MEMO:
        return _PURE_MEMO[key]
    _PURE_MEMO[key] = False
    pn = ps[arg_index]
    ok = True
    for n in ast.walk(f.node):
        if isinstance(n, (ast.Attribute, ast.Subscript)) and \
                isinstance(n.ctx, (ast.Store, ast.Del)):
            b = n
            while isinstance(b, (ast.Attribute, ast.Subscript)):
                b = b.value
            if isinstance(b, ast.Name) and b.id == pn:
                ok = False
        elif isinstance(n, ast.Name) and n.id == pn and \
                isinstance(n.ctx, (ast.Store, ast.Del)):
            ok = False          # rebinding: aliases are not followed
        elif isinstance(n, ast.Call):
            if isinstance(n.func, ast.Attribute) and \
                    isinstance(n.func.value, ast.Name) and \
                    n.func.value.id == pn and n.func.attr not in PURE:
                ok = False
            for i, a in enumerate(n.args):
                if isinstance(a, ast.Name) and a.id == pn and \
                        dotted(n.func) not in ('isinstance', 'len', 'type',
                                               'str', 'repr', '_format') \
                        and not (isinstance(n.func, ast.Attribute) and
                                 n.func.attr in PURE):
                    if depth >= 2 or not _leaves_arg_alone(
                            repo, f.module, n, i, depth + 1):
                        ok = False
            if any(isinstance(k.value, ast.Name) and k.value.id == pn
                   for k in n.keywords):
                ok = False
    _PURE_MEMO[key] = ok
    return ok


def _transfer(st, state, repo, nonnull, module=None):
    s = dict(state)

    def drop(name):
        for k in [k for k in s if k == name or k.startswith(name + '.') or
                  (k.endswith('.~alias') and s[k] == name)]:
            del s[k]

    def group(name):
        """the names known to refer to the same object as `name`"""
        g = {name}
        grew = True
        while grew:
            grew = False
            for k, v in s.items():
                if k.endswith('.~alias'):
                    a = k[:-7]
                    if (a in g) != (v in g):
                        g.update((a, v))
                        grew = True
        return g
    def call_effects(root):
        for c in ast.walk(root):
            if isinstance(c, ast.Call):
                if isinstance(c.func, ast.Attribute) and \
                        isinstance(c.func.value, ast.Name) and \
                        c.func.attr not in PURE:
                    drop(c.func.value.id)
                for i_, a in enumerate(list(c.args) +
                                       [k.value for k in c.keywords]):
                    if isinstance(a, ast.Name) and not (
                            isinstance(c.func, ast.Attribute) and
                            c.func.attr in PURE) and \
                            dotted(c.func) not in ('isinstance', 'len',
                                                   'type', 'str', 'repr',
                                                   '_format'):
                        if i_ < len(c.args) and _leaves_arg_alone(
                                repo, module, c, i_):
                            continue
                        drop(a.id)
    if isinstance(st, ast.Assign) and len(st.targets) == 1:
        t, v = st.targets[0], st.value
        call_effects(v)
        if isinstance(t, ast.Attribute) and isinstance(t.value, ast.Name):
            for nm in group(t.value.id):
                key = '%s.%s' % (nm, t.attr)
                if isinstance(v, ast.Constant) and v.value is None:
                    s[key] = True
                elif _nonnull_expr(v, nonnull):
                    s[key] = False
                else:
                    s.pop(key, None)
            return s
        if isinstance(t, ast.Name):
            drop(t.id)
            if isinstance(v, ast.Name) and v.id != t.id:
                # an alias: what is known of the object holds under both
                # names, and a later attribute store through either name
                # updates both
                for k in [k for k in s if k.startswith(v.id + '.') and
                          not k.endswith('.~alias')]:
                    s[t.id + k[len(v.id):]] = s[k]
                s[t.id + '.~alias'] = v.id
                return s
            if isinstance(v, ast.Call) and repo is not None:
                cn = (dotted(v.func) or '').split('.')[-1]
                cls = repo.find_class(cn) if cn[:1].isupper() else None
                init = cls.find_method('__init__') if cls else None
                if init is not None:
                    ps = [p for p in init.params if p != 'self']
                    given = dict(zip(ps, v.args))
                    for k in v.keywords:
                        if k.arg:
                            given[k.arg] = k.value
                    dfl = init.param_defaults()
                    for p in ps:
                        if cls.find_setter(p) is None and \
                                p not in (cls.slots() or []):
                            continue
                        e = given.get(p, dfl.get(p))
                        if e is None:
                            continue
                        if isinstance(e, ast.Constant) and e.value is None:
                            s['%s.%s' % (t.id, p)] = True
                        elif _nonnull_expr(e, nonnull):
                            s['%s.%s' % (t.id, p)] = False
            return s
    # other statements: calls that may change an object
    call_effects(st)
    for c in ast.walk(st):
        if isinstance(c, (ast.Name, ast.Attribute)) and \
                isinstance(getattr(c, 'ctx', None), (ast.Store, ast.Del)):
            if isinstance(c, ast.Name):
                drop(c.id)
            else:
                s.pop(norm(c), None)
    return s


def analyse(funcnode, repo=None, nonnull=(), module=None):
    """{stmt: state holding before stmt}"""
    cfg = CFG(funcnode)
    nonnull = set(nonnull)
    IN = {cfg.ENTRY: {}}
    work = [cfg.ENTRY]
    n_iter = 0
    while work and n_iter < 20000:
        n_iter += 1
        n = work.pop()
        state = IN.get(n, {})
        out = _transfer(n, state, repo, nonnull, module) \
            if isinstance(n, ast.stmt) and not isinstance(
                n, (ast.If, ast.While, ast.For, ast.Try, ast.With)) \
            else dict(state)
        for b in cfg.succ[n]:
            labs = cfg.label.get((n, b), {None})
            if labs == {'exc'}:
                continue
            st = dict(out)
            if isinstance(n, (ast.If, ast.While)):
                for lab in labs:
                    if lab in (True, False):
                        for t, pol in split(n.test, lab):
                            a = atom(t, pol)
                            if a is not None and a[1] == 'none' and \
                                    '.' in a[0]:
                                st[a[0]] = a[2]
            if b not in IN:
                IN[b] = st
                work.append(b)
            else:
                old = IN[b]
                new = {k: v for k, v in old.items()
                       if k in st and st[k] == v}
                if new != old:
                    IN[b] = new
                    work.append(b)
    return IN


_CACHE = {}


def atoms_before(func, node, repo=None, nonnull=()):
    """relfacts atoms (subject, 'none', polarity) that hold whenever the
    statement containing expression `node` starts"""
    key = (id(func.node), tuple(sorted(nonnull)))
    if key not in _CACHE or _CACHE[key][2] is not func.node:
        IN = analyse(func.node, repo, nonnull,
                     getattr(func, 'module', None))
        owner = {}
        for st in IN:
            if isinstance(st, ast.stmt):
                for x in ast.walk(st):
                    owner.setdefault(id(x), []).append(st)
        _CACHE[key] = (IN, owner, func.node)
    IN, owner = _CACHE[key][:2]
    sts = owner.get(id(node))
    if not sts:
        return []
    # innermost statement = the one with the fewest nodes
    st = min(sts, key=lambda s: sum(1 for _ in ast.walk(s)))
    return [(k, 'none', v) for k, v in IN.get(st, {}).items()
            if not k.endswith('.~alias')]


def verified_nonnull(repo):
    """expressions known never to be None, each verified from the code:

    self.default_namespace of WBEMConnection - every store to
    self._default_namespace passes a str-method result or a module-level
    string constant through _ensure_unicode(), and the property getter
    returns that attribute."""
    from .model import walk_no_nested, const_str
    from .paths import return_paths
    out = set()
    OPS = 'pywbem/_cim_operations.py'
    conn = repo.cls(OPS, 'WBEMConnection')
    mod = repo.module(OPS)
    stores = []
    for f in conn.methods.values():
        for n in walk_no_nested(f.node):
            if isinstance(n, ast.Assign) and any(
                    norm(t) == 'self._default_namespace' for t in n.targets):
                stores.append((f, n))
    getter = [f for f in conn.node.body if isinstance(f, ast.FunctionDef) and
              f.name == 'default_namespace' and
              any(isinstance(d, ast.Name) and d.id == 'property'
                  for d in f.decorator_list)]
    ok = bool(stores) and len(getter) == 1 and any(
        isinstance(r, ast.Return) and
        norm(r.value) == 'self._default_namespace'
        for r in ast.walk(getter[0]))
    for f, n in stores:
        paths = return_paths(f, inline=False)
        if not paths:
            ok = False
            break
        for p in paths:
            if n not in p.effects:
                continue
            i = p.effects.index(n)
            v = n.value
            if isinstance(v, ast.Call) and \
                    dotted(v.func) == '_ensure_unicode' and v.args:
                v = v.args[0]
            # definition of the variable at that point of the path
            if isinstance(v, ast.Name):
                d = None
                for e in reversed(p.effects[:i]):
                    if isinstance(e, ast.Assign) and \
                            norm(e.targets[0]) == v.id:
                        d = e.value
                        break
                v = d if d is not None else v
            good = False
            if isinstance(v, ast.Call) and \
                    isinstance(v.func, ast.Attribute) and \
                    v.func.attr in _STR_METHODS:
                good = True
            elif isinstance(v, ast.Name) and v.id in mod.consts and \
                    const_str(mod.consts[v.id]) is not None:
                good = True
            elif isinstance(v, ast.Name):
                r = repo.resolve_import(mod, v.id)
                if r is not None and r[1] in r[0].consts and \
                        const_str(r[0].consts[r[1]]) is not None:
                    good = True
            elif isinstance(v, ast.Constant) and isinstance(v.value, str):
                good = True
            if not good:
                ok = False
    if ok:
        out.add('self.default_namespace')
    return out
