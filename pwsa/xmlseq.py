"""Child-sequence analysis for C03.R3: the sequence of child elements a
construction site `_cim_xml.X(args)` can produce, checked against the DTD
content model of X.

  writer_order(writer)   ordered [(param, mult)] of X.__init__: which
                         constructor parameters are appended as children, in
                         which order, with multiplicity one / opt / many
  ElemSets               element names an argument expression can evaluate to
                         (nested constructor, comprehension over a typed
                         container attribute, local variable, tocimxml() of
                         a typed receiver, return summary of tocimxml methods)
  model_regex(dtd, X)    the content model as a Python regex over 'NAME,'
"""
import ast
import itertools
import re

from .model import walk_no_nested, dotted, norm

OBJ = 'pywbem/_cim_obj.py'

# item classes of the container attributes of CIM objects; confirmed on
# every run against the setter of the attribute (the class name must occur
# in the setter / its conversion helper)
CONTAINER_ITEMS = {
    'properties': 'CIMProperty', 'qualifiers': 'CIMQualifier',
    'methods': 'CIMMethod', 'parameters': 'CIMParameter',
}
PATH_CLASS = {'CIMInstance': 'CIMInstanceName', 'CIMClass': 'CIMClassName'}


def model_regex(dtd, elem):
    model = dtd.elements.get(elem, 'EMPTY')
    if model.strip() in ('EMPTY', 'ANY'):
        return re.compile(r'') if model.strip() == 'EMPTY' else None
    out = []
    for tok in re.findall(r'#PCDATA|[A-Za-z][\w.]*|[()|,*+?]', model):
        if tok == '#PCDATA':
            out.append('')
        elif tok == ',':
            continue
        elif tok == '(':
            out.append('(?:')
        elif tok in ')|*+?':
            out.append(tok)
        else:
            out.append('(?:%s,)' % re.escape(tok))
    try:
        return re.compile(''.join(out))
    except re.error:
        return None


def min_one_params(dtd, elem):
    """child element names that the content model requires at least once
    when it is a plain NAME+ model"""
    model = dtd.elements.get(elem, '')
    m = re.fullmatch(r'\(\s*([A-Za-z][\w.]*)\+\s*\)', model.strip())
    return m.group(1) if m else None


def writer_order(w):
    """[(param, mult)] or None when the constructor appends something that
    is not a parameter (undecided)"""
    init = w.init
    params = set(init.params)
    lists = {}
    order = []
    ok = [True]

    def add(seq, name, mult):
        if seq and seq[-1][0] == name:
            rank = {'opt': 0, 'one': 1, 'many': 2}
            if rank[mult] > rank[seq[-1][1]]:
                seq[-1] = (name, mult)
            return
        seq.append((name, mult))

    def flat(e):
        if isinstance(e, ast.BinOp) and isinstance(e.op, ast.Add):
            return flat(e.left) + flat(e.right)
        return [e]

    def walk(stmts, cond):
        for s in stmts:
            if isinstance(s, ast.If):
                walk(s.body, True)
                walk(s.orelse, True)
                continue
            if isinstance(s, (ast.For, ast.While)):
                walk(s.body, True)
                continue
            if isinstance(s, ast.Assign) and len(s.targets) == 1 and \
                    isinstance(s.targets[0], ast.Name) and \
                    isinstance(s.value, ast.List) and not s.value.elts:
                lists[s.targets[0].id] = []
                continue
            for c in ast.walk(s):
                if not isinstance(c, ast.Call) or \
                        not isinstance(c.func, ast.Attribute):
                    continue
                recv = c.func.value
                meth = c.func.attr
                if isinstance(recv, ast.Name) and recv.id in lists and \
                        meth in ('extend', 'append') and c.args:
                    a = c.args[0]
                    if isinstance(a, ast.Name) and a.id in params:
                        add(lists[recv.id], a.id,
                            'many' if meth == 'extend' else
                            ('opt' if cond else 'one'))
                    else:
                        ok[0] = False
                    continue
                if dotted(c.func) in ('self.appendChild',
                                      'self.appendChildren',
                                      'self.appendOptionalChild') and c.args:
                    a = c.args[0]
                    if isinstance(a, ast.Call) and dotted(a.func) in (
                            '_pcdata_nodes', '_text'):
                        continue
                    for part in flat(a):
                        if isinstance(part, ast.Name) and part.id in lists:
                            for name, mult in lists[part.id]:
                                add(order, name, mult)
                        elif isinstance(part, ast.Name) and \
                                part.id in params:
                            if meth == 'appendChildren':
                                mult = 'many'
                            elif meth == 'appendOptionalChild' or cond:
                                mult = 'opt'
                            else:
                                mult = 'one'
                            add(order, part.id, mult)
                        else:
                            ok[0] = False
    walk(init.body, False)
    return order if ok[0] else None


class ElemSets:
    def __init__(self, repo, writers_by_class):
        self.repo = repo
        self.wbc = writers_by_class     # _cim_xml class name -> Writer
        self._ret = {}
        self._dead = {}
        self.checked_containers = set()
        self.state_dependent = False

    def element_of(self, clsname):
        w = self.wbc.get(clsname)
        return w.element if w is not None else None

    def item_class(self, owner_cls, attr):
        """class of the items of owner.<attr> (container attribute)"""
        item = CONTAINER_ITEMS.get(attr)
        if item is None or owner_cls is None:
            return None
        key = (owner_cls.name, attr)
        if key not in self.checked_containers:
            st = owner_cls.find_setter(attr)
            src = norm(st.node, 4000) if st is not None else ''
            helper_ok = item in src
            if not helper_ok and st is not None:
                for c in walk_no_nested(st.node):
                    if isinstance(c, ast.Call) and dotted(c.func):
                        h = self.repo.func_opt(OBJ, dotted(c.func))
                        if h is not None and item in norm(h.node, 6000):
                            helper_ok = True
            if not helper_ok:
                return None
            self.checked_containers.add(key)
        return self.repo.find_class(item)

    def ret_elems(self, func, depth=0, consts=None):
        """element names a tocimxml()-like function can return, or None.
        consts: {param: constant} known at the call site (defaults of
        parameters that are not passed) - branches they exclude are pruned"""
        consts = consts or {}
        key = (func.fq, tuple(sorted(consts.items())))
        if key in self._ret:
            return self._ret[key]
        self._ret[key] = None     # recursion guard
        out = set()
        dead = dead_nodes(func, consts)
        self._dead[func.fq] = dead
        for n in walk_no_nested(func.node):
            if id(n) in dead:
                continue
            if isinstance(n, ast.Return) and n.value is not None:
                s = self.elems(n.value, func, {}, depth + 1, use=n)
                if s is None:
                    self._ret[key] = None
                    return None
                out |= s
        self._ret[key] = out
        return out

    def generic_elems(self, f, depth):
        """elements the module-level tocimxml() can return: computed with
        its recursive calls contributing what is already known, until
        nothing is added"""
        key = ('generic', f.fq)
        if key in self._ret:
            return self._ret[key]
        known = set()
        for _ in range(4):
            self._ret[key] = known
            self._ret.pop((f.fq, ()), None)
            r = self.ret_elems(f, depth + 1)
            self._ret.pop((f.fq, ()), None)
            if r is None:
                self._ret[key] = None
                return None
            if r <= known:
                break
            known = known | r
        self._ret[key] = known
        return known

    def ret_elems_at(self, m, consts, call, func, depth):
        """elements method m can return when called as `call` inside
        `func`: return paths of m whose conditions contradict the conditions
        known at the call (after substituting the receiver for self) or the
        constant arguments are dropped.  None if not decidable."""
        from .paths import return_paths
        from . import relfacts as RF
        paths = return_paths(m, max_paths=600, inline=False)
        if not paths:
            return None
        known = RF.facts_at(func, call)
        if known is None:
            return None
        # what the assignments on every path to the call establish about
        # the receiver's attributes (x.host = None, x = Cls(namespace=...))
        from . import attrstate
        known = list(known) + attrstate.atoms_before(
            func, call, self.repo, getattr(self, 'nonnull', ()))
        recv = call.func.value
        out = set()
        self.rel_log = getattr(self, 'rel_log', [])
        kept = 0
        for p in paths:
            if p.value is None:
                continue
            atoms = []
            feasible = True
            for (t, pol), pos in zip(p.facts, p.fact_pos):
                a = RF.simplify(t, pol, consts, p, pos)
                if a is False:
                    feasible = False
                    break
                atoms += a
            if not feasible:
                continue
            atoms = [RF.subst_self(a, recv) for a in atoms]
            if any(RF.contradict(a, k) for a in atoms for k in known):
                continue
            kept += 1
            s = self.elems(p.value, m, {}, depth + 1, use=p.ret_stmt)
            if s is None:
                return None
            out |= s
        self.rel_log.append((func.qualname, norm(call, 60), len(paths), kept,
                             sorted(out)))
        return out if kept else None

    def recv_candidates(self, name, func):
        """repo classes a local can hold: it is bound only to constructor
        calls of repo classes and to `<param>.copy()` where an isinstance
        test at that point names the classes of <param>"""
        from .cfg import stmt_facts
        out = []
        sf = stmt_facts(func.node)
        for st, (fs, _t) in sf.items():
            if not (isinstance(st, ast.Assign) and len(st.targets) == 1 and
                    isinstance(st.targets[0], ast.Name) and
                    st.targets[0].id == name):
                continue
            v = st.value
            if isinstance(v, ast.Call) and isinstance(v.func, ast.Name):
                c = self.repo.find_class(v.func.id)
                if c is None:
                    return None
                out.append(c)
            elif isinstance(v, ast.Call) and \
                    isinstance(v.func, ast.Attribute) and \
                    v.func.attr == 'copy' and \
                    isinstance(v.func.value, ast.Name):
                src = v.func.value.id
                found = None
                for t, pol in fs:
                    if pol and isinstance(t, ast.Call) and \
                            dotted(t.func) == 'isinstance' and \
                            norm(t.args[0]) == src:
                        tt = t.args[1]
                        found = [self.repo.find_class(norm(x)) for x in (
                            tt.elts if isinstance(tt, ast.Tuple) else [tt])]
                if not found or any(c is None for c in found):
                    return None
                out += found
            else:
                return None
        return out or None

    def recv_class(self, e, func, tenv):
        """repo class of a receiver expression, when evident"""
        if isinstance(e, ast.Name):
            if e.id == 'self' and func.cls is not None:
                return func.cls
            return tenv.get(e.id)
        if isinstance(e, ast.Attribute):
            base = self.recv_class(e.value, func, tenv)
            if base is not None and e.attr == 'path':
                return self.repo.find_class(PATH_CLASS.get(base.name, ''))
        return None

    def elems(self, e, func, tenv, depth=0, use=None):
        """set of element names (possibly empty = no child) or None.
        use: the node where the value is consumed - definitions of a local
        variable in an if-branch that excludes the branch of `use` are
        ignored"""
        if depth > 8:
            return None
        if isinstance(e, ast.Constant) and e.value is None:
            return set()
        if isinstance(e, (ast.List, ast.Tuple)):
            out = set()
            for x in e.elts:
                s = self.elems(x, func, tenv, depth + 1, use)
                if s is None:
                    return None
                out |= s
            return out
        if isinstance(e, ast.IfExp):
            a = self.elems(e.body, func, tenv, depth + 1, use)
            b = self.elems(e.orelse, func, tenv, depth + 1, use)
            return None if a is None or b is None else a | b
        if isinstance(e, (ast.ListComp, ast.GeneratorExp)):
            tenv2 = dict(tenv)
            for g in e.generators:
                it = g.iter
                if isinstance(it, ast.Call) and \
                        isinstance(it.func, ast.Attribute) and \
                        it.func.attr in ('values', 'itervalues') and \
                        isinstance(it.func.value, ast.Attribute):
                    owner = self.recv_class(it.func.value.value, func, tenv)
                    ic = self.item_class(owner, it.func.value.attr)
                    if ic is not None and isinstance(g.target, ast.Name):
                        tenv2[g.target.id] = ic
            return self.elems(e.elt, func, tenv2, depth + 1, use)
        if isinstance(e, ast.Call):
            d = dotted(e.func) or ''
            if d.startswith('_cim_xml.') and d.count('.') == 1:
                el = self.element_of(d.split('.')[1])
                return {el} if el else None
            if isinstance(e.func, ast.Attribute) and \
                    e.func.attr == 'tocimxml':
                rc = self.recv_class(e.func.value, func, tenv)
                if rc is None and isinstance(e.func.value, ast.Name):
                    # a local bound to a copy of an argument whose class an
                    # isinstance test fixed, or to a constructor call
                    cands = self.recv_candidates(e.func.value.id, func)
                    if cands:
                        out = set()
                        for rc_ in cands:
                            m_ = rc_.find_method('tocimxml')
                            if m_ is None:
                                return None
                            consts_ = {p_: d_.value for p_, d_ in
                                       m_.param_defaults().items()
                                       if isinstance(d_, ast.Constant)}
                            rr_ = self.ret_elems_at(m_, consts_, e, func,
                                                    depth + 1)
                            if rr_ is None:
                                rr_ = self.ret_elems(m_, depth + 1, consts_)
                                if rr_ is not None and len(rr_) > 1:
                                    self.state_dependent = True
                            if rr_ is None:
                                return None
                            out |= rr_
                        return out
                if rc is None and func.cls is None and \
                        func.name == 'tocimxml' and \
                        isinstance(e.func.value, ast.Name) and \
                        e.func.value.id in func.params:
                    # the generic converter hands its argument on to the
                    # argument's own tocimxml(): any CIM object class
                    out = set()
                    for c_ in self.repo.module(OBJ).classes.values():
                        m_ = c_.methods.get('tocimxml')
                        if m_ is None:
                            continue
                        consts_ = {p_: d_.value for p_, d_ in
                                   m_.param_defaults().items()
                                   if isinstance(d_, ast.Constant)}
                        r_ = self.ret_elems(m_, depth + 1, consts_)
                        if r_ is None:
                            return None
                        out |= r_
                    self.state_dependent = True
                    return out
                if rc is not None:
                    m = rc.find_method('tocimxml')
                    if m is not None:
                        consts = {}
                        given = {k.arg for k in e.keywords}
                        pos = [p for p in m.params if p != 'self']
                        given |= set(pos[:len(e.args)])
                        for p_, d_ in m.param_defaults().items():
                            if p_ not in given and \
                                    isinstance(d_, ast.Constant):
                                consts[p_] = d_.value
                        r = self.ret_elems(m, depth + 1, consts)
                        if r is not None and len(r) > 1:
                            # which element is returned depends on the
                            # receiver's state: keep only the return paths
                            # compatible with the conditions that hold at
                            # the call
                            rr = self.ret_elems_at(m, consts, e, func,
                                                   depth + 1)
                            if rr is not None:
                                # exact for the conditions at the call
                                return rr
                        if r is not None and len(r) > 1:
                            self.state_dependent = True
                        return r
                return None
            if d == 'tocimxml':
                f = self.repo.func_opt(OBJ, 'tocimxml')
                if f is not None and func.file == OBJ:
                    # generic value conversion: VALUE / VALUE.ARRAY / the
                    # element of any CIM object (least fixpoint over its
                    # own recursive calls).  Only inside the object model:
                    # the request encoder passes values its _iparam_*
                    # helpers have normalised (C04.R4), which this analysis
                    # does not see - undecided there.
                    return self.generic_elems(f, depth)
            return None
        if isinstance(e, ast.Name):
            out = set()
            found = False
            dead = self._dead.get(func.fq, set())
            bpath = branch_paths(func)
            upath = bpath.get(id(use), ()) if use is not None else None
            for n in walk_no_nested(func.node):
                if id(n) in dead:
                    continue
                if upath is not None and isinstance(n, (ast.Assign,
                                                        ast.Call)):
                    if not compatible(bpath.get(id(n), ()), upath):
                        continue
                if isinstance(n, ast.Assign) and any(
                        isinstance(t, ast.Name) and t.id == e.id
                        for t in n.targets):
                    found = True
                    s = self.elems(n.value, func, tenv, depth + 1, n)
                    if s is None:
                        return None
                    out |= s
                elif isinstance(n, ast.Call) and \
                        isinstance(n.func, ast.Attribute) and \
                        n.func.attr in ('append', 'extend') and \
                        isinstance(n.func.value, ast.Name) and \
                        n.func.value.id == e.id and n.args:
                    found = True
                    s = self.elems(n.args[0], func, tenv, depth + 1, n)
                    if s is None:
                        return None
                    out |= s
            return out if found else None
        return None


_BP_CACHE = {}


def branch_paths(func):
    """{id(node): ((id(if-node), 'body'|'orelse'), ...)} for every node"""
    key = id(func.node)
    if key in _BP_CACHE:
        return _BP_CACHE[key]
    out = {}

    def rec(node, path):
        out[id(node)] = path
        if isinstance(node, ast.If):
            rec(node.test, path)
            for s in node.body:
                rec(s, path + ((id(node), 'body'),))
            for s in node.orelse:
                rec(s, path + ((id(node), 'orelse'),))
            return
        for c in ast.iter_child_nodes(node):
            if isinstance(c, (ast.FunctionDef, ast.AsyncFunctionDef,
                              ast.Lambda, ast.ClassDef)) and \
                    c is not func.node:
                continue
            rec(c, path)
    rec(func.node, ())
    _BP_CACHE[key] = out
    return out


def compatible(p1, p2):
    d = dict(p1)
    return all(d.get(k, v) == v for k, v in p2)


def dead_nodes(func, consts):
    """ids of nodes in if-branches excluded by constant parameters"""
    dead = set()
    if not consts:
        return dead

    def truth(t):
        if isinstance(t, ast.Name) and t.id in consts:
            return bool(consts[t.id])
        if isinstance(t, ast.UnaryOp) and isinstance(t.op, ast.Not):
            v = truth(t.operand)
            return None if v is None else not v
        return None
    for n in walk_no_nested(func.node):
        if isinstance(n, ast.If):
            v = truth(n.test)
            if v is True:
                for s in n.orelse:
                    dead.update(id(x) for x in ast.walk(s))
            elif v is False:
                for s in n.body:
                    dead.update(id(x) for x in ast.walk(s))
    return dead


def sequences(groups, cap=4000):
    """representative child sequences of [(elemset, mult)] groups"""
    opts = []
    for g in groups:
        els, mult = sorted(g[0]), g[1]
        nonempty = len(g) > 2 and g[2]
        o = []
        if (mult in ('opt', 'many') and not nonempty) or not els:
            o.append(())
        for a in els:
            o.append((a,))
        if mult == 'many':
            for a in els[:3]:
                for b in els[:3]:
                    o.append((a, b))
        opts.append(o)
    n = 1
    for o in opts:
        n *= max(1, len(o))
    if n > cap:
        return None
    return [sum(combo, ()) for combo in itertools.product(*opts)]


def nonempty_by_construction(e, func):
    """'yes' / 'no' / 'unknown': is the list expression non-empty on every
    evaluation?"""
    if isinstance(e, (ast.List, ast.Tuple)):
        return 'yes' if e.elts else 'no'
    if isinstance(e, ast.ListComp) and len(e.generators) == 1:
        g = e.generators[0]
        src = g.iter
        split = isinstance(src, ast.Call) and \
            isinstance(src.func, ast.Attribute) and \
            src.func.attr in ('split', 'rsplit') and src.args and \
            not (isinstance(src.args[0], ast.Constant) and
                 src.args[0].value is None)
        if g.ifs:
            return 'no'
        if split:
            return 'yes'
        return 'unknown'
    if isinstance(e, ast.Name):
        res = set()
        for n in walk_no_nested(func.node):
            if isinstance(n, ast.Assign) and any(
                    isinstance(t, ast.Name) and t.id == e.id
                    for t in n.targets):
                res.add(nonempty_by_construction(n.value, func))
        if res == {'yes'}:
            return 'yes'
        if 'no' in res:
            return 'no'
        return 'unknown'
    return 'unknown'
