"""Shape analysis of string-building code (printer language of numbers).

A *template* describes a class of strings: a sequence of parts, each either
a literal ('L', text) or a digit run ('D',) standing for one or more decimal
digits.  The language a format specification such as '.17G' can produce is
a finite set of templates (sign x mantissa form x exponent form + the
special values).  The string surgery that follows the formatting
(comparisons with literals, `'.' in s`, split / partition / join /
concatenation / f-strings / replace) is interpreted *per template*: every
predicate is decided by the shape alone, every operation maps templates to
templates.  The result is the set of output templates, which is then
compared with the reader's language.

Anything outside the supported fragment raises Unsupported (the rule then
reports 'undecided', never a violation).
"""
import ast
import re


class Unsupported(Exception):
    pass


D = ('D',)


def lit(s):
    return ('L', s)


def normalise(parts):
    out = []
    for p in parts:
        if p[0] == 'L':
            if not p[1]:
                continue
            if out and out[-1][0] == 'L':
                out[-1] = ('L', out[-1][1] + p[1])
                continue
        out.append(p)
    return tuple(out)


def show(t):
    return ''.join(p[1] if p[0] == 'L' else '<digits>' for p in t)


def samples(t):
    """concrete members of a template (digit runs of length 1, 2 and 3)"""
    out = []
    for digits in ('7', '42', '105'):
        out.append(''.join(p[1] if p[0] == 'L' else digits for p in t))
    return out


def format_templates(spec):
    """templates of format(float, spec) for the spec types g G e E f F and
    the empty spec / repr"""
    m = re.fullmatch(r'(?:\.(\d+))?([gGeEfF]?)', spec)
    if not m:
        raise Unsupported('format spec %r' % spec)
    typ = m.group(2) or 'r'
    upper = typ in 'GEF'
    e = 'E' if upper else 'e'
    inf, nan = ('INF', 'NAN') if upper else ('inf', 'nan')
    out = [normalise([lit(inf)]), normalise([lit('-' + inf)]),
           normalise([lit(nan)])]
    for sign in ('', '-'):
        mants = [[D, lit('.'), D]]
        if typ in 'gGr':
            mants.append([D])          # g drops a zero fraction
        if typ == 'r':
            mants = [[D, lit('.'), D], [D]]
        for mant in mants:
            exps = [[]]
            if typ in 'gGr':
                exps += [[lit(e + '+'), D], [lit(e + '-'), D]]
            elif typ in 'eE':
                exps = [[lit(e + '+'), D], [lit(e + '-'), D]]
            for ex in exps:
                if typ == 'r' and mant == [D] and not ex:
                    continue           # repr(float) always has '.' or 'e'
                out.append(normalise([lit(sign)] + mant + ex))
    return out


def _contains(t, s):
    if any(ch.isdigit() for ch in s):
        raise Unsupported('search for digits %r' % s)
    return any(p[0] == 'L' and s in p[1] for p in t)


def _find(t, s):
    """(index of part, offset) of the first occurrence of s, or None"""
    if any(ch.isdigit() for ch in s):
        raise Unsupported('search for digits %r' % s)
    for i, p in enumerate(t):
        if p[0] == 'L' and s in p[1]:
            return i, p[1].index(s)
    # an occurrence spanning a digit run is impossible (s has no digits);
    # an occurrence spanning two literal parts cannot exist after normalise
    return None


def split(t, s, maxsplit=-1):
    out = []
    cur = list(t)
    while maxsplit != 0:
        pos = _find(tuple(cur), s)
        if pos is None:
            break
        i, off = pos
        head = cur[:i] + [lit(cur[i][1][:off])]
        tail = [lit(cur[i][1][off + len(s):])] + cur[i + 1:]
        out.append(normalise(head))
        cur = list(normalise(tail))
        maxsplit -= 1
    out.append(normalise(cur))
    return out


def partition(t, s):
    pos = _find(t, s)
    if pos is None:
        return [t, (), ()]
    i, off = pos
    return [normalise(list(t[:i]) + [lit(t[i][1][:off])]),
            normalise([lit(s)]),
            normalise([lit(t[i][1][off + len(s):])] + list(t[i + 1:]))]


class Interp:
    """interpret a statement list for ONE input template"""

    def __init__(self):
        self.env = {}
        self.result = None

    # values: template (tuple) | list of templates | bool
    def ev(self, e):
        if isinstance(e, ast.Constant) and isinstance(e.value, str):
            return normalise([lit(e.value)])
        if isinstance(e, ast.Name):
            if e.id not in self.env:
                raise Unsupported('name %s' % e.id)
            return self.env[e.id]
        if isinstance(e, ast.JoinedStr):
            parts = []
            for v in e.values:
                if isinstance(v, ast.Constant):
                    parts.append(lit(v.value))
                elif isinstance(v, ast.FormattedValue) and \
                        v.format_spec is None and v.conversion == -1:
                    x = self.ev(v.value)
                    if not isinstance(x, tuple):
                        raise Unsupported('f-string of a non-string')
                    parts.extend(x)
                else:
                    raise Unsupported('formatted value with a spec')
            return normalise(parts)
        if isinstance(e, ast.BinOp) and isinstance(e.op, ast.Add):
            a, b = self.ev(e.left), self.ev(e.right)
            if isinstance(a, tuple) and isinstance(b, tuple):
                return normalise(list(a) + list(b))
            raise Unsupported('+ of non-strings')
        if isinstance(e, ast.Subscript):
            base = self.ev(e.value)
            idx = e.slice
            if isinstance(idx, ast.UnaryOp) and \
                    isinstance(idx.op, ast.USub) and \
                    isinstance(idx.operand, ast.Constant):
                k = -idx.operand.value
            elif isinstance(idx, ast.Constant) and \
                    isinstance(idx.value, int):
                k = idx.value
            else:
                raise Unsupported('subscript')
            if isinstance(base, list):
                try:
                    return base[k]
                except IndexError:
                    raise Unsupported('index out of range in the model')
            raise Unsupported('subscript of a string')
        if isinstance(e, ast.Call) and isinstance(e.func, ast.Attribute):
            m = e.func.attr
            args = e.args
            if m == 'join' and len(args) == 1:
                sep = self.ev(e.func.value)
                lst = self.ev(args[0])
                if not isinstance(lst, list) or not isinstance(sep, tuple):
                    raise Unsupported('join')
                parts = []
                for i, t in enumerate(lst):
                    if i:
                        parts.extend(sep)
                    parts.extend(t)
                return normalise(parts)
            recv = self.ev(e.func.value)
            if not isinstance(recv, tuple):
                raise Unsupported('method on a non-string')
            consts = []
            for a in args:
                if isinstance(a, ast.Constant):
                    consts.append(a.value)
                else:
                    raise Unsupported('non-constant argument')
            if m in ('split', 'rsplit') and consts and \
                    isinstance(consts[0], str):
                if m == 'rsplit' and len(consts) > 1:
                    raise Unsupported('rsplit with maxsplit')
                return split(recv, consts[0],
                             consts[1] if len(consts) > 1 else -1)
            if m == 'partition' and len(consts) == 1:
                return partition(recv, consts[0])
            if m == 'replace' and len(consts) == 2:
                parts = split(recv, consts[0])
                out = []
                for i, t in enumerate(parts):
                    if i:
                        out.append(lit(consts[1]))
                    out.extend(t)
                return normalise(out)
            if m in ('upper', 'lower'):
                f = str.upper if m == 'upper' else str.lower
                return normalise([lit(f(p[1])) if p[0] == 'L' else p
                                  for p in recv])
            if m in ('startswith', 'endswith') and len(consts) == 1:
                s = consts[0]
                if any(ch.isdigit() for ch in s):
                    raise Unsupported('digits in prefix test')
                if not recv:
                    return False
                p = recv[0] if m == 'startswith' else recv[-1]
                if p[0] != 'L':
                    return False
                return p[1].startswith(s) if m == 'startswith' \
                    else p[1].endswith(s)
            raise Unsupported('method %s' % m)
        if isinstance(e, ast.UnaryOp) and isinstance(e.op, ast.Not):
            v = self.ev(e.operand)
            if isinstance(v, bool):
                return not v
            raise Unsupported('not of non-bool')
        if isinstance(e, ast.BoolOp):
            vals = [self.ev(v) for v in e.values]
            if not all(isinstance(v, bool) for v in vals):
                raise Unsupported('boolop')
            return all(vals) if isinstance(e.op, ast.And) else any(vals)
        if isinstance(e, ast.Compare) and len(e.ops) == 1:
            op = e.ops[0]
            left, right = e.left, e.comparators[0]
            if isinstance(op, (ast.Eq, ast.NotEq)):
                a, b = self.ev(left), self.ev(right)
                if not (isinstance(a, tuple) and isinstance(b, tuple)):
                    raise Unsupported('== of non-strings')
                eq = self._equal(a, b)
                return eq if isinstance(op, ast.Eq) else not eq
            if isinstance(op, (ast.In, ast.NotIn)):
                if isinstance(right, (ast.Tuple, ast.List, ast.Set)):
                    a = self.ev(left)
                    res = any(self._equal(a, self.ev(x))
                              for x in right.elts)
                else:
                    a, b = self.ev(left), self.ev(right)
                    if not (isinstance(a, tuple) and isinstance(b, tuple)
                            and all(p[0] == 'L' for p in a)):
                        raise Unsupported('in')
                    res = _contains(b, ''.join(p[1] for p in a))
                return res if isinstance(op, ast.In) else not res
        raise Unsupported(type(e).__name__)

    @staticmethod
    def _equal(a, b):
        la = all(p[0] == 'L' for p in a)
        lb = all(p[0] == 'L' for p in b)
        if la and lb:
            return a == b
        # a shape with digit runs equals a digit-free literal never; two
        # shapes with digit runs: undecidable here
        if la != lb:
            lits = a if la else b
            if any(ch.isdigit() for p in lits for ch in p[1]):
                raise Unsupported('comparison with a digit literal')
            return False
        raise Unsupported('== of two digit shapes')

    def run(self, stmts):
        """returns True when a return was executed"""
        for st in stmts:
            if isinstance(st, ast.Pass):
                continue
            if isinstance(st, ast.Return):
                self.result = self.ev(st.value)
                return True
            if isinstance(st, ast.Assign) and len(st.targets) == 1:
                t = st.targets[0]
                v = self.ev(st.value)
                if isinstance(t, ast.Name):
                    self.env[t.id] = v
                elif isinstance(t, ast.Tuple) and isinstance(v, list) and \
                        len(v) == len(t.elts) and all(
                            isinstance(x, ast.Name) for x in t.elts):
                    for x, item in zip(t.elts, v):
                        self.env[x.id] = item
                elif isinstance(t, ast.Subscript) and \
                        isinstance(t.value, ast.Name) and \
                        isinstance(t.slice, ast.Constant) and \
                        isinstance(self.env.get(t.value.id), list):
                    lst = list(self.env[t.value.id])
                    try:
                        lst[t.slice.value] = v
                    except IndexError:
                        raise Unsupported('index assignment out of range')
                    self.env[t.value.id] = lst
                else:
                    raise Unsupported('assignment target')
                continue
            if isinstance(st, ast.If):
                c = self.ev(st.test)
                if not isinstance(c, bool):
                    raise Unsupported('non-boolean test')
                if self.run(st.body if c else st.orelse):
                    return True
                continue
            raise Unsupported(type(st).__name__)
        return False


def outputs(stmts, var_spec=None):
    """[(input template, output template)] of a statement list whose first
    statement assigns an f-string with a format spec to a variable."""
    first = stmts[0]
    spec_node = None
    if isinstance(first, ast.Assign) and \
            isinstance(first.targets[0], ast.Name):
        v = first.value
        if isinstance(v, ast.JoinedStr) and len(v.values) == 1 and \
                isinstance(v.values[0], ast.FormattedValue) and \
                v.values[0].format_spec is not None:
            spec_node = v.values[0].format_spec
        elif isinstance(v, ast.Call) and isinstance(v.func, ast.Name) and \
                v.func.id == 'format' and len(v.args) == 2 and \
                not v.keywords:
            # s = format(x, SPEC): the same as f"{x:SPEC}"
            sp = v.args[1]
            spec_node = sp if isinstance(sp, ast.JoinedStr) else \
                ast.JoinedStr(values=[sp]) if isinstance(sp, ast.Constant) \
                else None
    if spec_node is None:
        raise Unsupported('the block does not start with s = f"{x:SPEC}"')
    # the spec is constant text, possibly with constant fields nested in it
    # (`{x:.{11}G}` after a helper with a `digits` parameter was inlined)
    if not isinstance(spec_node, ast.JoinedStr):
        raise Unsupported('dynamic format spec')
    spec = ''
    for v in spec_node.values:
        if isinstance(v, ast.Constant):
            spec += str(v.value)
        elif isinstance(v, ast.FormattedValue) and \
                isinstance(v.value, ast.Constant) and \
                v.format_spec is None and v.conversion == -1:
            spec += str(v.value.value)
        else:
            raise Unsupported('dynamic format spec')
    res = []
    for t in format_templates(spec):
        it = Interp()
        it.env[first.targets[0].id] = t
        if not it.run(stmts[1:]):
            raise Unsupported('no return reached')
        if not isinstance(it.result, tuple):
            raise Unsupported('non-string result')
        res.append((t, it.result))
    return spec, res


# what Python's float() accepts (the reader: unpack_numeric) and the DSP0201
# real syntax the writer is meant to produce
FLOAT_DOMAIN = re.compile(
    r'\s*[+-]?(?:(?:\d+\.?\d*|\.\d+)(?:[eE][+-]?\d+)?|inf(?:inity)?|nan)\s*',
    re.I)
DSP0201_REAL = re.compile(
    r'[+-]?\d*\.\d+(?:[eE][+-]?\d+)?|INF|-INF|NaN')
