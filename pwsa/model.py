"""E0 - source model of /repo (pywbem, pywbem_mock, vendored nocasedict).

Everything is parsed from the *current working tree* on every run.  An
overlay {relpath: source} lets the self-test analyse an in-memory variant.
"""
import ast
import os
import re

REPO = os.environ.get('PYWBEM_REPO', '/repo')

PACKAGES = ['pywbem', 'pywbem_mock', 'pywbem/_vendor/nocasedict']
DTD_PATH = 'tests/dtd/DSP0203_2.3.1.dtd'


class AnalysisError(Exception):
    """Anchor vanished / floor not met / analyser cannot decide soundly."""


def unparse(node):
    if node is None:
        return 'None'
    try:
        return ast.unparse(node)
    except Exception:  # pragma: no cover
        return '<%s>' % type(node).__name__


def norm(node, maxlen=160):
    """Normalised one-line text of an expression/statement (finding keys)."""
    s = unparse(node)
    s = re.sub(r'\s+', ' ', s).strip()
    if len(s) > maxlen:
        s = s[:maxlen] + '...'
    return s


def strip_docstring(body):
    if body and isinstance(body[0], ast.Expr) and \
            isinstance(body[0].value, ast.Constant) and \
            isinstance(body[0].value.value, str):
        return body[1:]
    return body


def const_str(node):
    if isinstance(node, ast.Constant) and isinstance(node.value, str):
        return node.value
    return None


def dotted(node):
    """'a.b.c' for Name/Attribute chains, else None."""
    parts = []
    while isinstance(node, ast.Attribute):
        parts.append(node.attr)
        node = node.value
    if isinstance(node, ast.Name):
        parts.append(node.id)
        return '.'.join(reversed(parts))
    return None


def call_name(call):
    """Dotted name of the callee of a Call node (or None)."""
    if isinstance(call, ast.Call):
        return dotted(call.func)
    return None


def last_attr(call):
    """Final attribute / name of the callee ('x.y.foo(...)' -> 'foo')."""
    f = call.func if isinstance(call, ast.Call) else call
    if isinstance(f, ast.Attribute):
        return f.attr
    if isinstance(f, ast.Name):
        return f.id
    return None


class Func:
    """A function or method definition."""

    def __init__(self, module, node, cls=None, parent=None):
        self.module = module
        self.node = node
        self.cls = cls
        self.parent = parent
        self.name = node.name
        if parent is not None:
            self.qualname = parent.qualname + '.<locals>.' + node.name
        elif cls is not None:
            self.qualname = cls.name + '.' + node.name
        else:
            self.qualname = node.name
        self.fq = module.name + ':' + self.qualname
        self.decorators = [unparse(d) for d in node.decorator_list]
        self.nested = {}
        self._collect_nested(node)

    def _collect_nested(self, node):
        for st in ast.iter_child_nodes(node):
            if isinstance(st, (ast.FunctionDef, ast.AsyncFunctionDef)):
                self.nested[st.name] = Func(self.module, st, self.cls, self)
            elif isinstance(st, ast.ClassDef):
                continue
            elif not isinstance(st, ast.Lambda):
                self._collect_nested(st)

    @property
    def body(self):
        return strip_docstring(self.node.body)

    @property
    def file(self):
        return self.module.relpath

    @property
    def params(self):
        a = self.node.args
        return [x.arg for x in a.posonlyargs + a.args] + \
            ([a.vararg.arg] if a.vararg else []) + \
            [x.arg for x in a.kwonlyargs] + \
            ([a.kwarg.arg] if a.kwarg else [])

    def param_defaults(self):
        """{param: default node} for params with defaults."""
        a = self.node.args
        pos = a.posonlyargs + a.args
        res = {}
        for p, d in zip(pos[len(pos) - len(a.defaults):], a.defaults):
            res[p.arg] = d
        for p, d in zip(a.kwonlyargs, a.kw_defaults):
            if d is not None:
                res[p.arg] = d
        return res

    def is_property_getter(self):
        return 'property' in self.decorators

    def is_setter(self):
        return any(d.endswith('.setter') for d in self.decorators)

    def is_static(self):
        return 'staticmethod' in self.decorators

    def is_classmethod(self):
        return 'classmethod' in self.decorators

    def __repr__(self):
        return '<Func %s>' % self.fq


class Class:
    def __init__(self, module, node):
        self.module = module
        self.node = node
        self.name = node.name
        self.fq = module.name + ':' + node.name
        self.base_exprs = [unparse(b) for b in node.bases]
        self.methods = {}      # name -> Func (non-setter; getter for props)
        self.setters = {}      # prop name -> Func
        self.getters = {}      # prop name -> Func
        self.consts = {}       # name -> value node
        for st in node.body:
            if isinstance(st, (ast.FunctionDef, ast.AsyncFunctionDef)):
                f = Func(module, st, self)
                if f.is_setter():
                    self.setters[st.name] = f
                elif f.is_property_getter():
                    self.getters[st.name] = f
                    self.methods.setdefault(st.name, f)
                else:
                    self.methods[st.name] = f
            elif isinstance(st, ast.Assign):
                for t in st.targets:
                    if isinstance(t, ast.Name):
                        self.consts[t.id] = st.value
            elif isinstance(st, ast.AnnAssign) and st.value is not None and \
                    isinstance(st.target, ast.Name):
                self.consts[st.target.id] = st.value
        self.bases = []   # resolved Class objects (filled by Repo)

    def slots(self):
        v = self.consts.get('__slots__')
        if v is None:
            return None
        if isinstance(v, (ast.List, ast.Tuple)):
            out = []
            for e in v.elts:
                s = const_str(e)
                if s is None:
                    return None
                out.append(s)
            return out
        return None

    def mro(self):
        """Linearisation over repo classes (DFS left-to-right, dedupe keeping
        last occurrence like C3 does for the simple hierarchies in this
        repo)."""
        out = [self]
        for b in self.bases:
            for c in b.mro():
                if c in out:
                    out.remove(c)
                out.append(c)
        return out

    def find_method(self, name):
        for c in self.mro():
            if name in c.methods:
                return c.methods[name]
        return None

    def find_setter(self, name):
        for c in self.mro():
            if name in c.setters:
                return c.setters[name]
        return None

    def find_const(self, name):
        for c in self.mro():
            if name in c.consts:
                return c.consts[name]
        return None

    def is_subclass_of(self, other_name):
        return any(c.name == other_name for c in self.mro())

    def __repr__(self):
        return '<Class %s>' % self.fq


class Module:
    def __init__(self, name, relpath, source):
        self.name = name
        self.relpath = relpath
        self.source = source
        self.tree = ast.parse(source, filename=relpath)
        if os.environ.get('PWSA_NO_ALPHA') != '1':
            from . import alpha
            self.renamed = alpha.canonicalise(self.tree, relpath)
        self.classes = {}
        self.functions = {}
        self.consts = {}      # name -> value node (last module-level assign)
        self.imports = {}     # local name -> (module, name or None)
        for st in self.tree.body:
            self._top(st)

    def _top(self, st):
        if isinstance(st, ast.ClassDef):
            self.classes[st.name] = Class(self, st)
        elif isinstance(st, (ast.FunctionDef, ast.AsyncFunctionDef)):
            self.functions[st.name] = Func(self, st)
        elif isinstance(st, ast.Assign):
            for t in st.targets:
                if isinstance(t, ast.Name):
                    self.consts[t.id] = st.value
        elif isinstance(st, ast.AnnAssign) and st.value is not None and \
                isinstance(st.target, ast.Name):
            self.consts[st.target.id] = st.value
        elif isinstance(st, ast.ImportFrom):
            for a in st.names:
                self.imports[a.asname or a.name] = (
                    ('.' * st.level) + (st.module or ''), a.name)
        elif isinstance(st, ast.Import):
            for a in st.names:
                self.imports[a.asname or a.name.split('.')[0]] = (a.name, None)
        elif isinstance(st, (ast.If, ast.Try)):
            for sub in ast.iter_child_nodes(st):
                if isinstance(sub, ast.stmt):
                    self._top(sub)
            if isinstance(st, ast.Try):
                for h in st.handlers:
                    for sub in h.body:
                        self._top(sub)

    def all_funcs(self):
        """Every Func in the module, including methods, setters, nested."""
        out = []

        def rec(f):
            out.append(f)
            for n in f.nested.values():
                rec(n)
        for f in self.functions.values():
            rec(f)
        for c in self.classes.values():
            for f in list(c.methods.values()) + list(c.setters.values()):
                rec(f)
            for n, f in c.getters.items():
                if c.methods.get(n) is not f:
                    rec(f)
        return out


class Repo:
    """All analysed modules. `overlay` maps relpath -> replacement source."""

    def __init__(self, root=None, overlay=None):
        self.root = root or REPO
        self.overlay = overlay or {}
        self.modules = {}     # dotted module name -> Module
        self.by_path = {}
        for pkg in PACKAGES:
            d = os.path.join(self.root, pkg)
            if not os.path.isdir(d):
                raise AnalysisError('package directory missing: %s' % d)
            for fn in sorted(os.listdir(d)):
                if not fn.endswith('.py'):
                    continue
                rel = pkg + '/' + fn
                self._load(rel)
        self._link_classes()

    def _load(self, rel):
        if rel in self.overlay:
            src = self.overlay[rel]
        else:
            with open(os.path.join(self.root, rel), encoding='utf-8') as f:
                src = f.read()
        name = rel[:-3].replace('/', '.')
        if name.endswith('.__init__'):
            name = name[:-9]
        try:
            m = Module(name, rel, src)
        except SyntaxError as e:
            raise AnalysisError('cannot parse %s: %s' % (rel, e))
        self.modules[name] = m
        self.by_path[rel] = m

    def read_text(self, rel):
        if rel in self.overlay:
            return self.overlay[rel]
        p = os.path.join(self.root, rel)
        if not os.path.exists(p):
            raise AnalysisError('file missing: %s' % rel)
        with open(p, encoding='utf-8') as f:
            return f.read()

    # -- lookup -----------------------------------------------------------
    def module(self, relpath_or_name):
        m = self.by_path.get(relpath_or_name) or \
            self.modules.get(relpath_or_name)
        if m is None:
            raise AnalysisError('module vanished: %s' % relpath_or_name)
        return m

    def cls(self, relpath, name):
        c = self.module(relpath).classes.get(name)
        if c is None:
            raise AnalysisError('class vanished: %s:%s' % (relpath, name))
        return c

    def func(self, relpath, qualname):
        m = self.module(relpath)
        parts = qualname.split('.')
        if len(parts) == 1:
            f = m.functions.get(parts[0])
        else:
            c = m.classes.get(parts[0])
            f = None
            if c is not None:
                f = c.methods.get(parts[1])
                if f is None:
                    f = c.setters.get(parts[1])
            for p in parts[2:]:
                if f is None:
                    break
                f = f.nested.get(p)
        if f is None:
            raise AnalysisError('function vanished: %s:%s'
                                % (relpath, qualname))
        return f

    def func_opt(self, relpath, qualname):
        try:
            return self.func(relpath, qualname)
        except AnalysisError:
            return None

    def find_class(self, name):
        """First repo class with that simple name (pywbem before mock)."""
        for m in self.modules.values():
            if name in m.classes:
                return m.classes[name]
        return None

    def resolve_import(self, module, local):
        """Follow `from .x import y` one or more steps to (Module, name)."""
        seen = set()
        m, n = module, local
        while (m.name, n) not in seen:
            seen.add((m.name, n))
            if n in m.classes or n in m.functions or n in m.consts:
                return m, n
            imp = m.imports.get(n)
            if imp is None:
                return None
            modname, name = imp
            if name is None:
                return None
            if modname.startswith('.'):
                level = len(modname) - len(modname.lstrip('.'))
                base = m.name.split('.')
                # module (not package) -> drop own name first
                if not m.relpath.endswith('__init__.py'):
                    base = base[:-1]
                base = base[:len(base) - (level - 1)]
                rest = modname.lstrip('.')
                target = '.'.join(base + ([rest] if rest else []))
            else:
                target = modname
            tm = self.modules.get(target)
            if tm is None:
                # maybe "from . import name" style importing a module
                tm2 = self.modules.get(target + '.' + name)
                if tm2 is not None:
                    return tm2, None
                return None
            if name == '*':
                return None
            m, n = tm, name
        return None

    def _link_classes(self):
        for m in self.modules.values():
            for c in m.classes.values():
                for b in c.node.bases:
                    bn = dotted(b)
                    if bn is None:
                        continue
                    simple = bn.split('.')[-1]
                    target = None
                    if simple in m.classes and m.classes[simple] is not c:
                        target = m.classes[simple]
                    else:
                        r = self.resolve_import(m, bn.split('.')[0])
                        if r is not None:
                            rm, rn = r
                            if rn is None:
                                target = rm.classes.get(simple)
                            else:
                                target = rm.classes.get(rn)
                        if target is None and '.' in bn:
                            # pywbem.WBEMConnection style
                            target = self.find_class(simple)
                    if target is not None:
                        c.bases.append(target)

    def all_funcs(self, relpaths=None):
        out = []
        for m in self.modules.values():
            if relpaths is not None and m.relpath not in relpaths:
                continue
            out.extend(m.all_funcs())
        return out

    def all_classes(self):
        for m in self.modules.values():
            yield from m.classes.values()

    def subclasses_of(self, name):
        return [c for c in self.all_classes() if c.is_subclass_of(name)]


# ---------------------------------------------------------------------------
# Constant folding
# ---------------------------------------------------------------------------

class NotConst(Exception):
    pass


def fold_const(node, env=None, depth=0):
    """Evaluate a constant expression made of literals, names resolvable
    through `env` (callable name -> node or None), + - * ** // %, unary
    minus, string concatenation/format with constants, tuples/lists/dicts."""
    if depth > 20:
        raise NotConst('depth')
    if isinstance(node, ast.Constant):
        return node.value
    if isinstance(node, ast.Name):
        if env is not None:
            sub = env(node.id)
            if sub is not None:
                return fold_const(sub, env, depth + 1)
        raise NotConst(node.id)
    if isinstance(node, ast.UnaryOp):
        v = fold_const(node.operand, env, depth + 1)
        if isinstance(node.op, ast.USub):
            return -v
        if isinstance(node.op, ast.UAdd):
            return +v
        if isinstance(node.op, ast.Not):
            return not v
        raise NotConst('unary')
    if isinstance(node, ast.BinOp):
        a = fold_const(node.left, env, depth + 1)
        b = fold_const(node.right, env, depth + 1)
        try:
            if isinstance(node.op, ast.Add):
                return a + b
            if isinstance(node.op, ast.Sub):
                return a - b
            if isinstance(node.op, ast.Mult):
                return a * b
            if isinstance(node.op, ast.Pow):
                if isinstance(b, int) and abs(b) > 4096:
                    raise NotConst('pow')
                return a ** b
            if isinstance(node.op, ast.FloorDiv):
                return a // b
            if isinstance(node.op, ast.Mod):
                return a % b
            if isinstance(node.op, ast.BitOr):
                return a | b
        except NotConst:
            raise
        except Exception as e:
            raise NotConst(str(e))
        raise NotConst('binop')
    if isinstance(node, ast.JoinedStr):
        out = []
        for v in node.values:
            if isinstance(v, ast.Constant):
                out.append(str(v.value))
            elif isinstance(v, ast.FormattedValue) and v.format_spec is None \
                    and v.conversion == -1:
                out.append(str(fold_const(v.value, env, depth + 1)))
            else:
                raise NotConst('fstring')
        return ''.join(out)
    if isinstance(node, (ast.Tuple, ast.List)):
        vals = [fold_const(e, env, depth + 1) for e in node.elts]
        return tuple(vals) if isinstance(node, ast.Tuple) else vals
    if isinstance(node, ast.Set):
        return frozenset(fold_const(e, env, depth + 1) for e in node.elts)
    if isinstance(node, ast.Dict):
        return {fold_const(k, env, depth + 1): fold_const(v, env, depth + 1)
                for k, v in zip(node.keys, node.values)}
    if isinstance(node, ast.Call):
        fn = dotted(node.func)
        # 'fmt'.format(const...)
        if isinstance(node.func, ast.Attribute) and \
                node.func.attr == 'format':
            base = fold_const(node.func.value, env, depth + 1)
            args = [fold_const(a, env, depth + 1) for a in node.args]
            kw = {k.arg: fold_const(k.value, env, depth + 1)
                  for k in node.keywords}
            try:
                return base.format(*args, **kw)
            except Exception as e:
                raise NotConst(str(e))
        if fn in ('re.compile',) and node.args:
            return fold_const(node.args[0], env, depth + 1)
        funcs = getattr(env, 'funcs', None)
        if funcs and isinstance(node.func, ast.Name) and \
                node.func.id in funcs and not node.keywords:
            # a module-level function that only computes a constant from
            # its arguments: straight-line assignments and one return
            fdef = funcs[node.func.id].node
            ps = [a.arg for a in fdef.args.args]
            if len(ps) != len(node.args) or fdef.args.vararg or \
                    fdef.args.kwarg or fdef.args.kwonlyargs:
                raise NotConst('call')
            loc = {p_: fold_const(a, env, depth + 1)
                   for p_, a in zip(ps, node.args)}

            def env2(name):
                if name in loc:
                    return ast.Constant(value=loc[name])
                return env(name)
            env2.funcs = funcs
            for st in fdef.body:
                if isinstance(st, ast.Expr) and \
                        isinstance(st.value, ast.Constant):
                    continue
                if isinstance(st, ast.Assign) and len(st.targets) == 1 and \
                        isinstance(st.targets[0], ast.Name):
                    loc[st.targets[0].id] = fold_const(st.value, env2,
                                                       depth + 1)
                    continue
                if isinstance(st, ast.Return) and st.value is not None:
                    return fold_const(st.value, env2, depth + 1)
                raise NotConst('call body')
        raise NotConst('call')
    raise NotConst(type(node).__name__)


def module_env(repo, module, cls=None):
    """Name resolver for fold_const: class consts, module consts, imports."""
    def env(name):
        if cls is not None:
            v = cls.find_const(name)
            if v is not None:
                return v
        if name in module.consts:
            return module.consts[name]
        r = repo.resolve_import(module, name)
        if r is not None:
            rm, rn = r
            if rn is not None and rn in rm.consts:
                return rm.consts[rn]
        return None
    env.funcs = module.functions
    return env


def walk_no_nested(node):
    """ast.walk that does not descend into nested function/class/lambda
    definitions (the node itself is yielded if it is one)."""
    stack = [node]
    first = True
    while stack:
        n = stack.pop()
        yield n
        if not first and isinstance(n, (ast.FunctionDef, ast.AsyncFunctionDef,
                                        ast.ClassDef, ast.Lambda)):
            continue
        first = False
        stack.extend(reversed(list(ast.iter_child_nodes(n))))


def calls_in(node):
    return [n for n in walk_no_nested(node) if isinstance(n, ast.Call)]


def kwarg(call, name):
    for k in call.keywords:
        if k.arg == name:
            return k.value
    return None


def _canon_bound(node):
    """unparse(node) with the variables bound by comprehensions and lambdas
    renamed positionally, so that `[f(k) for k in xs]` equals
    `[f(j) for j in xs]`"""
    import copy
    node = copy.deepcopy(node)
    counter = [0]

    def bound_names(n):
        out = []
        if isinstance(n, (ast.ListComp, ast.SetComp, ast.GeneratorExp,
                          ast.DictComp)):
            for g in n.generators:
                out += [x.id for x in ast.walk(g.target)
                        if isinstance(x, ast.Name)]
        elif isinstance(n, ast.Lambda):
            out += [a.arg for a in n.args.args]
        return out

    def rec(n):
        names = bound_names(n)
        ren = {}
        for nm in names:
            if nm not in ren:
                ren[nm] = '_b%d' % counter[0]
                counter[0] += 1
        if ren:
            for x in ast.walk(n):
                if isinstance(x, ast.Name) and x.id in ren:
                    x.id = ren[x.id]
                elif isinstance(x, ast.arg) and x.arg in ren:
                    x.arg = ren[x.arg]
        for c in ast.iter_child_nodes(n):
            rec(c)
    rec(node)
    return unparse(node)


def eqsrc(node, src):
    """node is structurally the expression/statement written as `src`
    (up to the names of comprehension / lambda variables)."""
    try:
        tree = ast.parse(src)
    except SyntaxError:
        return False
    want = tree.body[0]
    if isinstance(want, ast.Expr) and not isinstance(node, ast.stmt):
        want = want.value
    return node is not None and _canon_bound(node) == _canon_bound(want)


def call_arguments(fnode, call, params, func=None):
    """{parameter name: argument expression} for a call with the callee's
    parameter names `params` (self excluded).  `**d` is expanded where d is
    a dictionary display with constant keys or a dict(k=v, ...) call -
    written in place or held by a local of the function `fnode` that is
    assigned once and not otherwise touched.  Returns (mapping, rest) where
    rest lists the `*x` / `**x` arguments that could not be expanded."""
    out, rest = {}, []
    pos = 0
    for a in call.args:
        if isinstance(a, ast.Starred):
            rest.append(a)
            continue
        if pos < len(params):
            out[params[pos]] = a
        pos += 1

    def pairs_of(d):
        if isinstance(d, ast.Call) and dotted(d.func) == 'dict' and \
                not d.args and all(x.arg for x in d.keywords):
            return [(x.arg, x.value) for x in d.keywords]
        if isinstance(d, ast.Dict) and d.keys and all(
                k is not None and const_str(k) is not None for k in d.keys):
            return [(const_str(k), v) for k, v in zip(d.keys, d.values)]
        if isinstance(d, ast.DictComp) and len(d.generators) == 1 and \
                not d.generators[0].ifs and \
                isinstance(d.generators[0].target, ast.Name) and \
                isinstance(d.generators[0].iter, (ast.Tuple, ast.List)) and \
                all(const_str(e) is not None
                    for e in d.generators[0].iter.elts):
            import copy as _copy
            var = d.generators[0].target.id
            res = []
            for e in d.generators[0].iter.elts:
                class S(ast.NodeTransformer):
                    def visit_Name(self, n):
                        if n.id == var and isinstance(n.ctx, ast.Load):
                            return ast.copy_location(
                                ast.Constant(value=e.value), n)
                        return n
                kx = S().visit(_copy.deepcopy(d.key))
                vx = S().visit(_copy.deepcopy(d.value))
                if const_str(kx) is None:
                    return None
                res.append((const_str(kx), vx))
            return res
        return None
    for k in call.keywords:
        if k.arg is not None:
            out[k.arg] = k.value
            continue
        d = k.value
        if isinstance(d, ast.Name) and fnode is not None:
            uses = [n for n in walk_no_nested(fnode)
                    if isinstance(n, ast.Name) and n.id == d.id]
            defs = [n for n in walk_no_nested(fnode)
                    if isinstance(n, ast.Assign) and len(n.targets) == 1 and
                    isinstance(n.targets[0], ast.Name) and
                    n.targets[0].id == d.id]
            d = defs[0].value if len(defs) == 1 and len(uses) == 2 else None
        ps = pairs_of(d) if d is not None else None
        if ps is None and d is not None and func is not None:
            # a helper that returns the dictionary
            from .flow import value_of
            ps = pairs_of(value_of(func, d))
        if ps is None:
            rest.append(k)
        else:
            for kk, v in ps:
                out[kk] = v
    return out, rest
