"""E1 - call resolution without a type checker.

resolve(call, func) -> (targets, how)   targets: list of Func
how in {'local', 'module', 'import', 'self', 'super', 'class', 'cha',
        'builtin', 'stdlib', 'dynamic', 'unresolved'}
"""
import ast
import builtins

from .model import dotted, walk_no_nested, const_str

BUILTIN_NAMES = set(dir(builtins))

# method names that are overwhelmingly builtin container / str / file
# methods: never resolved by name to repo classes unless the receiver type
# is known
COMMON_METHODS = {
    'get', 'items', 'keys', 'values', 'copy', 'update', 'append', 'extend',
    'pop', 'add', 'remove', 'clear', 'lower', 'upper', 'strip', 'split',
    'join', 'format', 'encode', 'decode', 'startswith', 'endswith', 'find',
    'index', 'count', 'replace', 'insert', 'sort', 'setdefault', 'read',
    'write', 'close', 'flush', 'group', 'groups', 'match', 'search', 'sub',
    'put', 'join', 'start', 'isdigit', 'lstrip', 'rstrip', 'rfind',
    'partition', 'rpartition', 'title', 'casefold', 'seek', 'tell',
    'readline', 'readlines', 'popitem', 'discard', 'union', 'total_seconds',
    'utcoffset', 'isoformat', 'timetuple', 'fromkeys', 'reverse', 'warning',
    'debug', 'info', 'error', 'exception', 'critical', 'log', 'acquire',
    'release', 'wait', 'set', 'is_set', 'notify', 'qsize', 'empty', 'full',
    'put_nowait', 'get_nowait', 'task_done', 'send', 'recv', 'connect',
    'settimeout', 'shutdown', 'mount', 'post', 'request', 'iter_content',
    'splitlines', 'zfill', 'ljust', 'rjust', 'center', 'expandtabs',
    'isalpha', 'isalnum', 'isspace', 'fileno', 'name', 'tzname', 'dst',
    'toxml', 'toprettyxml', 'appendChild', 'setAttribute', 'createTextNode',
    'createCDATASection', 'parse', 'feed', 'compile', 'findall', 'finditer',
    'fullmatch', 'span', 'end', 'is_alive', 'daemon', 'setDaemon',
    'hexdigest', 'digest', 'to_bytes', 'from_bytes', 'bit_length',
    'as_integer_ratio', 'hex', 'is_integer', 'conjugate', 'real', 'imag',
    'difference', 'intersection', 'issubset', 'issuperset', 'most_common',
    'elements', 'subtract', 'move_to_end', 'cast', 'getLogger', 'addHandler',
    'removeHandler', 'setLevel', 'setFormatter', 'isEnabledFor', 'handle',
    'emit', 'format_exc', 'print_exc', 'items_nocase', 'values_nocase',
}


class Resolver:
    def __init__(self, repo):
        self.repo = repo
        self.by_method = {}     # method name -> [Func] over repo classes
        for c in repo.all_classes():
            for n, f in c.methods.items():
                self.by_method.setdefault(n, []).append(f)
        self.stats = {'resolved': 0, 'builtin': 0, 'unresolved': 0}
        self.dynamic = []       # [(predicate(call, func) -> [Func] or None)]

    # -- helpers ---------------------------------------------------------
    def lookup_name(self, func, name):
        """A bare name used in func -> ('func', Func) | ('class', Class) |
        ('builtin', name) | None"""
        f = func
        while f is not None:
            if name in f.nested:
                return 'func', f.nested[name]
            f = f.parent
        m = func.module
        if name in m.functions:
            return 'func', m.functions[name]
        if name in m.classes:
            return 'class', m.classes[name]
        r = self.repo.resolve_import(m, name)
        if r is not None:
            rm, rn = r
            if rn is None:
                return 'module', rm
            if rn in rm.functions:
                return 'func', rm.functions[rn]
            if rn in rm.classes:
                return 'class', rm.classes[rn]
            return None
        if name in m.imports:
            return 'external', m.imports[name]
        if name in BUILTIN_NAMES:
            return 'builtin', name
        return None

    def class_ctor(self, cls):
        out = []
        for n in ('__new__', '__init__'):
            f = cls.find_method(n)
            if f is not None:
                out.append(f)
        return out

    def resolve(self, call, func):
        for dyn in self.dynamic:
            r = dyn(call, func)
            if r is not None:
                return r, 'dynamic'
        fn = call.func
        if isinstance(fn, ast.Name):
            r = self.lookup_name(func, fn.id)
            if r is None:
                # a local variable holding a callable
                return [], 'unresolved'
            kind, obj = r
            if kind == 'func':
                return [obj], 'module'
            if kind == 'class':
                return self.class_ctor(obj), 'class'
            if kind == 'builtin':
                return [], 'builtin'
            return [], 'stdlib'
        if isinstance(fn, ast.Attribute):
            base = fn.value
            name = fn.attr
            # super().m()
            if isinstance(base, ast.Call) and dotted(base.func) == 'super' \
                    and func.cls is not None:
                for c in func.cls.mro()[1:]:
                    if name in c.methods:
                        return [c.methods[name]], 'super'
                return [], 'builtin'
            if isinstance(base, ast.Name):
                if base.id in ('self', 'cls') and func.cls is not None:
                    m = func.cls.find_method(name)
                    if m is not None:
                        # include overrides in repo subclasses
                        out = [m]
                        for sc in self.repo.subclasses_of(func.cls.name):
                            if sc is not func.cls and name in sc.methods \
                                    and sc.methods[name] not in out:
                                out.append(sc.methods[name])
                        return out, 'self'
                    # attribute holding a callable / inherited from stdlib
                    return [], 'unresolved' if name not in COMMON_METHODS \
                        else 'builtin'
                r = self.lookup_name(func, base.id)
                if r is not None:
                    kind, obj = r
                    if kind == 'module':
                        if name in obj.functions:
                            return [obj.functions[name]], 'import'
                        if name in obj.classes:
                            return self.class_ctor(obj.classes[name]), \
                                'class'
                        return [], 'unresolved'
                    if kind == 'class':
                        m = obj.find_method(name)
                        if m is not None:
                            return [m], 'class'
                        return [], 'builtin'
                    if kind in ('external', 'builtin'):
                        return [], 'stdlib'
            # obj.method(): class-hierarchy resolution by name
            if name in COMMON_METHODS:
                return [], 'builtin'
            cands = self.by_method.get(name, [])
            if 0 < len(cands) <= 6:
                return list(cands), 'cha'
            if not cands:
                return [], 'stdlib'
            return [], 'unresolved'
        return [], 'unresolved'

    def setter_targets(self, assign_target, func):
        """`self.attr = v` inside a method -> the property setter."""
        if isinstance(assign_target, ast.Attribute) and \
                isinstance(assign_target.value, ast.Name) and \
                assign_target.value.id == 'self' and func.cls is not None:
            s = func.cls.find_setter(assign_target.attr)
            if s is not None and s is not func:
                return [s]
        return []


def add_pywbem_dynamic(res, repo):
    """Frozen resolvers for the dynamic-dispatch idioms of pywbem; each is
    verified structurally (the idiom must still be present) by
    check_dynamic_idioms()."""
    tp = repo.cls('pywbem/_tupleparse.py', 'TupleParser')
    parse_methods = [f for n, f in tp.methods.items()
                     if n.startswith('parse_') and n != 'parse_any']
    types_mod = repo.module('pywbem/_cim_types.py')
    tfn = types_mod.consts.get('_TYPE_FROM_NAME')
    value_ctors = []
    if isinstance(tfn, ast.Dict):
        for v in tfn.values:
            if isinstance(v, ast.Name) and v.id in types_mod.classes:
                value_ctors += res.class_ctor(types_mod.classes[v.id])
    inm = repo.cls('pywbem/_cim_obj.py', 'CIMInstanceName')
    value_ctors += res.class_ctor(inm)
    value_ctors = list(dict.fromkeys(value_ctors))

    def dyn(call, func):
        fn = call.func
        # TupleParser.parse_any: func = getattr(self, 'parse_' + ...);
        # func(tup_tree)
        if func.cls is tp and func.name == 'parse_any' and \
                isinstance(fn, ast.Name) and fn.id == 'func':
            return list(parse_methods)
        # x = type_from_name(t) ... x(value)
        if isinstance(fn, ast.Name) and fn.id not in func.params:
            for n in walk_no_nested(func.node):
                if isinstance(n, ast.Assign) and len(n.targets) == 1 and \
                        isinstance(n.targets[0], ast.Name) and \
                        n.targets[0].id == fn.id and \
                        isinstance(n.value, ast.Call) and \
                        dotted(n.value.func) == 'type_from_name':
                    return list(value_ctors)
        return None
    res.dynamic.append(dyn)
    return {'parse_methods': len(parse_methods),
            'value_ctors': [f.qualname for f in value_ctors]}


def check_dynamic_idioms(repo):
    """Raise AnalysisError if a dynamic-dispatch idiom the frozen resolvers
    rely on has disappeared."""
    from .model import AnalysisError
    tp = repo.cls('pywbem/_tupleparse.py', 'TupleParser')
    pa = tp.methods.get('parse_any')
    if pa is None:
        raise AnalysisError('TupleParser.parse_any vanished')
    ok = any(isinstance(n, ast.BinOp) and const_str(n.left) == 'parse_'
             for n in walk_no_nested(pa.node)) and \
        any(isinstance(n, ast.Call) and dotted(n.func) == 'getattr'
            for n in walk_no_nested(pa.node))
    if not ok:
        raise AnalysisError("parse_any no longer dispatches via "
                            "getattr(self, 'parse_' + name)")
