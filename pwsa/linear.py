"""Linearity of CIM-XML element nodes.

`_cim_xml.X(...)` objects are xml.dom.minidom nodes: appendChild() MOVES a
node that already has a parent.  A node object that is appended more than
once (created outside a loop and appended inside it, or appended twice on
one path) therefore ends up in the document only once - the other
positions silently disappear (array entries are dropped or reordered, the
request and the reply no longer say what the object says).

Rule: every constructed element node is consumed (appended to a list,
passed to another element constructor, returned) at most once per
construction: no consumption in a loop that does not contain the
construction, and no two consumptions on one path.
"""
import ast

from .model import dotted, norm
from .cfg import CFG, enclosing_stmt_map

FILES = ('pywbem/_cim_obj.py', 'pywbem/_cim_operations.py',
         'pywbem/_listener.py', 'pywbem/_cim_xml.py')

_LOOPS = (ast.For, ast.While, ast.ListComp, ast.GeneratorExp, ast.SetComp,
          ast.DictComp)


def _loop_paths(func):
    out = {}

    def rec(n, stack):
        out[id(n)] = tuple(stack)
        for c in ast.iter_child_nodes(n):
            if isinstance(c, (ast.FunctionDef, ast.AsyncFunctionDef,
                              ast.Lambda, ast.ClassDef)):
                continue
            if isinstance(c, _LOOPS):
                rec(c, stack + [id(c)])
            else:
                rec(c, stack)
    rec(func.node, [])
    return out


def _is_node_ctor(v):
    vals = [v.body, v.orelse] if isinstance(v, ast.IfExp) else [v]
    return all(isinstance(x, ast.Call) and
               (dotted(x.func) or '').startswith('_cim_xml.') and
               (dotted(x.func) or '').count('.') == 1 for x in vals)


def check(repo, files=FILES):
    """returns (sites, findings) ; finding = (file, func, construct, fact,
    line, message)"""
    sites = 0
    findings = []
    for rel in files:
        m = repo.module(rel)
        for f in m.all_funcs():
            defs = {}
            for n in ast.walk(f.node):
                if isinstance(n, ast.Assign) and len(n.targets) == 1 and \
                        isinstance(n.targets[0], ast.Name) and \
                        _is_node_ctor(n.value):
                    defs.setdefault(n.targets[0].id, []).append(n)
            if not defs:
                continue
            lp = _loop_paths(f)
            cfg = None
            smap = None
            parent = {}
            for n in ast.walk(f.node):
                for c in ast.iter_child_nodes(n):
                    parent[id(c)] = n
            for name, dlist in defs.items():
                # names re-bound to something that is not a node constructor
                # (e.g. value_xml = None) are still node variables
                uses = []
                for u in ast.walk(f.node):
                    if not (isinstance(u, ast.Name) and u.id == name and
                            isinstance(u.ctx, ast.Load)):
                        continue
                    p = parent.get(id(u))
                    consumed = False
                    if isinstance(p, ast.Call) and u in p.args:
                        d = dotted(p.func) or ''
                        if (isinstance(p.func, ast.Attribute) and
                                p.func.attr in ('append', 'appendChild',
                                                'insert')) or \
                                d.startswith('_cim_xml.'):
                            consumed = True
                    elif isinstance(p, ast.keyword):
                        consumed = True
                    elif isinstance(p, (ast.List, ast.Tuple)):
                        consumed = True
                    elif isinstance(p, ast.Return):
                        consumed = True
                    if consumed:
                        uses.append(u)
                sites += 1
                for u in uses:
                    for d in dlist:
                        ld, lu = lp.get(id(d), ()), lp.get(id(u), ())
                        if len(lu) > len(ld) and lu[:len(ld)] == ld and \
                                u.lineno > d.lineno:
                            findings.append((
                                rel, f.qualname,
                                '%s <- %s' % (name, norm(d.value, 50)),
                                'node-reused-in-loop', u.lineno,
                                'the element node %s is created once (%s) '
                                'but appended inside a loop: a DOM node has '
                                'one parent, appendChild() moves it, so only '
                                'the last position survives (entries of the '
                                'value silently disappear from the CIM-XML)'
                                % (name, norm(d, 60))))
                            break
                # two consumptions on one control-flow path with no
                # re-construction in between
                if len(uses) > 1:
                    if cfg is None:
                        cfg = CFG(f.node)
                        smap = enclosing_stmt_map(f.node)
                    dstm = {id(smap.get(id(d.value), d)) for d in dlist} | \
                        {id(d) for d in dlist}
                    seen = set()
                    for a in uses:
                        for b in uses:
                            if a is b:
                                continue
                            sa, sb = smap.get(id(a)), smap.get(id(b))
                            if sa is None or sb is None:
                                continue
                            if sa is sb:
                                if a.lineno > b.lineno or (
                                        a.lineno == b.lineno and
                                        a.col_offset >= b.col_offset):
                                    continue
                                twice = not isinstance(sa, (ast.If, ast.For,
                                                            ast.While))
                            else:
                                if sa not in cfg.succ or sb not in cfg.succ:
                                    continue
                                twice = cfg.path_avoiding(
                                    sa, sb, lambda n: id(n) in dstm) \
                                    is not None
                            key = (name, a.lineno, b.lineno)
                            if twice and key not in seen:
                                seen.add(key)
                                findings.append((
                                    rel, f.qualname, name,
                                    'node-consumed-twice', b.lineno,
                                    'the element node %s is placed into the '
                                    'document at line %d and again at line '
                                    '%d without being re-created: the second '
                                    'placement moves it'
                                    % (name, a.lineno, b.lineno)))
    return sites, findings
