"""Guard predicates shared by the escape-analysis clients (G-regex,
G-checknode)."""
import ast
import re

from .model import (walk_no_nested, dotted, norm, const_str, fold_const,
                    module_env, NotConst)
from . import rx


def regex_const(repo, func, expr):
    """(pattern, flags) of an expression naming a compiled regex constant
    (module constant, imported constant, class attribute via self./cls.) or
    a literal pattern; None if not resolvable."""
    node = None
    mod = func.module
    if isinstance(expr, ast.Name):
        node = mod.consts.get(expr.id)
        if node is None:
            r = repo.resolve_import(mod, expr.id)
            if r is not None and r[1] in r[0].consts:
                mod = r[0]
                node = mod.consts[r[1]]
    elif isinstance(expr, ast.Attribute) and isinstance(expr.value, ast.Name):
        if expr.value.id in ('self', 'cls') and func.cls is not None:
            node = func.cls.find_const(expr.attr)
        else:
            r = repo.resolve_import(mod, expr.value.id)
            if r is not None and r[1] is None and \
                    expr.attr in r[0].consts:
                mod = r[0]
                node = mod.consts[expr.attr]
            elif r is not None and r[1] in r[0].classes:
                node = r[0].classes[r[1]].find_const(expr.attr)
            elif expr.value.id in mod.classes:
                node = mod.classes[expr.value.id].find_const(expr.attr)
    elif isinstance(expr, ast.Constant) and isinstance(expr.value, str):
        return expr.value, 0
    if node is None:
        return None
    env = module_env(repo, mod, func.cls)
    flags = 0
    pat_node = node
    if isinstance(node, ast.Call) and dotted(node.func) == 're.compile':
        pat_node = node.args[0]
        fl = node.args[1] if len(node.args) > 1 else None
        for k in node.keywords:
            if k.arg == 'flags':
                fl = k.value
        if fl is not None:
            flags = _flags(fl)
            if flags is None:
                return None
    try:
        pat = fold_const(pat_node, env)
    except NotConst:
        return None
    if not isinstance(pat, str):
        return None
    return pat, flags


def _flags(node):
    if isinstance(node, ast.BinOp) and isinstance(node.op, ast.BitOr):
        a, b = _flags(node.left), _flags(node.right)
        if a is None or b is None:
            return None
        return a | b
    d = dotted(node)
    if d and d.startswith('re.') and hasattr(re, d[3:]):
        return int(getattr(re, d[3:]))
    if isinstance(node, ast.Constant) and isinstance(node.value, int):
        return node.value
    return None


def match_call(expr):
    """(pattern_expr, method, subject_expr) if expr is P.match(s) /
    re.match(P, s) (match|search|fullmatch)."""
    if isinstance(expr, ast.Call) and isinstance(expr.func, ast.Attribute) \
            and expr.func.attr in ('match', 'search', 'fullmatch'):
        if dotted(expr.func.value) == 're' and len(expr.args) >= 2:
            return expr.args[0], expr.func.attr, expr.args[1]
        if expr.args:
            return expr.func.value, expr.func.attr, expr.args[0]
    return None


def conv_guard_factory(repo, log=None):
    """conv_guard(call, func, facts): int(x[, base]) / float(x) is covered
    by a dominating successful regex match whose language is inside the
    conversion's domain."""
    def local_assign(func, name):
        vals = [n.value for n in walk_no_nested(func.node)
                if isinstance(n, ast.Assign) and len(n.targets) == 1 and
                isinstance(n.targets[0], ast.Name) and
                n.targets[0].id == name]
        return vals[0] if len(vals) == 1 else None

    def guard(call, func, facts):
        fn = dotted(call.func)
        arg = call.args[0]
        base = 10
        if fn == 'int':
            b = call.args[1] if len(call.args) > 1 else None
            for k in call.keywords:
                if k.arg == 'base':
                    b = k.value
            if b is not None:
                if isinstance(b, ast.Constant) and isinstance(b.value, int):
                    base = b.value
                else:
                    return False
        if isinstance(arg, ast.Name):
            # digits = m.group(1) ... int(digits, 2): a local that holds
            # one group of the match stands for it
            v = local_assign(func, arg.id)
            if isinstance(v, ast.Call) and \
                    isinstance(v.func, ast.Attribute) and \
                    v.func.attr == 'group' and \
                    isinstance(v.func.value, ast.Name) and \
                    arg.id not in func.params:
                arg = v
        argt = norm(arg)
        for t, pol in facts:
            if (not pol) and isinstance(t, ast.UnaryOp) and \
                    isinstance(t.op, ast.Not):
                t, pol = t.operand, True       # `if not m: return`
            if not pol:
                continue
            mc = match_call(t)
            group_no = None
            if mc is None and isinstance(t, ast.Name):
                # `m = P.match(x)` ... `if m:` ... int(m.group(k))
                v = local_assign(func, t.id)
                mc2 = match_call(v) if v is not None else None
                if mc2 is None:
                    continue
                if isinstance(arg, ast.Call) and \
                        isinstance(arg.func, ast.Attribute) and \
                        arg.func.attr == 'group' and \
                        norm(arg.func.value) == t.id and arg.args and \
                        isinstance(arg.args[0], ast.Constant):
                    mc = mc2
                    group_no = arg.args[0].value
                elif norm(mc2[2]) == argt:
                    mc = mc2
                else:
                    continue
            elif mc is None and isinstance(t, ast.Compare) and \
                    len(t.ops) == 1 and isinstance(t.ops[0], ast.IsNot) and \
                    isinstance(t.left, ast.Name) and \
                    isinstance(t.comparators[0], ast.Constant) and \
                    t.comparators[0].value is None:
                v = local_assign(func, t.left.id)
                mc2 = match_call(v) if v is not None else None
                if mc2 is None:
                    continue
                if isinstance(arg, ast.Call) and \
                        isinstance(arg.func, ast.Attribute) and \
                        arg.func.attr == 'group' and \
                        norm(arg.func.value) == t.left.id and arg.args and \
                        isinstance(arg.args[0], ast.Constant):
                    mc = mc2
                    group_no = arg.args[0].value
                else:
                    continue
            elif mc is not None:
                if norm(mc[2]) != argt:
                    continue
            else:
                continue
            rc = regex_const(repo, func, mc[0])
            if rc is None:
                continue
            pat, flags = rc
            if fn == 'int':
                ok, why = rx.safe_for_int(pat, flags, base, group_no, mc[1])
            else:
                ok, why = rx.safe_for_float(pat, flags, mc[1])
            if log is not None:
                log.append({'function': func.qualname, 'conversion':
                            norm(call), 'pattern': pat, 'safe': ok,
                            'why': why})
            if ok:
                return True
        return False
    return guard


def format_problems(call):
    """Problems of a `_format(<const>, args...)` / '<const>'.format(...) call
    that make str.format itself raise: mixing automatic and manual field
    numbering, positional index beyond the arguments, unknown keyword."""
    import string
    fmt = None
    args = []
    kw = set()
    star = False
    d = dotted(call.func)
    if d in ('_format',) and call.args:
        fmt = const_str(call.args[0])
        args = call.args[1:]
    elif isinstance(call.func, ast.Attribute) and call.func.attr == 'format':
        fmt = const_str(call.func.value)
        args = call.args
    if fmt is None:
        tmpl = None
        if d in ('_format',) and call.args:
            tmpl = call.args[0]
        elif isinstance(call.func, ast.Attribute) and \
                call.func.attr == 'format':
            tmpl = call.func.value
        if isinstance(tmpl, ast.JoinedStr) and any(
                isinstance(v, ast.FormattedValue) for v in tmpl.values):
            vals = [norm(v.value, 30) for v in tmpl.values
                    if isinstance(v, ast.FormattedValue)]
            return ['the format template is itself an f-string that '
                    'interpolates %s: braces in that data are parsed as '
                    'replacement fields (KeyError / IndexError / ValueError '
                    'from str.format)' % ', '.join(vals)]
        return []
    for a in args:
        if isinstance(a, ast.Starred):
            star = True
    for k in call.keywords:
        if k.arg is None:
            star = True
        else:
            kw.add(k.arg)
    out = []
    auto = manual = False
    try:
        fields = list(string.Formatter().parse(fmt))
    except ValueError as e:
        return ['malformed format string: %s' % e]
    for lit, name, spec, conv in fields:
        if name is None:
            continue
        head = name.split('.')[0].split('[')[0]
        if head == '':
            auto = True
        elif head.isdigit():
            manual = True
            if not star and int(head) >= len(args):
                out.append('field {%s} but only %d positional argument(s)'
                           % (head, len(args)))
        else:
            if not star and head not in kw:
                out.append('field {%s} has no keyword argument' % head)
    if auto and manual:
        out.append('mixes automatic {} and manual {N} field numbering '
                   '(str.format raises ValueError)')
    if auto and not manual and not star:
        n = sum(1 for _, name, _, _ in fields if name == '' or
                (name is not None and name.split('.')[0].split('[')[0] == ''))
        if n > len(args):
            out.append('%d automatic fields but %d argument(s)'
                       % (n, len(args)))
    return out


def run_format_rule(repo, rep, rr, func_filter):
    """Every _format()/str.format() call with a constant format string in
    the selected functions can actually be evaluated (else the intended
    error is replaced by ValueError/KeyError/IndexError)."""
    for f in repo.all_funcs():
        if not func_filter(f):
            continue
        rr.functions.add(f.fq)
        for c in walk_no_nested(f.node):
            if not isinstance(c, ast.Call):
                continue
            fmtcall = dotted(c.func) == '_format' or (
                isinstance(c.func, ast.Attribute) and
                c.func.attr == 'format' and
                (const_str(c.func.value) is not None or
                 isinstance(c.func.value, ast.JoinedStr)))
            if not fmtcall:
                continue
            ps = format_problems(c)
            rr.sites += 1
            arg = c.args[0] if c.args else c
            rr.ob(not ps, '%s|%s' % (f.qualname, norm(arg, 60)))
            for pr in ps:
                rep.finding(rr, f.qualname, norm(arg, 80), 'format', f.file,
                            c.lineno, 'building this message raises instead '
                            'of the intended error: ' + pr)
