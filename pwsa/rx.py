"""E6 - regular expressions as data (re._parser ASTs of *extracted constants*).

Facts: alphabet of a (sub)pattern, end anchoring, group sub-patterns,
bounded sample generation.  The standard `re`/`int`/`float` functions are
applied to the extracted constants and to generated samples only; no repo
code runs.
"""
import re
import itertools

try:
    import re._parser as sre_parse
    import re._constants as sre_c
except ImportError:  # pragma: no cover  (python < 3.11)
    import sre_parse
    import sre_constants as sre_c

ALL = None   # unbounded alphabet marker


def parse(pattern, flags=0):
    return sre_parse.parse(pattern, flags)


def _cat_chars(cat, negate_ok=False):
    name = str(cat)
    if 'CATEGORY_DIGIT' in name and 'NOT' not in name:
        return set('0123456789') | {'DIGIT*'}   # unicode digits too
    return ALL


def class_chars(items):
    """chars of an IN node; returns (set or ALL)."""
    out = set()
    negate = False
    for op, av in items:
        if op is sre_c.NEGATE:
            negate = True
        elif op is sre_c.LITERAL:
            out.add(chr(av))
        elif op is sre_c.RANGE:
            lo, hi = av
            if hi - lo > 512:
                return ALL
            out.update(chr(c) for c in range(lo, hi + 1))
        elif op is sre_c.CATEGORY:
            c = _cat_chars(av)
            if c is ALL:
                return ALL
            out |= c
        else:
            return ALL
    if negate:
        return ALL
    return out


def alphabet(p):
    """Set of characters that may occur in a match of p (ALL if unbounded).
    'DIGIT*' in the set marks \\d (any Unicode decimal digit)."""
    out = set()
    for op, av in p:
        if op is sre_c.LITERAL:
            out.add(chr(av))
        elif op is sre_c.NOT_LITERAL or op is sre_c.ANY:
            return ALL
        elif op is sre_c.IN:
            c = class_chars(av)
            if c is ALL:
                return ALL
            out |= c
        elif op is sre_c.BRANCH:
            for alt in av[1]:
                a = alphabet(alt)
                if a is ALL:
                    return ALL
                out |= a
        elif op in (sre_c.MAX_REPEAT, sre_c.MIN_REPEAT) or \
                str(op) == 'POSSESSIVE_REPEAT':
            a = alphabet(av[2])
            if a is ALL:
                return ALL
            out |= a
        elif op is sre_c.SUBPATTERN:
            a = alphabet(av[3])
            if a is ALL:
                return ALL
            out |= a
        elif op is sre_c.AT:
            continue
        elif op in (sre_c.ASSERT, sre_c.ASSERT_NOT):
            continue
        elif op is sre_c.CATEGORY:
            c = _cat_chars(av)
            if c is ALL:
                return ALL
            out |= c
        elif op is sre_c.GROUPREF:
            continue
        else:
            return ALL
    return out


def end_anchored(p):
    items = list(p)
    while items:
        op, av = items[-1]
        if op is sre_c.AT and av in (sre_c.AT_END, sre_c.AT_END_STRING):
            return True
        if op is sre_c.SUBPATTERN:
            items = list(av[3])
            continue
        if op is sre_c.BRANCH:
            return all(end_anchored(alt) for alt in av[1])
        return False
    return False


def end_admits_newline(p):
    """the pattern ends with `$` (which also matches before a trailing
    newline), not with `\\Z`"""
    items = list(p)
    while items:
        op, av = items[-1]
        if op is sre_c.AT:
            return av is sre_c.AT_END
        if op is sre_c.SUBPATTERN:
            items = list(av[3])
            continue
        if op is sre_c.BRANCH:
            return any(end_admits_newline(alt) for alt in av[1])
        return False
    return False


def group(p, n):
    """Sub-pattern of capturing group n (or None)."""
    for op, av in p:
        if op is sre_c.SUBPATTERN:
            if av[0] == n:
                return av[3]
            g = group(av[3], n)
            if g is not None:
                return g
        elif op is sre_c.BRANCH:
            for alt in av[1]:
                g = group(alt, n)
                if g is not None:
                    return g
        elif op in (sre_c.MAX_REPEAT, sre_c.MIN_REPEAT):
            g = group(av[2], n)
            if g is not None:
                return g
    return None


def _class_reps(items):
    c = class_chars(items)
    if c is ALL:
        neg = any(op is sre_c.NEGATE for op, _ in items)
        if neg:
            excluded = set()
            for op, av in items:
                if op is sre_c.LITERAL:
                    excluded.add(chr(av))
                elif op is sre_c.RANGE:
                    excluded.update(chr(x) for x in range(av[0], av[1] + 1))
            cands = ['a', 'Z', '0', ' ', '\n', '"', '\\', "'", 'é',
                     '\U0001F600', ':', '.', '/', '=', ',']
            return [x for x in cands if x not in excluded][:6]
        return ['a', '0', '_']
    cs = sorted(x for x in c if x != 'DIGIT*')
    reps = []
    if cs and len(cs) <= 12:
        reps = list(cs)
    elif cs:
        reps = [cs[0], cs[-1]]
        if len(cs) > 2:
            reps.append(cs[len(cs) // 2])
    if 'DIGIT*' in c:
        reps.append('٣')     # ARABIC-INDIC DIGIT THREE
    return list(dict.fromkeys(reps))


def samples(p, limit=400):
    """Representative strings of the language of p (not exhaustive)."""
    def gen(items):
        parts = []
        for op, av in items:
            if op is sre_c.LITERAL:
                parts.append([chr(av)])
            elif op is sre_c.NOT_LITERAL:
                parts.append(['a' if av != ord('a') else 'b', '\n'])
            elif op is sre_c.ANY:
                parts.append(['a', ' ', 'é'])
            elif op is sre_c.IN:
                parts.append(_class_reps(av) or [''])
            elif op is sre_c.CATEGORY:
                parts.append(['0', '9'])
            elif op is sre_c.BRANCH:
                alts = []
                for alt in av[1]:
                    alts += gen(alt)[:12]
                parts.append(alts or [''])
            elif op in (sre_c.MAX_REPEAT, sre_c.MIN_REPEAT) or \
                    str(op) == 'POSSESSIVE_REPEAT':
                lo, hi, sub = av
                subs = gen(sub)[:12] or ['']
                reps = []
                counts = [lo]
                if hi is sre_c.MAXREPEAT or hi > lo:
                    counts.append(lo + 1)
                    if hi is sre_c.MAXREPEAT or hi > lo + 2:
                        counts.append(lo + 3)
                for c in counts:
                    if c == 0:
                        reps.append('')
                    else:
                        for s in (subs if c == 1 else subs[:4]):
                            reps.append(s * c)
                        if len(subs) > 1 and c > 1:
                            reps.append(''.join(
                                itertools.islice(itertools.cycle(subs), c)))
                parts.append(list(dict.fromkeys(reps)))
            elif op is sre_c.SUBPATTERN:
                parts.append(gen(av[3])[:24] or [''])
            elif op in (sre_c.AT, sre_c.ASSERT, sre_c.ASSERT_NOT,
                        sre_c.GROUPREF):
                continue
            else:
                parts.append([''])
        out = ['']
        for alts in parts:
            new = []
            for pre in out:
                for a in alts:
                    new.append(pre + a)
                    if len(new) >= limit:
                        break
                if len(new) >= limit:
                    break
            out = new
        return out
    return list(dict.fromkeys(gen(p)))[:limit]


def digits_for_base(base):
    d = '0123456789abcdefghijklmnopqrstuvwxyz'[:base]
    return set(d) | set(d.upper())


def safe_for_int(pattern, flags, base, group_no=None, method='match'):
    """Is every string that `pattern.<method>` accepts (its group group_no,
    or the whole string) convertible by int(s, base)?  -> (ok, reason)"""
    try:
        p = parse(pattern, flags)
    except Exception as e:       # malformed constant
        return False, 'pattern does not parse: %s' % e
    sub = p
    if group_no:
        sub = group(p, group_no)
        if sub is None:
            return False, 'group %s not found' % group_no
    else:
        if method != 'fullmatch' and not end_anchored(p):
            return False, 'pattern is not anchored at the end: trailing ' \
                'text is accepted by match() and reaches the conversion'
    a = alphabet(sub)
    if a is ALL:
        return False, 'pattern admits arbitrary characters'
    if flags & re.IGNORECASE:
        a = a | {c.lower() for c in a} | {c.upper() for c in a}
    if 'DIGIT*' in a:
        # \d admits all Unicode decimal digits: int() accepts them for
        # base 10 (documented), not guaranteed for others
        if base != 10:
            return False, '\\d with base %d' % base
        a = a - {'DIGIT*'}
    allowed = digits_for_base(base) | set('+-')
    if base == 16:
        allowed |= set('xX')
    if base == 2:
        allowed |= set('bB')
    if base == 8:
        allowed |= set('oO')
    extra = a - allowed
    if extra:
        return False, 'characters %r are not valid for int(.., %d)' \
            % (sorted(extra)[:6], base)
    bad = []
    cre = re.compile(pattern, flags)
    n = 0
    for s in samples(p):
        m = getattr(cre, method)(s)
        if not m:
            continue
        text = m.group(group_no) if group_no else s
        if text is None:
            continue
        n += 1
        try:
            int(text, base)
        except ValueError:
            bad.append(text)
    if bad:
        return False, 'accepted text %r is rejected by int(.., %d)' \
            % (bad[0], base)
    if n == 0:
        return False, 'no accepted sample could be generated'
    return True, '%d accepted samples convert' % n


def safe_for_float(pattern, flags, method='match'):
    try:
        p = parse(pattern, flags)
    except Exception as e:
        return False, 'pattern does not parse: %s' % e
    if method != 'fullmatch' and not end_anchored(p):
        return False, 'pattern is not anchored at the end'
    bad = []
    cre = re.compile(pattern, flags)
    n = 0
    for s in samples(p):
        if getattr(cre, method)(s):
            n += 1
            try:
                float(s)
            except ValueError:
                bad.append(s)
    if bad:
        return False, 'accepted text %r is rejected by float()' % bad[0]
    if n == 0:
        return False, 'no accepted sample could be generated'
    return True, '%d accepted samples convert' % n


def accepts(pattern, flags, text, method='match'):
    return bool(getattr(re.compile(pattern, flags), method)(text))


def min_len(p):
    """Minimum length of a match of p."""
    n = 0
    for op, av in p:
        if op in (sre_c.LITERAL, sre_c.NOT_LITERAL, sre_c.ANY, sre_c.IN,
                  sre_c.CATEGORY):
            n += 1
        elif op is sre_c.BRANCH:
            n += min(min_len(alt) for alt in av[1])
        elif op in (sre_c.MAX_REPEAT, sre_c.MIN_REPEAT) or \
                str(op) == 'POSSESSIVE_REPEAT':
            n += av[0] * min_len(av[2])
        elif op is sre_c.SUBPATTERN:
            n += min_len(av[3])
    return n


def max_len(p):
    """Maximum length of a match of p (None = unbounded / unknown)."""
    n = 0
    for op, av in p:
        if op in (sre_c.LITERAL, sre_c.NOT_LITERAL, sre_c.ANY, sre_c.IN,
                  sre_c.CATEGORY):
            n += 1
        elif op is sre_c.BRANCH:
            ms = [max_len(alt) for alt in av[1]]
            if any(m is None for m in ms):
                return None
            n += max(ms)
        elif op in (sre_c.MAX_REPEAT, sre_c.MIN_REPEAT) or \
                str(op) == 'POSSESSIVE_REPEAT':
            inner = max_len(av[2])
            if inner is None or av[1] is sre_c.MAXREPEAT or av[1] > 1000:
                if inner == 0:
                    continue
                return None
            n += av[1] * inner
        elif op is sre_c.SUBPATTERN:
            inner = max_len(av[3])
            if inner is None:
                return None
            n += inner
        elif op is sre_c.AT:
            continue
        elif str(op) in ('ASSERT', 'ASSERT_NOT'):
            continue
        else:
            return None
    return n


def ambiguous_repeats(p):
    """[text] of unbounded repeats whose body is (or has an alternative that
    is) itself nothing but an unbounded repeat - the `(x+)*` / `(x+|y)*`
    shape.  A string of n x's can be split among the iterations in 2**n
    ways; when the overall match fails, the backtracking engine tries them
    all (the call does not return for inputs of a few dozen characters)."""
    out = []

    def unbounded(av):
        return av[1] == sre_c.MAXREPEAT or av[1] >= 1000

    def solely_unbounded(items):
        items = [x for x in items if x[0] is not sre_c.AT]
        if len(items) != 1:
            return False
        op, av = items[0]
        if op in (sre_c.MAX_REPEAT, sre_c.MIN_REPEAT):
            return unbounded(av)
        if op is sre_c.SUBPATTERN:
            return solely_unbounded(av[3])
        if op is sre_c.BRANCH:
            return any(solely_unbounded(a) for a in av[1])
        return False

    def scan(q):
        for op, av in q:
            if op in (sre_c.MAX_REPEAT, sre_c.MIN_REPEAT):
                if unbounded(av) and solely_unbounded(av[2]):
                    out.append(str(av[2])[:90])
                scan(av[2])
            elif op is sre_c.SUBPATTERN:
                scan(av[3])
            elif op is sre_c.BRANCH:
                for a in av[1]:
                    scan(a)
            elif op in (sre_c.ASSERT, sre_c.ASSERT_NOT):
                scan(av[1])
    scan(p)
    return out
