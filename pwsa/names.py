"""Case-normalisation kinds of expressions holding CIM names (C12/C13/C18).

A small abstract interpretation.  Kinds:

  RAW        a CIM name as stored / as given by the caller (case preserved)
  LOWER      a lower-cased / case-folded string
  RAWLIST    container of RAW names
  LOWERLIST  container of LOWER strings
  NOCASE     NocaseList / NocaseDict (membership is case-insensitive)
  CONST_L    string constant without upper-case letters
  CONST_M    string constant with upper-case letters
  UNKNOWN    anything else            (None = bottom: nothing known *yet*)

RAW sources: terminal attributes the CIM object model defines as names, and
the DSP0200 operation parameters that carry CIM names on the public provider
methods.  Locals are resolved position-aware: the last unconditional
assignment before the use wins, conditional assignments after it are joined
(so `role = role.lower() if role else role` makes later uses LOWER).  Return
kinds and parameter kinds (join over call sites in the analysed modules) are
computed by a bounded fixpoint.
"""
import ast

from .model import walk_no_nested, dotted

RAW, LOWER, RAWLIST, LOWERLIST, NOCASE, CONST_L, CONST_M, UNKNOWN = \
    'RAW', 'LOWER', 'RAWLIST', 'LOWERLIST', 'NOCASE', 'CONST_L', 'CONST_M', \
    'UNKNOWN'

NAME_ATTRS = {'classname', 'superclass', 'class_origin', 'reference_class'}
# DSP0200 parameters of the public provider operations that are CIM names
API_NAME_PARAMS = {'ClassName': RAW, 'AssocClass': RAW, 'ResultClass': RAW,
                   'Role': RAW, 'ResultRole': RAW, 'PropertyList': RAWLIST,
                   # a CIMInstance iterates over / looks up its property
                   # names like a NocaseDict
                   'NewInstance': NOCASE, 'ModifiedInstance': NOCASE}
# attributes of the CIM object classes that are NocaseDict
NOCASE_ATTRS = {'properties', 'keybindings', 'qualifiers', 'methods',
                'parameters'}
FOLD_METHODS = {'lower', 'casefold'}
NOCASE_CTORS = {'NocaseList', 'NocaseDict'}
STR_PRESERVING = {'strip', 'lstrip', 'rstrip'}


def join(kinds):
    ks = set(kinds)
    ks.discard(None)
    if not ks:
        return None
    if UNKNOWN in ks:
        # a value that is a raw name on *some* path (call site, branch)
        # stays "may be raw": the comparison is wrong on that path
        rest = ks - {UNKNOWN}
        if rest and rest <= {RAW, CONST_M, CONST_L, LOWER} and RAW in rest:
            return RAW
        if rest and rest <= {RAWLIST, LOWERLIST} and RAWLIST in rest:
            return RAWLIST
        return UNKNOWN
    if len(ks) == 1:
        return next(iter(ks))
    if ks <= {LOWER, CONST_L}:
        return LOWER
    if ks <= {RAW, CONST_M, CONST_L, LOWER}:
        return RAW          # may be a name in original case on some path
    if ks <= {RAWLIST, LOWERLIST}:
        return RAWLIST
    return UNKNOWN


def elem(kind):
    if kind is None:
        return None
    return {RAWLIST: RAW, LOWERLIST: LOWER, NOCASE: RAW}.get(kind, UNKNOWN)


def coll(kind):
    if kind is None:
        return None
    return {RAW: RAWLIST, LOWER: LOWERLIST, CONST_L: LOWERLIST,
            CONST_M: RAWLIST}.get(kind, UNKNOWN)


def _pos(node, end=False):
    if end:
        return (node.end_lineno, node.end_col_offset)
    return (node.lineno, node.col_offset)


class _Def:
    __slots__ = ('pos', 'name', 'uncond', 'expr', 'how', 'node', 'block')

    def __init__(self, pos, name, uncond, expr, how, node, block=()):
        self.pos = pos
        self.name = name
        self.block = block
        self.uncond = uncond
        self.expr = expr      # value expression (or iterable for 'elem')
        self.how = how        # 'value' | 'elem' | 'append' | 'extend' |
        #                       'unknown'
        self.node = node


class Kinds:
    def __init__(self, repo, modules, api_classes=()):
        self.repo = repo
        self.modules = [repo.module(m) for m in modules]
        self.api_classes = set(api_classes)
        self.funcs = []
        self.by_name = {}
        for m in self.modules:
            for f in m.all_funcs():
                self.funcs.append(f)
                self.by_name.setdefault(f.name, []).append(f)
        self.ret = {}        # fq -> kind or None
        self.param = {}      # (fq, pname) -> kind or None
        self._defs = {}
        self._blocks = {}
        self._objnames = {}
        self._attrk = {}
        self._calls = None
        self._fix()

    # ------------------------------------------------------------------
    def defs(self, func):
        """Definitions of local names, each with its position and the path
        of nested statement blocks it lives in; also records the block path
        of every expression node (for dominance-by-nesting of uses)."""
        if func.fq in self._defs:
            return self._defs[func.fq]
        out = []
        blocks = {}
        counter = [0]

        def newblock(path):
            counter[0] += 1
            return path + (counter[0],)

        def mark(node, path):
            for x in ast.walk(node):
                blocks[id(x)] = path

        def bind(target, path, expr, how, st, pos):
            if isinstance(target, ast.Name):
                out.append(_Def(pos, target.id, True, expr, how, st, path))
            elif isinstance(target, (ast.Tuple, ast.List)):
                for e in target.elts:
                    bind(e, path, None, 'unknown', st, pos)

        def walk(stmts, path):
            for st in stmts:
                if isinstance(st, (ast.FunctionDef, ast.AsyncFunctionDef,
                                   ast.ClassDef)):
                    continue
                if isinstance(st, ast.Assign):
                    mark(st, path)
                    for t in st.targets:
                        bind(t, path, st.value, 'value', st, _pos(st, True))
                        # d[key] = v adds `key` to the container d
                        if isinstance(t, ast.Subscript) and \
                                isinstance(t.value, ast.Name) and \
                                not isinstance(t.slice, ast.Slice):
                            out.append(_Def(_pos(st, True), t.value.id,
                                            False, t.slice, 'append', st,
                                            path))
                elif isinstance(st, ast.AnnAssign) and st.value is not None:
                    mark(st, path)
                    bind(st.target, path, st.value, 'value', st,
                         _pos(st, True))
                elif isinstance(st, ast.AugAssign):
                    mark(st, path)
                    bind(st.target, path, None, 'unknown', st,
                         _pos(st, True))
                elif isinstance(st, (ast.For, ast.AsyncFor)):
                    mark(st.iter, path)
                    mark(st.target, path)
                    inner = newblock(path)
                    rows = st.iter.elts if isinstance(
                        st.iter, (ast.Tuple, ast.List)) else None
                    if rows and isinstance(st.target, ast.Tuple) and all(
                            isinstance(r_, ast.Tuple) and
                            len(r_.elts) == len(st.target.elts)
                            for r_ in rows):
                        # for a, b in ((x1, y1), (x2, y2)): a is x1 or x2
                        for i_, t_ in enumerate(st.target.elts):
                            alt = ast.BoolOp(op=ast.Or(), values=[
                                r_.elts[i_] for r_ in rows])
                            ast.copy_location(alt, st.iter)
                            bind(t_, inner, alt, 'value', st,
                                 _pos(st.iter, True))
                    else:
                        bind(st.target, inner, st.iter, 'elem', st,
                             _pos(st.iter, True))
                    walk(st.body, inner)
                    walk(st.orelse, newblock(path))
                elif isinstance(st, ast.While):
                    mark(st.test, path)
                    walk(st.body, newblock(path))
                    walk(st.orelse, newblock(path))
                elif isinstance(st, ast.If):
                    mark(st.test, path)
                    walk(st.body, newblock(path))
                    walk(st.orelse, newblock(path))
                elif isinstance(st, (ast.With, ast.AsyncWith)):
                    for it in st.items:
                        mark(it, path)
                        if it.optional_vars is not None:
                            bind(it.optional_vars, path, None, 'unknown',
                                 st, _pos(it.context_expr, True))
                    walk(st.body, path)
                elif isinstance(st, ast.Try):
                    walk(st.body, newblock(path))
                    for h in st.handlers:
                        if h.type is not None:
                            mark(h.type, path)
                        walk(h.body, newblock(path))
                    walk(st.orelse, newblock(path))
                    walk(st.finalbody, newblock(path))
                else:
                    mark(st, path)
                    if isinstance(st, ast.Expr) and \
                            isinstance(st.value, ast.Call) and \
                            isinstance(st.value.func, ast.Attribute) and \
                            isinstance(st.value.func.value, ast.Name) and \
                            st.value.args:
                        a = st.value.func.attr
                        how = 'append' if a in ('append', 'add') else \
                            ('extend' if a in ('extend', 'update') else None)
                        if how:
                            out.append(_Def(_pos(st, True),
                                            st.value.func.value.id, False,
                                            st.value.args[0], how, st, path))
        walk(func.node.body, ())
        out.sort(key=lambda d: d.pos)
        self._defs[func.fq] = out
        self._blocks[func.fq] = blocks
        return out

    def calls_of(self, name):
        if self._calls is None:
            self._calls = {}
            for f in self.funcs:
                for n in walk_no_nested(f.node):
                    if isinstance(n, ast.Call):
                        fn = n.func
                        nm = fn.attr if isinstance(fn, ast.Attribute) \
                            else (fn.id if isinstance(fn, ast.Name)
                                  else None)
                        if nm:
                            self._calls.setdefault(nm, []).append((f, n))
        return self._calls.get(name, [])

    def resolve(self, call, func):
        fn = call.func
        name = fn.attr if isinstance(fn, ast.Attribute) else \
            (fn.id if isinstance(fn, ast.Name) else None)
        if name is None:
            return None
        if isinstance(fn, ast.Attribute) and isinstance(fn.value, ast.Name) \
                and fn.value.id in ('self', 'cls') and func.cls is not None:
            m = func.cls.find_method(name)
            if m is not None and m in self.funcs:
                return m
        if isinstance(fn, ast.Name) and func.nested.get(name):
            return func.nested[name]
        if isinstance(fn, ast.Name) and func.parent is not None and \
                func.parent.nested.get(name):
            return func.parent.nested[name]
        cands = self.by_name.get(name, [])
        if len(cands) == 1:
            return cands[0]
        return None

    # ------------------------------------------------------------------
    def _fix(self):
        for _ in range(4):
            self._memo = {}
            newret, newparam = {}, {}
            for f in self.funcs:
                ks = []
                for n in walk_no_nested(f.node):
                    if isinstance(n, ast.Return) and n.value is not None:
                        ks.append(self.kind(n.value, f))
                newret[f.fq] = join(ks)
            for f in self.funcs:
                params = list(f.params)
                if params and params[0] in ('self', 'cls') and \
                        not f.is_static():
                    params = params[1:]
                sites = [(g, c) for g, c in self.calls_of(f.name)
                         if self.resolve(c, g) is f]
                for i, p in enumerate(params):
                    if f.cls is not None and f.cls.name in self.api_classes \
                            and not f.name.startswith('_') and \
                            p in API_NAME_PARAMS:
                        newparam[(f.fq, p)] = API_NAME_PARAMS[p]
                        continue
                    ks = []
                    for g, c in sites:
                        arg = None
                        if i < len(c.args) and not any(
                                isinstance(a, ast.Starred) for a in c.args):
                            arg = c.args[i]
                        for k in c.keywords:
                            if k.arg == p:
                                arg = k.value
                        if arg is None:
                            d = f.param_defaults().get(p)
                            if d is None or (isinstance(d, ast.Constant) and
                                             d.value is None):
                                continue
                            arg = d
                            ks.append(self.kind(arg, f))
                            continue
                        ks.append(self.kind(arg, g))
                    newparam[(f.fq, p)] = join(ks) if sites else UNKNOWN
            if newret == self.ret and newparam == self.param:
                break
            self.ret, self.param = newret, newparam
        self._memo = {}

    # ------------------------------------------------------------------
    _STR_ATTRS = {'lower', 'casefold', 'upper', 'strip', 'lstrip', 'rstrip',
                  'split', 'rsplit', 'startswith', 'endswith', 'format',
                  'join', 'replace', 'encode', 'find', 'index', 'count',
                  'partition', 'rpartition', 'title', 'isdigit',
                  'append', 'extend', 'add', 'update', 'remove', 'sort',
                  'copy', 'keys', 'values', 'items', 'get', 'pop', 'insert'}

    def object_names(self, func):
        """Local names used as a base of a non-str/non-container attribute
        access: they hold objects, not name strings."""
        key = func.fq
        if key not in self._objnames:
            out = set()
            for n in ast.walk(func.node):
                if isinstance(n, ast.Attribute) and \
                        isinstance(n.value, ast.Name) and \
                        n.attr not in self._STR_ATTRS:
                    out.add(n.value.id)
            self._objnames[key] = out
        return self._objnames[key]

    def reaching(self, func, name, pos, extra=None, node=None):
        if extra and name in extra:
            return extra[name]
        if name in self.object_names(func):
            # holds an object, not a name string; it may still be one that
            # behaves as a case-insensitive container (CIMInstance)
            k = self._reaching(func, name, pos, extra, node)
            return k if k == NOCASE else UNKNOWN
        return self._reaching(func, name, pos, extra, node)

    def _reaching(self, func, name, pos, extra, node):
        alld = self.defs(func)
        upath = self._blocks[func.fq].get(id(node)) if node is not None \
            else None
        ds = [d for d in alld if d.name == name and d.pos <= pos]
        # element additions after the use (loop-carried: `if n not in seen:
        # seen.add(n)`) belong to the same container as long as the name is
        # not re-bound in between
        for d in alld:
            if d.name != name or d.pos <= pos:
                continue
            if d.how in ('append', 'extend'):
                ds.append(d)
            else:
                break
        start = None
        base = []
        for i, d in enumerate(ds):
            if d.how in ('value', 'elem', 'unknown') and upath is not None \
                    and d.block == upath[:len(d.block)]:
                start = i
        if start is not None:
            use = ds[start:]
        else:
            use = ds
            if name in func.params:
                base.append(self.param.get((func.fq, name), UNKNOWN))
            elif not ds:
                return self._global(func, name)
        ks = list(base)
        first_kind = None
        for d in use:
            key = (func.fq, id(d))
            if key in self._memo:
                k = self._memo[key]
            else:
                self._memo[key] = None
                if d.how == 'unknown' or d.expr is None:
                    k = UNKNOWN
                else:
                    k = self.kind(d.expr, func, extra)
                    if d.how == 'elem':
                        k = elem(k)
                    elif d.how == 'append':
                        k = coll(k)
                    elif d.how == 'extend' and k == NOCASE:
                        k = RAWLIST
                self._memo[key] = k
            if d.how in ('append', 'extend'):
                cur = join(ks)
                if cur == NOCASE:
                    continue        # anything may be added to a nocase list
                if cur is None and not ks:
                    ks.append(k)
                    continue
            ks.append(k)
        return join(ks)

    def self_attr_kind(self, cls, attr):
        """self.<attr> is a NocaseDict/NocaseList if every assignment to it
        in the class (and its repo bases) constructs one."""
        key = (cls.fq, attr)
        if key in self._attrk:
            return self._attrk[key]
        vals = []
        for c in cls.mro():
            for m in list(c.methods.values()) + list(c.setters.values()):
                for n in walk_no_nested(m.node):
                    if isinstance(n, ast.Assign):
                        for t in n.targets:
                            if dotted(t) == 'self.' + attr:
                                vals.append(n.value)
        k = UNKNOWN
        if vals and all(isinstance(v, ast.Call) and dotted(v.func) and
                        dotted(v.func).split('.')[-1] in NOCASE_CTORS
                        for v in vals):
            k = NOCASE
        self._attrk[key] = k
        return k

    def _global(self, func, name):
        c = func.module.consts.get(name)
        if c is None:
            r = self.repo.resolve_import(func.module, name)
            if r is not None and r[1] in r[0].consts:
                c = r[0].consts[r[1]]
        if isinstance(c, ast.Constant) and isinstance(c.value, str):
            return CONST_L if c.value == c.value.lower() else CONST_M
        return UNKNOWN

    def kind(self, e, func, extra=None):
        if e is None:
            return UNKNOWN
        if isinstance(e, ast.Constant):
            if isinstance(e.value, str):
                return CONST_L if e.value == e.value.lower() else CONST_M
            if e.value is None:
                return None
            return UNKNOWN
        if isinstance(e, ast.Name):
            return self.reaching(func, e.id, _pos(e), extra, e)
        if isinstance(e, ast.Attribute):
            if e.attr in NAME_ATTRS:
                return RAW
            if e.attr in NOCASE_ATTRS and not (
                    isinstance(e.value, ast.Name) and e.value.id == 'self'):
                return NOCASE
            if isinstance(e.value, ast.Name) and e.value.id == 'self' and \
                    func.cls is not None:
                return self.self_attr_kind(func.cls, e.attr)
            return UNKNOWN
        if isinstance(e, ast.Call):
            fn = e.func
            if isinstance(fn, ast.Attribute):
                if fn.attr in FOLD_METHODS and not e.args:
                    return LOWER
                if fn.attr in STR_PRESERVING:
                    return self.kind(fn.value, func, extra)
                if fn.attr == 'keys' and not e.args:
                    # the keys of a NocaseDict are the names as spelled:
                    # `x in d.keys()` compares case-sensitively (unlike
                    # `x in d`)
                    k = self.kind(fn.value, func, extra)
                    if k == NOCASE:
                        return RAWLIST
                    return k if k in (RAWLIST, LOWERLIST, None) else UNKNOWN
                if fn.attr == 'copy' and not e.args:
                    k = self.kind(fn.value, func, extra)
                    return k if k in (RAWLIST, LOWERLIST, NOCASE, None) \
                        else UNKNOWN
            d = dotted(fn)
            simple = d.split('.')[-1] if d else None
            if simple in NOCASE_CTORS:
                return NOCASE
            if simple in ('list', 'set', 'sorted', 'tuple', 'frozenset',
                          'dict', 'OrderedDict'):
                if not e.args:
                    return None
                k = self.kind(e.args[0], func, extra)
                if k == NOCASE:
                    return RAWLIST
                return k if k in (RAWLIST, LOWERLIST, None) else UNKNOWN
            if simple in ('str', 'deepcopy') and len(e.args) == 1:
                return self.kind(e.args[0], func, extra)
            target = self.resolve(e, func)
            if target is not None:
                return self.ret.get(target.fq)
            return UNKNOWN
        if isinstance(e, ast.Dict):
            if not e.keys:
                return None
            if any(k is None for k in e.keys):
                return UNKNOWN
            return coll(join([self.kind(x, func, extra) for x in e.keys]))
        if isinstance(e, (ast.List, ast.Set, ast.Tuple)):
            if not e.elts:
                return None
            return coll(join([self.kind(x, func, extra) for x in e.elts]))
        if isinstance(e, (ast.ListComp, ast.SetComp, ast.GeneratorExp)):
            env2 = dict(extra or {})
            for g in e.generators:
                ek = elem(self.kind(g.iter, func, env2))
                if isinstance(g.target, ast.Name):
                    env2[g.target.id] = ek
                else:
                    for x in ast.walk(g.target):
                        if isinstance(x, ast.Name):
                            env2[x.id] = UNKNOWN
            return coll(self.kind(e.elt, func, env2))
        if isinstance(e, ast.IfExp):
            # `x.lower() if x else x` / `... else None`: the else value is
            # falsy, it cannot equal a non-empty name
            t = e.test
            if isinstance(t, ast.Name) and isinstance(e.orelse, ast.Name) \
                    and e.orelse.id == t.id:
                return self.kind(e.body, func, extra)
            return join([self.kind(e.body, func, extra),
                         self.kind(e.orelse, func, extra)])
        if isinstance(e, ast.BoolOp):
            return join([self.kind(v, func, extra) for v in e.values])
        if isinstance(e, ast.Subscript):
            k = self.kind(e.value, func, extra)
            if isinstance(e.slice, ast.Slice):
                return k
            return elem(k) if k in (RAWLIST, LOWERLIST) else UNKNOWN
        if isinstance(e, ast.BinOp) and isinstance(e.op, ast.Add):
            return join([self.kind(e.left, func, extra),
                         self.kind(e.right, func, extra)])
        return UNKNOWN


def comparisons(kinds, func):
    """Yield (compare_node, left, op, right, left_kind, right_kind) for every
    ==, !=, in, not in of the function (comprehension variables bound)."""
    def rec(node, extra):
        if isinstance(node, (ast.FunctionDef, ast.AsyncFunctionDef,
                             ast.Lambda)) and node is not func.node:
            return
        if isinstance(node, (ast.ListComp, ast.SetComp, ast.GeneratorExp,
                             ast.DictComp)):
            extra = dict(extra)
            for g in node.generators:
                ek = elem(kinds.kind(g.iter, func, extra))
                if isinstance(g.target, ast.Name):
                    extra[g.target.id] = ek
                else:
                    for x in ast.walk(g.target):
                        if isinstance(x, ast.Name):
                            extra[x.id] = UNKNOWN
        if isinstance(node, ast.Compare):
            left = node.left
            for op, right in zip(node.ops, node.comparators):
                if isinstance(op, (ast.Eq, ast.NotEq, ast.In, ast.NotIn)):
                    yield (node, left, op, right,
                           kinds.kind(left, func, extra) or UNKNOWN,
                           kinds.kind(right, func, extra) or UNKNOWN)
                left = right
        for c in ast.iter_child_nodes(node):
            yield from rec(c, extra)
    yield from rec(func.node, {})


def judge(op, lk, rk):
    """-> ('ok'|'bad'|'undecided'|'n/a', reason)"""
    if isinstance(op, (ast.Eq, ast.NotEq)):
        sym = '==' if isinstance(op, ast.Eq) else '!='
        if RAW in (lk, rk):
            return 'bad', 'CIM name compared case-sensitively (%s %s %s)' \
                % (lk, sym, rk)
        if lk in (LOWER, CONST_L) and rk in (LOWER, CONST_L) and \
                LOWER in (lk, rk):
            return 'ok', 'both sides case-folded'
        if {lk, rk} == {LOWER, CONST_M}:
            return 'bad', 'lower-cased name compared with a constant that ' \
                'contains upper-case letters (never equal)'
        if LOWER in (lk, rk):
            return 'undecided', 'one side folded, other side %s' \
                % (rk if lk == LOWER else lk)
        return 'n/a', ''
    if lk == RAW:
        if rk == NOCASE:
            return 'ok', 'membership in a case-insensitive container'
        if rk in (LOWERLIST, RAWLIST):
            return 'bad', 'CIM name looked up case-sensitively in a %s ' \
                'container' % rk
        return 'undecided', 'container kind unknown'
    if lk in (LOWER, CONST_L):
        if rk in (LOWERLIST, NOCASE):
            return ('ok', 'folded name in folded/case-insensitive '
                    'container') if lk == LOWER else ('n/a', '')
        if rk == RAWLIST:
            return 'bad', 'lower-cased name looked up in a container of ' \
                'names in original case'
        if lk == LOWER:
            return 'undecided', 'container kind unknown'
    return 'n/a', ''


def uncalled_methods(func):
    """Compare nodes where a side is an uncalled str method
    (x.lower != y.lower())."""
    out = []
    called = set()
    for n in walk_no_nested(func.node):
        if isinstance(n, ast.Call):
            called.add(id(n.func))
    for n in walk_no_nested(func.node):
        if isinstance(n, ast.Compare):
            for side in [n.left] + list(n.comparators):
                if isinstance(side, ast.Attribute) and \
                        side.attr in ('lower', 'upper', 'casefold', 'strip',
                                      'title') and id(side) not in called:
                    out.append((n, side))
    return out


MOCK_MODULES = ['pywbem_mock/_resolvermixin.py',
                'pywbem_mock/_mainprovider.py',
                'pywbem_mock/_baseprovider.py',
                'pywbem_mock/_providerdispatcher.py',
                'pywbem_mock/_instancewriteprovider.py',
                'pywbem_mock/_subscriptionproviders.py',
                'pywbem_mock/_wbemconnection_mock.py',
                'pywbem_mock/_namespaceprovider.py',
                'pywbem_mock/_methodprovider.py',
                'pywbem_mock/_mockmofwbemconnection.py',
                'pywbem_mock/_inmemoryrepository.py']

ASSOC_FUNCS = ('_get_reference_classnames', '_get_reference_instnames',
               '_get_associated_classnames', '_get_associated_instancenames',
               '_ref_prop_matches', '_assoc_prop_matches', '_subclasses_lc',
               'References', 'ReferenceNames', 'Associators',
               'AssociatorNames', '_return_assoc_class_tuples',
               '_iter_association_classes')


def _is_false_const(kinds, g, arg):
    """arg (in function g) evaluates to the constant False at every use:
    literal False, a module constant bound to False, or a local whose only
    definition in g is one of those."""
    if isinstance(arg, ast.Constant):
        return arg.value is False
    if isinstance(arg, ast.Name):
        ds = [d for d in kinds.defs(g) if d.name == arg.id]
        if ds:
            return all(d.how == 'value' and d.expr is not None and
                       not (isinstance(d.expr, ast.Name) and
                            d.expr.id == arg.id) and
                       _is_false_const(kinds, g, d.expr) for d in ds)
        if arg.id in g.params:
            return False
        c = g.module.consts.get(arg.id)
        if c is None:
            r = kinds.repo.resolve_import(g.module, arg.id)
            if r is not None and r[1] in r[0].consts:
                c = r[0].consts[r[1]]
        return isinstance(c, ast.Constant) and c.value is False
    return False


def dead_param_branches(kinds, f):
    """Statements of f lying in `if <param>:` bodies where <param> is the
    constant False at every resolved call site (the branch is dead by
    configuration).  Returns (set of node ids, [description])."""
    dead, notes = set(), []
    params = list(f.params)
    if params and params[0] in ('self', 'cls') and not f.is_static():
        params = params[1:]
    sites = [(g, c) for g, c in kinds.calls_of(f.name)
             if kinds.resolve(c, g) is f]
    if not sites:
        return dead, notes
    for i, p in enumerate(params):
        if any(d.name == p for d in kinds.defs(f)):
            continue
        allfalse = True
        for g, c in sites:
            arg = None
            if i < len(c.args):
                arg = c.args[i]
            for k in c.keywords:
                if k.arg == p:
                    arg = k.value
            if arg is None:
                arg = f.param_defaults().get(p)
            if arg is None or not _is_false_const(kinds, g, arg):
                allfalse = False
                break
        if not allfalse:
            continue
        for n in walk_no_nested(f.node):
            if isinstance(n, ast.If) and isinstance(n.test, ast.Name) and \
                    n.test.id == p:
                for s in n.body:
                    for x in ast.walk(s):
                        dead.add(id(x))
                notes.append('%s: `if %s:` is dead: every one of the %d call '
                             'sites passes the constant False'
                             % (f.qualname, p, len(sites)))
    return dead, notes


def run_name_rules(repo, rep, rr_cmp, rr_uncalled, scope, modules=None,
                   api_classes=('MainProvider', 'ProviderDispatcher',
                                'InstanceWriteProvider')):
    """Apply the comparison rule and the uncalled-method rule to every
    function selected by scope(func) -> bool."""
    from .model import norm
    kinds = Kinds(repo, modules or MOCK_MODULES, api_classes=api_classes)
    for f in kinds.funcs:
        if not scope(f):
            continue
        any_site = False
        dead, notes = dead_param_branches(kinds, f)
        for nt in notes:
            if nt not in rr_cmp.notes:
                rr_cmp.notes.append(nt)
        # lexical-case adjustment idiom: `if a != b: x.name = b` rewrites
        # the spelling of a name that was already matched - the comparison
        # is case-sensitive on purpose
        adjust = set()
        from .cfg import stmt_facts as _sfacts
        _facts = None
        for cmp_ in walk_no_nested(f.node):
            if not (isinstance(cmp_, ast.Compare) and len(cmp_.ops) == 1 and
                    isinstance(cmp_.ops[0], (ast.Eq, ast.NotEq))):
                continue
            if _facts is None:
                _facts = _sfacts(f.node)
            differs = isinstance(cmp_.ops[0], ast.NotEq)
            sides = (norm(cmp_.left), norm(cmp_.comparators[0]))
            under_diff, under_same = [], []
            for st, (fs, _t) in _facts.items():
                if isinstance(st, (ast.If, ast.For, ast.While, ast.Try,
                                   ast.With)):
                    continue
                for t, pol in fs:
                    if t is cmp_:
                        (under_diff if pol == differs
                         else under_same).append(st)
            renames = [st for st in under_diff
                       if isinstance(st, ast.Assign) and
                       isinstance(st.targets[0], ast.Attribute) and
                       st.targets[0].attr in ('name', 'classname') and
                       norm(st.value) in sides]
            only_assigns = all(isinstance(st, ast.Assign)
                               for st in under_diff)
            # the statements that run only when the spellings are equal do
            # nothing (continue / pass); statements after an
            # `if same: continue` are under_diff, not under_same
            idle = all(isinstance(st, (ast.Continue, ast.Pass))
                       for st in under_same
                       if st not in under_diff)
            if renames and only_assigns and idle:
                adjust.add(id(cmp_))
        for node, l, op, r, lk, rk in comparisons(kinds, f):
            verdict, why = judge(op, lk, rk)
            if verdict == 'n/a':
                continue
            if id(node) in adjust:
                rr_cmp.ob(True, '%s|%s|adjust' % (f.qualname,
                                                  norm(node, 100)),
                          {'function': f.qualname,
                           'compare': norm(node, 100),
                           'verdict': 'lexical-case adjustment idiom'})
                continue
            if id(node) in dead:
                rr_cmp.ob(True, '%s|%s|dead' % (f.qualname, norm(node, 100)),
                          {'function': f.qualname,
                           'compare': norm(node, 100),
                           'verdict': 'unreachable (constant-False flag)'})
                continue
            any_site = True
            rr_cmp.sites += 1
            site = '%s|%s' % (f.qualname, norm(node, 100))
            rr_cmp.ob(verdict != 'bad', site,
                      {'function': f.qualname, 'compare': norm(node, 100),
                       'left_kind': lk, 'right_kind': rk,
                       'verdict': verdict, 'why': why})
            if verdict == 'undecided':
                rr_cmp.undecided.append('%s:%s %s (%s)' % (
                    f.file, f.qualname, norm(node, 80), why))
            elif verdict == 'bad':
                rep.finding(rr_cmp, f.qualname, norm(node, 100), 'case',
                            f.file, node.lineno, why + ': names that differ '
                            'only in lexical case are treated as different')
        if any_site:
            rr_cmp.functions.add(f.fq)
        for node, side in uncalled_methods(f):
            rr_uncalled.sites += 1
            rr_uncalled.ob(False, '%s|%s' % (f.qualname, norm(node, 100)))
            rep.finding(rr_uncalled, f.qualname, norm(node, 100),
                        'uncalled-' + side.attr, f.file, node.lineno,
                        'the method %s is compared without being called: '
                        'the comparison does not depend on the values'
                        % norm(side))
        rr_uncalled.functions.add(f.fq)
        ncmp = sum(1 for n in walk_no_nested(f.node)
                   if isinstance(n, ast.Compare))
        rr_uncalled.sites += ncmp
        rr_uncalled.obligations += ncmp
        rr_uncalled.discharged += ncmp
    return kinds
