"""Shared extraction of the WBEMConnection operation methods (the family of
sibling methods that C02/C04/C14/C15/C19 quantify over)."""
import ast

from .model import AnalysisError, walk_no_nested, dotted, const_str, norm

OPS = 'pywbem/_cim_operations.py'
ENVELOPES = ('_imethodcall', '_methodcall', '_iexportcall')
CONTROL_KW = ('has_return_value', 'has_out_params')


class Operation:
    def __init__(self, func):
        self.func = func
        self.name = func.name
        self.method_name = None      # literal assigned to method_name
        self.method_name_node = None
        self.envelope_calls = []     # Call nodes self._imethodcall(...)
        self.start_timer = []        # Call nodes
        self.stop_timer = []
        self.main_try = None
        self.method_name_var = None  # the local that carries the name
        for n in walk_no_nested(func.node):
            if isinstance(n, ast.Call):
                d = dotted(n.func)
                if d in ('self.' + e for e in ENVELOPES):
                    self.envelope_calls.append(n)
                elif d == 'self.statistics.start_timer':
                    self.start_timer.append(n)
                elif d is not None and d.endswith('.stop_timer'):
                    self.stop_timer.append(n)
        # the operation-name variable is identified by its role: the name
        # passed first to the envelope call (and to start_timer), whose only
        # definition is a string literal
        cands = []
        for c in self.envelope_calls + self.start_timer:
            if c.args and isinstance(c.args[0], ast.Name):
                cands.append(c.args[0].id)
        for var in cands:
            defs = [n for n in walk_no_nested(func.node)
                    if isinstance(n, ast.Assign) and len(n.targets) == 1 and
                    isinstance(n.targets[0], ast.Name) and
                    n.targets[0].id == var]
            if len(defs) == 1 and const_str(defs[0].value) is not None:
                self.method_name_var = var
                self.method_name = const_str(defs[0].value)
                self.method_name_node = defs[0]
                break
        for s in func.body:
            if isinstance(s, ast.Try):
                self.main_try = s

    @property
    def envelope(self):
        if not self.envelope_calls:
            return None
        return dotted(self.envelope_calls[0].func).split('.')[-1]


def operations(repo):
    """All WBEMConnection methods that are CIM operations = methods that call
    self.statistics.start_timer and one of the envelope functions."""
    cls = repo.cls(OPS, 'WBEMConnection')
    out = []
    for name, f in cls.methods.items():
        if name.startswith('_'):
            continue
        op = Operation(f)
        if op.start_timer and op.envelope_calls:
            out.append(op)
    if len(out) < 30:
        raise AnalysisError('only %d operation methods recognised in '
                            'WBEMConnection (expected >= 30)' % len(out))
    return out


def iter_operations(repo):
    cls = repo.cls(OPS, 'WBEMConnection')
    out = [f for n, f in cls.methods.items() if n.startswith('Iter')]
    return out


def last_assign_before(func, name, before_node):
    """The last top-to-bottom assignment `name = ...` textually before
    `before_node` (by position) - adequate for the straight-line prologues
    of the operation methods."""
    best = None
    for n in walk_no_nested(func.node):
        if isinstance(n, ast.Assign) and \
                any(isinstance(t, ast.Name) and t.id == name
                    for t in n.targets):
            if (n.lineno, n.col_offset) < (before_node.lineno,
                                           before_node.col_offset):
                if best is None or (n.lineno, n.col_offset) > \
                        (best.lineno, best.col_offset):
                    best = n
    return best
