"""AST-level inlining of private helper methods.

Rules that reason about the order of effects inside one method (join before
release, get -> deliver -> task_done, ...) must not depend on whether a
step is written in place or moved into a private helper.  `flatten(func)`
returns a copy of the function in which every statement

    self._helper(args)            (an expression statement)
    x = self._helper(args)        (helper ends in a single `return expr`)

that calls a private method of the same class (or a private module-level
function) is replaced by the helper's body, parameters substituted by the
argument expressions and the helper's locals renamed (`helper$name`).  A
helper with early returns is wrapped in `while True: ...; break` with
`return` -> `break` (refused if a return sits inside a loop of the helper).
Recursion and helpers that cannot be bound are left as calls.
"""
import ast
import copy

from .alpha import binding_order
from .paths import _helper_of, _bind_args, _Subst


def _returns(body):
    out = []

    def rec(n, in_loop):
        if isinstance(n, (ast.FunctionDef, ast.AsyncFunctionDef, ast.Lambda,
                          ast.ClassDef)):
            return
        if isinstance(n, ast.Return):
            out.append((n, in_loop))
            return
        loop = in_loop or isinstance(n, (ast.For, ast.While, ast.AsyncFor))
        for c in ast.iter_child_nodes(n):
            rec(c, loop)
    for st in body:
        rec(st, False)
    return out


class _RetToBreak(ast.NodeTransformer):
    def visit_FunctionDef(self, node):
        return node

    visit_AsyncFunctionDef = visit_FunctionDef
    visit_Lambda = visit_FunctionDef

    def visit_Return(self, node):
        return ast.copy_location(ast.Break(), node)


def _assign_returns(stmts, target, depth=0):
    """the body with every `return v` replaced by `target = v` and the
    statements after an `if` that returns moved into its branches, so that
    the body falls through instead of returning.  None when a return sits
    inside a loop / try / with (not expressible this way)."""
    from .cfg import always_exits
    if depth > 12:
        return None
    out = []
    for i, st in enumerate(stmts):
        if isinstance(st, ast.Return):
            asg = ast.Assign(
                targets=[copy.deepcopy(target)],
                value=copy.deepcopy(st.value) if st.value is not None
                else ast.Constant(value=None))
            out.append(ast.copy_location(asg, st))
            return out
        if isinstance(st, ast.If) and _returns([st]):
            rest = stmts[i + 1:]
            b_exit = always_exits(st.body)
            o_exit = always_exits(st.orelse) if st.orelse else False
            body = _assign_returns(
                st.body + ([] if b_exit else copy.deepcopy(rest)), target,
                depth + 1)
            orelse = _assign_returns(
                st.orelse + ([] if o_exit else copy.deepcopy(rest)), target,
                depth + 1)
            if body is None or orelse is None:
                return None
            new = ast.If(test=st.test, body=body or [ast.Pass()],
                         orelse=orelse)
            out.append(ast.copy_location(new, st))
            return out
        if _returns([st]):
            return None
        out.append(st)
    if not always_exits(out):
        asg = ast.Assign(targets=[copy.deepcopy(target)],
                         value=ast.Constant(value=None))
        if out:
            ast.copy_location(asg, out[-1])
        out.append(asg)
    return out


def _inline_body(func, helper, call, target, depth, stack, keep=()):
    from .model import strip_docstring
    args = _bind_args(helper, call)
    if args is None:
        return None
    body = strip_docstring(helper.node.body)
    rets = _returns(body)
    tail_value = None
    if rets:
        last = body[-1] if body else None
        only_tail = len(rets) == 1 and rets[0][0] is last
        if target is not None:
            if not only_tail or last.value is None:
                body = _assign_returns(copy.deepcopy(body),
                                       ast.Name(id='$ret', ctx=ast.Store()))
                if body is None:
                    return None
                ast.fix_missing_locations(ast.Module(body=body,
                                                     type_ignores=[]))
                rets = []
            else:
                tail_value = last.value
                body = body[:-1]
        elif only_tail:
            body = body[:-1]
        else:
            if any(in_loop for _r, in_loop in rets) or \
                    any(r.value is not None and
                        not isinstance(r.value, ast.Constant)
                        for r, _l in rets):
                return None
    elif target is not None:
        return None
    hlocals = set(binding_order(helper.node))
    sub = _Subst(args, helper.name + '$', hlocals)
    new = [sub.visit(copy.deepcopy(st)) for st in body]
    for st in new:
        for x in ast.walk(st):
            if isinstance(x, ast.Assign) and len(x.targets) == 1 and \
                    isinstance(x.targets[0], ast.Name) and \
                    x.targets[0].id == '$ret':
                x.targets[0] = copy.deepcopy(target)
    if rets and tail_value is None and not (
            len(rets) == 1 and rets[0][0] is helper.node.body[-1]):
        new = [_RetToBreak().visit(st) for st in new]
        wrapper = ast.While(test=ast.Constant(value=True),
                            body=new + [ast.Break()], orelse=[])
        ast.copy_location(wrapper, call)
        ast.fix_missing_locations(wrapper)
        new = [wrapper]
    if tail_value is not None:
        asg = ast.Assign(targets=[copy.deepcopy(target)],
                         value=sub.visit(copy.deepcopy(tail_value)))
        ast.copy_location(asg, call)
        ast.fix_missing_locations(asg)
        new.append(asg)
    if not new:
        p = ast.Pass()
        ast.copy_location(p, call)
        new = [p]
    # inline further inside the inlined body
    return _flatten_stmts(helper, new, depth + 1, stack + [helper.fq], keep)


def _inline_tail(func, helper, ret, depth, stack, keep=()):
    from .model import strip_docstring
    from .cfg import always_exits
    args = _bind_args(helper, ret.value)
    if args is None:
        return None
    if any(isinstance(n, (ast.Yield, ast.YieldFrom))
           for n in ast.walk(helper.node)):
        return None
    body = strip_docstring(helper.node.body)
    sub = _Subst(args, helper.name + '$', set(binding_order(helper.node)))
    new = [sub.visit(copy.deepcopy(st)) for st in body]
    if not always_exits(new):
        r = ast.Return(value=ast.Constant(value=None))
        ast.copy_location(r, ret)
        new.append(r)
    for st in new:
        ast.fix_missing_locations(st)
    return _flatten_stmts(helper, new, depth + 1, stack + [helper.fq], keep)


def _flatten_stmts(func, stmts, depth, stack, keep=()):
    out = []
    for st in stmts:
        call = target = None
        if isinstance(st, ast.Expr) and isinstance(st.value, ast.Call):
            call = st.value
        elif isinstance(st, ast.Assign) and len(st.targets) == 1 and \
                isinstance(st.value, ast.Call) and (
                    isinstance(st.targets[0], ast.Name) or
                    (isinstance(st.targets[0], ast.Tuple) and
                     all(isinstance(x, ast.Name)
                         for x in st.targets[0].elts))):
            # (a tuple of names: the helper returns a tuple)
            call, target = st.value, st.targets[0]
        if isinstance(st, ast.Return) and isinstance(st.value, ast.Call) \
                and depth < 3:
            # `return self._helper(args)`: the helper's body takes the place
            # of the statement, its returns become returns of the caller
            h = _helper_of(func, st.value)
            if h is not None and h.fq not in stack and h.name not in keep:
                rep_ = _inline_tail(func, h, st, depth, stack, keep)
                if rep_ is not None:
                    out += rep_
                    continue
        if isinstance(st, ast.Assign) and len(st.targets) == 1 and \
                isinstance(st.value, ast.Call) and depth < 3 and \
                isinstance(st.targets[0], (ast.Subscript, ast.Attribute)):
            # `table[key] = self._helper(args)`: the helper's result goes
            # through a temporary, which is then stored
            h = _helper_of(func, st.value)
            if h is not None and h.fq not in stack and h.name not in keep:
                tmp = ast.Name(id=h.name + '$value', ctx=ast.Store())
                rep_ = _inline_body(func, h, st.value, tmp, depth, stack,
                                    keep)
                if rep_ is not None:
                    asg = ast.Assign(
                        targets=[st.targets[0]],
                        value=ast.Name(id=h.name + '$value', ctx=ast.Load()))
                    ast.copy_location(asg, st)
                    ast.fix_missing_locations(asg)
                    out += rep_ + [asg]
                    continue
        if call is not None and depth < 3:
            h = _helper_of(func, call)
            if h is not None and h.fq not in stack and h.name not in keep:
                rep_ = _inline_body(func, h, call, target, depth, stack,
                                    keep)
                if rep_ is not None:
                    out += rep_
                    continue
        # descend into compound statements
        for fld in ('body', 'orelse', 'finalbody'):
            sub = getattr(st, fld, None)
            if isinstance(sub, list) and sub and \
                    isinstance(sub[0], ast.stmt):
                setattr(st, fld, _flatten_stmts(func, sub, depth, stack,
                                                keep))
        if isinstance(st, ast.Try):
            for hd in st.handlers:
                hd.body = _flatten_stmts(func, hd.body, depth, stack, keep)
        out.append(st)
    return out


def _decision_expr(stmts, depth=0):
    """the expression a body made only of if / return statements computes,
    as nested conditional expressions; None if the body has another shape"""
    if not stmts or depth > 12:
        return None
    st = stmts[0]
    if isinstance(st, ast.Return):
        return st.value if st.value is not None else ast.Constant(value=None)
    if isinstance(st, ast.If):
        a = _decision_expr(st.body + stmts[1:], depth + 1)
        b = _decision_expr(st.orelse + stmts[1:], depth + 1)
        if a is None or b is None:
            return None
        return ast.IfExp(test=st.test, body=a, orelse=b)
    return None


class _ExprInliner(ast.NodeTransformer):
    """replaces calls of private decision-tree helpers (bodies made of if /
    return only) by the equivalent conditional expression"""

    def __init__(self, func, keep, depth=0):
        self.func = func
        self.keep = keep
        self.depth = depth

    def visit_FunctionDef(self, node):
        return node

    visit_AsyncFunctionDef = visit_FunctionDef
    visit_Lambda = visit_FunctionDef

    def visit_Call(self, node):
        self.generic_visit(node)
        if self.depth > 2:
            return node
        h = _helper_of(self.func, node)
        if h is None or h.name in self.keep or h is self.func:
            return node
        from .model import strip_docstring
        e = _decision_expr(strip_docstring(h.node.body))
        if e is None:
            return node
        args = _bind_args(h, node)
        if args is None:
            return node
        sub = _Subst(args, h.name + '$', set(binding_order(h.node)))
        new = sub.visit(copy.deepcopy(e))
        new = _ExprInliner(h, self.keep, self.depth + 1).visit(new)
        ast.copy_location(new, node)
        ast.fix_missing_locations(new)
        return new


def _self_chain(e):
    """self.a or self.a.b... (attributes only)"""
    while isinstance(e, ast.Attribute):
        e = e.value
    return isinstance(e, ast.Name) and e.id == 'self'


def expand_self_aliases(node):
    """the function with every local that is bound exactly once, to a plain
    `self.<field>` expression, replaced by that expression (the binding
    itself is kept).  Order rules over the fields of an object then read the
    same whether a field is used directly or through a local name."""
    stores = {}
    for n in ast.walk(node):
        if isinstance(n, ast.Name) and isinstance(n.ctx, (ast.Store,
                                                          ast.Del)):
            stores[n.id] = stores.get(n.id, 0) + 1
    for a in node.args.args + node.args.kwonlyargs:
        stores[a.arg] = stores.get(a.arg, 0) + 1
    alias = {}
    for n in ast.walk(node):
        if isinstance(n, ast.Assign) and len(n.targets) == 1 and \
                isinstance(n.targets[0], ast.Name) and \
                stores.get(n.targets[0].id) == 1 and \
                isinstance(n.value, ast.Attribute) and \
                _self_chain(n.value):
            alias[n.targets[0].id] = n.value

    class Sub(ast.NodeTransformer):
        def visit_Name(self, n):
            if isinstance(n.ctx, ast.Load) and n.id in alias:
                return ast.copy_location(copy.deepcopy(alias[n.id]), n)
            return n
    if not alias:
        return node
    out = Sub().visit(copy.deepcopy(node))
    ast.fix_missing_locations(out)
    return out


_CACHE = {}


def flatten(func, keep=()):
    """FunctionDef copy of func.node with private helper calls inlined
    (helpers named in `keep` stay calls)"""
    key = (id(func.node), tuple(sorted(keep)))
    hit = _CACHE.get(key)
    if hit is None or hit[0] is not func.node:
        # (the entry keeps func.node alive, so its id cannot be reused by
        # the tree of another Repo while the entry exists)
        node = copy.deepcopy(func.node)
        node.body = _flatten_stmts(func, node.body, 0, [func.fq], keep)
        inl = _ExprInliner(func, keep)
        node.body = [inl.visit(st) for st in node.body]
        ast.fix_missing_locations(node)
        _CACHE[key] = hit = (func.node, node)
    return hit[1]


class Flat:
    """a Func-like view of a flattened function (node/body/name/qualname)"""

    def __init__(self, func, keep=(), aliases=False):
        self.orig = func
        self.node = flatten(func, keep)
        if aliases:
            self.node = expand_self_aliases(self.node)
        for a in ('name', 'qualname', 'fq', 'file', 'cls', 'module',
                  'params'):
            setattr(self, a, getattr(func, a, None))

    @property
    def body(self):
        from .model import strip_docstring
        return strip_docstring(self.node.body)
