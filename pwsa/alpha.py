"""Alpha-normalisation of local variable names.

Several rules recognise a site through the local variable names the code
uses today (`method_name`, `pull_result`, `max_obj_cnt`, ...).  Renaming a
local variable is a behaviour-preserving edit and must not raise an alarm.
This layer undoes pure renames before the rules run:

* `tables/local_names.json` records, for every function of the analysed
  packages on the tree the rules were confirmed on, the local names in the
  order of their first binding (parameters excluded).
* When a module is loaded, every function whose locals have the same number
  of first bindings as the reference but different names is renamed back -
  consistently, as a bijection on the function's locals (including uses in
  nested functions, lambdas and comprehensions that do not shadow the name).

A bijective renaming of locals is an alpha-conversion: it cannot hide a
defect (a wrong-variable bug stays a wrong-variable bug under any consistent
renaming) and it cannot create one.  If the mapping is unsafe (a target name
is used as a free variable, or the counts differ because code was added or
removed) the function is left as it is.
"""
import ast
import json
import os

HERE = os.path.dirname(os.path.dirname(os.path.abspath(__file__)))
TABLE = os.path.join(HERE, 'tables', 'local_names.json')

_SCOPES = (ast.FunctionDef, ast.AsyncFunctionDef, ast.Lambda)


def _params(fn):
    a = fn.args
    out = [x.arg for x in a.posonlyargs + a.args + a.kwonlyargs]
    if a.vararg:
        out.append(a.vararg.arg)
    if a.kwarg:
        out.append(a.kwarg.arg)
    return out


def binding_order(fn):
    """local names of function node fn (own body, comprehensions included,
    nested defs/lambdas excluded) in order of first binding"""
    order = []
    declared = set()
    params = set(_params(fn))

    def add(name):
        if name not in order and name not in params:
            order.append(name)

    def visit(n):
        if isinstance(n, (ast.Global, ast.Nonlocal)):
            declared.update(n.names)
            return
        if isinstance(n, (ast.FunctionDef, ast.AsyncFunctionDef,
                          ast.ClassDef)):
            add(n.name)
            return                     # own scope
        if isinstance(n, ast.Lambda):
            return
        if isinstance(n, ast.Name) and isinstance(n.ctx, (ast.Store,
                                                           ast.Del)):
            add(n.id)
        if isinstance(n, ast.ExceptHandler) and n.name:
            for c in [n.type] if n.type is not None else []:
                visit(c)
            add(n.name)
            for c in n.body:
                visit(c)
            return
        if isinstance(n, (ast.Import, ast.ImportFrom)):
            for a in n.names:
                add((a.asname or a.name).split('.')[0])
            return
        # evaluation order: value before targets for assignments
        if isinstance(n, ast.Assign):
            visit(n.value)
            for t in n.targets:
                visit(t)
            return
        if isinstance(n, (ast.AugAssign, ast.AnnAssign)):
            if n.value is not None:
                visit(n.value)
            visit(n.target)
            return
        if isinstance(n, (ast.For, ast.AsyncFor)):
            visit(n.iter)
            visit(n.target)
            for c in n.body + n.orelse:
                visit(c)
            return
        if isinstance(n, (ast.ListComp, ast.SetComp, ast.GeneratorExp,
                          ast.DictComp)):
            for g in n.generators:
                visit(g.iter)
                visit(g.target)
                for i in g.ifs:
                    visit(i)
            if isinstance(n, ast.DictComp):
                visit(n.key)
                visit(n.value)
            else:
                visit(n.elt)
            return
        for c in ast.iter_child_nodes(n):
            visit(c)
    for st in fn.body:
        visit(st)
    return [x for x in order if x not in declared]


def _free_names(fn, locals_):
    """names loaded in fn's own body that are neither locals nor params"""
    bound = set(locals_) | set(_params(fn))
    out = set()
    for n in ast.walk(fn):
        if isinstance(n, ast.Name) and n.id not in bound:
            out.add(n.id)
    return out


def _rename(fn, mapping):
    """apply mapping to every Name in fn, descending into nested scopes
    unless they rebind the name as a parameter or local of their own"""
    def rec(n, active):
        if isinstance(n, _SCOPES) and n is not fn:
            own = set(_params(n))
            if not isinstance(n, ast.Lambda):
                own |= set(binding_order(n))
                if n.name in active:
                    n.name = active[n.name]
            active = {k: v for k, v in active.items() if k not in own}
            if not active:
                return
        if isinstance(n, ast.ClassDef) and n.name in active:
            n.name = active[n.name]
        if isinstance(n, ast.Name) and n.id in active:
            n.id = active[n.id]
        elif isinstance(n, ast.ExceptHandler) and n.name in active:
            n.name = active[n.name]
        elif isinstance(n, (ast.Global, ast.Nonlocal)):
            pass
        elif isinstance(n, ast.alias):
            nm = n.asname or n.name
            if nm in active and '.' not in nm:
                n.asname = active[nm]
        for c in ast.iter_child_nodes(n):
            rec(c, active)
    for st in fn.body:
        rec(st, mapping)


def _functions(tree):
    """(qualname, node) of every function, qualnames as in model.Func"""
    out = []

    def nested(fn, qual):
        def walk(n):
            for c in ast.iter_child_nodes(n):
                if isinstance(c, (ast.FunctionDef, ast.AsyncFunctionDef)):
                    q = qual + '.<locals>.' + c.name
                    out.append((q, c))
                    nested(c, q)
                elif isinstance(c, (ast.ClassDef, ast.Lambda)):
                    continue
                else:
                    walk(c)
        walk(fn)

    def top(stmts, prefix):
        for st in stmts:
            if isinstance(st, (ast.FunctionDef, ast.AsyncFunctionDef)):
                q = prefix + st.name
                out.append((q, st))
                nested(st, q)
            elif isinstance(st, ast.ClassDef) and not prefix:
                top(st.body, st.name + '.')
            elif isinstance(st, (ast.If, ast.Try)):
                subs = [x for x in ast.iter_child_nodes(st)
                        if isinstance(x, ast.stmt)]
                top(subs, prefix)
    top(tree.body, '')
    return out


_TABLE_CACHE = None


def load_table():
    global _TABLE_CACHE
    if _TABLE_CACHE is None:
        try:
            with open(TABLE, encoding='utf-8') as f:
                _TABLE_CACHE = json.load(f)
        except (OSError, ValueError):
            _TABLE_CACHE = {}
    return _TABLE_CACHE


def canonicalise(tree, relpath, stats=None):
    """rename locals of the functions in `tree` back to the reference names
    where the function is an alpha-variant of the reference (same number of
    first bindings); returns the number of functions renamed"""
    ref = load_table().get(relpath)
    if not ref:
        return 0
    done = 0
    seen = {}
    for qual, fn in _functions(tree):
        # properties/setters share a qualname: index by occurrence
        k = seen.get(qual, 0)
        seen[qual] = k + 1
        want = ref.get('%s#%d' % (qual, k))
        if want is None:
            continue
        cur = binding_order(fn)
        if cur == want or len(cur) != len(want):
            continue
        # names that did not change must sit at the same position; a new
        # name may only take the place of a name that vanished (otherwise a
        # local was added and another removed - not a rename)
        if not all(c == w or (c not in want and w not in cur)
                   for c, w in zip(cur, want)):
            continue
        mapping = {c: w for c, w in zip(cur, want) if c != w}
        if not mapping:
            continue
        targets = set(mapping.values())
        # unsafe: a target name is already in use for something else
        if targets & (_free_names(fn, cur) | set(_params(fn))):
            continue
        if targets & (set(cur) - set(mapping)):
            # a target is the current name of another local that keeps its
            # name: only a permutation inside `mapping` is allowed
            continue
        _rename(fn, mapping)
        done += 1
        if stats is not None:
            stats.append('%s:%s %s' % (relpath, qual, mapping))
    return done


def build_table(repo_root, packages):
    out = {}
    for pkg in packages:
        d = os.path.join(repo_root, pkg)
        for fn in sorted(os.listdir(d)):
            if not fn.endswith('.py'):
                continue
            rel = pkg + '/' + fn
            with open(os.path.join(d, fn), encoding='utf-8') as f:
                tree = ast.parse(f.read())
            ent = {}
            seen = {}
            for qual, node in _functions(tree):
                k = seen.get(qual, 0)
                seen[qual] = k + 1
                ent['%s#%d' % (qual, k)] = binding_order(node)
            out[rel] = ent
    return out
