"""Swapped arguments: two arguments of one call that carry each other's
parameter names.

    def _open_response(self, ..., MaxObjectCount, ContinueOnError)
    self._open_response(..., ContinueOnError, MaxObjectCount)

A call that passes the local `b` for parameter `a` *and* the local `a` for
parameter `b` hands the callee the two values the wrong way round.  The
callee is resolved (method of the same class through self./cls., function of
the same module); only pairs of plain names that are exactly the names of
each other's parameter are reported, so passing a value under a different
name (`central_class=scoping_class`) is not.
"""
import ast

from .model import AnalysisError, dotted, norm, walk_no_nested


def _bind(call, params):
    """{param: argument expr} of the arguments the call passes"""
    out = {}
    for i, a in enumerate(call.args):
        if isinstance(a, ast.Starred) or i >= len(params):
            break
        out[params[i]] = a
    for k in call.keywords:
        if k.arg is not None:
            out[k.arg] = k.value
    return out


def swapped_pairs(func, call, target):
    ps = [p for p in target.params if p not in ('self', 'cls')]
    b = _bind(call, ps)
    out = []
    for p, a in b.items():
        if isinstance(a, ast.Name) and a.id != p and a.id in b:
            o = b[a.id]
            if isinstance(o, ast.Name) and o.id == p and p < a.id:
                out.append((p, a.id))
    return out


def argument_order_rule(repo, rep, rid, files, floor):
    r = rep.rule(rid, 'no call passes two locals under each other\'s '
                 'parameter name')
    for m in repo.modules.values():
        if m.relpath not in files:
            continue
        funcs = list(m.functions.values()) + [
            f for c in m.classes.values() for f in c.methods.values()]
        for f in funcs:
            for c in walk_no_nested(f.node):
                if not isinstance(c, ast.Call):
                    continue
                d = dotted(c.func) or ''
                tgt = None
                if f.cls is not None and d.count('.') == 1 and \
                        d.split('.')[0] in ('self', 'cls', f.cls.name):
                    tgt = f.cls.find_method(d.split('.')[1])
                elif d and '.' not in d:
                    tgt = m.functions.get(d)
                    if tgt is None:
                        ri = repo.resolve_import(m, d)
                        if ri is not None and ri[1] in ri[0].functions:
                            tgt = ri[0].functions[ri[1]]
                if tgt is None:
                    continue
                r.sites += 1
                r.functions.add(f.fq)
                sw = swapped_pairs(f, c, tgt)
                if sw:
                    r.ob(False, '%s|%s' % (f.qualname, norm(c, 60)),
                         {'swapped': sw, 'callee': tgt.qualname})
                for a, b in sw:
                    rep.finding(
                        r, f.qualname, '%s(%s <-> %s)' % (tgt.name, a, b),
                        'swapped-arguments', m.relpath, c.lineno,
                        '%s receives the local %r for its parameter %r and '
                        'the local %r for its parameter %r: the two values '
                        'are handed over the wrong way round'
                        % (tgt.qualname, b, a, a, b))
    r.ob(True, 'calls-resolved', {'calls': r.sites})
    if r.sites < floor:
        raise AnalysisError('%s: only %d resolved calls (expected >= %d)'
                            % (rid, r.sites, floor))
    # positive control
    probe = ast.parse('def g(self, a, b):\n    pass\n'
                      'def f(self, a, b):\n    self.g(b, a)\n')

    class _T:
        params = ['self', 'a', 'b']
    call = probe.body[1].body[0].value
    if swapped_pairs(None, call, _T) != [('a', 'b')]:
        raise AnalysisError(rid + ': swapped-argument recogniser broken')
