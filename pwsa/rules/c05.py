"""C05 - equality, hashing and copying of CIM objects are lawful.

Decides the structural template: slots = eq attrs = hash attrs = copy attrs
(subset of repr attrs), eq/hash helper kinds agree, name attributes use the
case-insensitive kind, container setters build a new container, __ne__ is
the negation, NocaseDict eq/hash fold keys through one function.
"""
import ast
import re

from ..cfg import stmt_facts

from ..model import (AnalysisError, walk_no_nested, dotted, const_str, norm,
                     last_attr)

EXPLANATION = (
    "Static template check of the 9 CIM object classes + CIMDateTime + "
    "NocaseDict: for every __slots__ attribute the analyser finds the "
    "_eq_<kind>(self.a, other.a) conjunct in __eq__, the _hash_<kind>(self.a) "
    "item in __hash__, the constructor argument in copy() and the field in "
    "__repr__; checks that eq and hash use the same kind of helper, that CIM "
    "name attributes use the case-insensitive kind and NocaseDict attributes "
    "the dict kind, that the helper pairs in _utils normalise identically, "
    "that container setters never store the caller's container, that __ne__ "
    "negates __eq__, and that NocaseDict.__eq__/__hash__/__contains__/"
    "__getitem__ all go through the one key-folding function. This decides "
    "necessary structural conditions of the property, not the algebraic laws "
    "on values.")
ASSUMPTIONS = [
    "Python semantics of ==, hash(), frozenset and str.lower/casefold",
    "values stored in attributes obey their own eq/hash contract",
    "CIMDateTime.precision is deliberately excluded from eq/hash (frozen "
    "exception: it is derived from the asterisks of the string form)",
]

OBJ = 'pywbem/_cim_obj.py'
TYP = 'pywbem/_cim_types.py'
UTL = 'pywbem/_utils.py'

CIM_CLASSES = ['CIMInstanceName', 'CIMInstance', 'CIMClassName', 'CIMClass',
               'CIMProperty', 'CIMMethod', 'CIMParameter', 'CIMQualifier',
               'CIMQualifierDeclaration']

# DSP0004: these attributes hold CIM names / namespace / host: compared
# case-insensitively.
NAME_ATTRS = {'classname', 'name', 'superclass', 'class_origin',
              'reference_class', 'host', 'namespace'}


def _self_attr(node, base='self'):
    if isinstance(node, ast.Attribute) and isinstance(node.value, ast.Name) \
            and node.value.id == base:
        return node.attr
    return None


def _eq_call(c):
    """(attr, kind) of a call _eq_K(self.a, other.a) (either order), or
    (None, problem text), or None if c is not an _eq_ call"""
    if not (isinstance(c, ast.Call) and isinstance(c.func, ast.Name) and
            c.func.id.startswith('_eq_') and len(c.args) == 2):
        return None
    a = _self_attr(c.args[0], 'self')
    b = _self_attr(c.args[1], 'other')
    if a is None or b is None:
        a2 = _self_attr(c.args[0], 'other')
        b2 = _self_attr(c.args[1], 'self')
        if a2 is not None and b2 is not None:
            a, b = b2, a2
    if a is None or b is None or a != b:
        return (None, 'operands are not the same attribute of self and '
                      'other')
    return (a, c.func.id[4:])


def _conjuncts(e, pol=True):
    """[(expr, polarity)] that all hold when e evaluates to `pol`"""
    if isinstance(e, ast.UnaryOp) and isinstance(e.op, ast.Not):
        return _conjuncts(e.operand, not pol)
    if isinstance(e, ast.BoolOp):
        if (isinstance(e.op, ast.And) and pol) or \
                (isinstance(e.op, ast.Or) and not pol):
            out = []
            for v in e.values:
                out += _conjuncts(v, pol)
            return out
        return []          # a disjunction pins nothing down
    return [(e, pol)]


def eq_paths(func):
    """[(facts, return value node)] for every path of a loop-free __eq__;
    facts = [(expr, polarity)] known on the path"""
    out = []

    import copy as _copy

    def subst(e, env):
        if e is None or not env:
            return e

        class Sub(ast.NodeTransformer):
            def visit_Name(self, node):
                if isinstance(node.ctx, ast.Load) and node.id in env:
                    return _copy.deepcopy(env[node.id])
                return node
        return Sub().visit(_copy.deepcopy(e))

    def walk(stmts, facts, env):
        for i, st in enumerate(stmts):
            if isinstance(st, ast.Return):
                val = subst(st.value, env)
                # a value the path knows to be false is a `False` result
                if val is not None and any(
                        (not pol) and norm(e, 400) == norm(val, 400)
                        for e, pol in facts):
                    val = ast.copy_location(ast.Constant(value=False),
                                            st.value)
                out.append((facts, val))
                return False
            if isinstance(st, ast.Raise):
                return False
            if isinstance(st, ast.If):
                rest = stmts[i + 1:]
                test = subst(st.test, env)
                t = walk(st.body + rest, facts + _conjuncts(test, True),
                         dict(env))
                f = walk(st.orelse + rest, facts + _conjuncts(test, False),
                         dict(env))
                return t or f
            if isinstance(st, ast.Assign) and len(st.targets) == 1 and \
                    isinstance(st.targets[0], ast.Name):
                # a local bound once on this path stands for its value
                env = dict(env)
                env[st.targets[0].id] = subst(st.value, env)
            else:
                for x in ast.walk(st):
                    if isinstance(x, ast.Name) and \
                            isinstance(x.ctx, ast.Store) and x.id in env:
                        env = {k: v for k, v in env.items() if k != x.id}
        out.append((facts, None))
        return True
    walk(func.body, [], {})
    return out


def _dict_pairs(cls, func, expr, depth=0):
    """[(key, self-attribute)] of the dict an expression evaluates to, when
    the dict is evidently built from constant keys: a literal, a local
    filled by `d[k] = self.a` / `d[v] = getattr(self, v)` in a loop over
    constants, or the result of a private helper that returns such a dict.
    None when the dict is not evident."""
    if depth > 2:
        return None
    if isinstance(expr, ast.Dict):
        out = []
        for k, v in zip(expr.keys, expr.values):
            if k is None:
                sub = _dict_pairs(cls, func, v, depth + 1)
                if sub is None:
                    return None
                out += sub
                continue
            ks = const_str(k)
            if ks is None:
                return None
            out.append((ks, _self_attr(v)))
        return out
    if isinstance(expr, ast.Call) and dotted(expr.func) == 'dict' and \
            not expr.args:
        if any(k.arg is None for k in expr.keywords):
            return None
        return [(k.arg, _self_attr(k.value)) for k in expr.keywords]
    if isinstance(expr, ast.Call) and not expr.args and not expr.keywords \
            and (dotted(expr.func) or '').startswith('self.'):
        h = cls.find_method(dotted(expr.func)[5:])
        if h is None:
            return None
        rets = [n for n in walk_no_nested(h.node)
                if isinstance(n, ast.Return)]
        if len(rets) != 1 or rets[0].value is None:
            return None
        return _dict_pairs(cls, h, rets[0].value, depth + 1)
    if isinstance(expr, ast.Name):
        out = None
        for st in func.body:
            for n in ([st] if not isinstance(st, ast.For) else st.body):
                if not (isinstance(n, ast.Assign) and len(n.targets) == 1):
                    if any(isinstance(x, ast.Name) and x.id == expr.id
                           for x in ast.walk(n)) and \
                            not isinstance(n, ast.Return):
                        return None
                    continue
                t = n.targets[0]
                if isinstance(t, ast.Name) and t.id == expr.id:
                    out = _dict_pairs(cls, func, n.value, depth + 1)
                    if out is None:
                        return None
                elif isinstance(t, ast.Subscript) and \
                        isinstance(t.value, ast.Name) and \
                        t.value.id == expr.id:
                    if out is None:
                        return None
                    ks = const_str(t.slice)
                    if ks is not None:
                        out.append((ks, _self_attr(n.value)))
                    elif isinstance(st, ast.For) and \
                            isinstance(st.target, ast.Name) and \
                            isinstance(t.slice, ast.Name) and \
                            t.slice.id == st.target.id and \
                            isinstance(st.iter, (ast.Tuple, ast.List)) and \
                            all(const_str(e) is not None
                                for e in st.iter.elts) and \
                            isinstance(n.value, ast.Call) and \
                            dotted(n.value.func) == 'getattr' and \
                            len(n.value.args) == 2 and \
                            norm(n.value.args[0]) == 'self' and \
                            norm(n.value.args[1]) == st.target.id:
                        out += [(const_str(e), const_str(e))
                                for e in st.iter.elts]
                    else:
                        return None
        return out
    return None


def eq_table(func):
    """{attr: kind} of the attributes that every non-identity path returning
    a possibly-true value compares with _eq_K(self.a, other.a): as a
    conjunct of the returned expression or as a guard whose failure returns
    False.  Returns (table, problems)."""
    problems = []
    per_path = []
    for facts, val in eq_paths(func):
        if val is None:
            continue
        if isinstance(val, ast.Constant) and val.value is False:
            continue
        if any((pol and norm(e) in ('self is other', 'other is self')) or
               ((not pol) and norm(e) in ('self is not other',
                                          'other is not self'))
               for e, pol in facts):
            continue          # identity short-cut
        req = [e for e, pol in facts if pol]
        if isinstance(val, ast.BoolOp) and not isinstance(val.op, ast.And):
            problems.append((val, 'attribute comparisons are not and-ed'))
        if not (isinstance(val, ast.Constant) and val.value is True):
            req += [e for e, pol in _conjuncts(val, True) if pol]
        tab = {}
        for e in req:
            r = _eq_call(e)
            if r is None:
                continue
            if r[0] is None:
                problems.append((e, r[1]))
                continue
            tab[r[0]] = r[1]
        per_path.append(tab)
    if not per_path:
        return {}, problems
    common = set(per_path[0])
    for t in per_path[1:]:
        common &= set(t)
    return {a: per_path[0][a] for a in common}, problems


def hash_table(func):
    table = {}
    for c in walk_no_nested(func.node):
        if isinstance(c, ast.Call) and isinstance(c.func, ast.Name) and \
                c.func.id.startswith('_hash_') and len(c.args) == 1:
            a = _self_attr(c.args[0])
            if a is not None:
                table[a] = c.func.id[6:]
    return table


def hash_returns_tuple_hash(func):
    """The function returns hash(<name bound to tuple of _hash_* calls>) or
    hash((...))."""
    for r in walk_no_nested(func.node):
        if isinstance(r, ast.Return) and isinstance(r.value, ast.Call) and \
                dotted(r.value.func) == 'hash' and len(r.value.args) == 1:
            return True
    return False


def copy_attrs(cls, func):
    """Attributes of self that are handed to the new object in copy():
    constructor-call arguments `self.a` and `result.a = self.a`.
    Returns ({attr: how}, problems)."""
    attrs, problems = {}, []
    init = cls.find_method('__init__')
    init_params = [p for p in init.params if p != 'self'] if init else []
    for n in walk_no_nested(func.node):
        if isinstance(n, ast.Call) and dotted(n.func) == cls.name:
            for i, a in enumerate(n.args):
                at = _self_attr(a)
                if at is not None:
                    attrs[at] = 'positional'
                    if i < len(init_params) and init_params[i] != at:
                        problems.append((n, 'positional argument %d is '
                                         'self.%s but the parameter is %s'
                                         % (i, at, init_params[i])))
            for k in n.keywords:
                if k.arg is None:
                    for key, at in _dict_pairs(cls, func, k.value) or []:
                        if at is not None:
                            attrs[at] = 'keyword'
                            if key != at:
                                problems.append(
                                    (n, 'keyword %s receives self.%s'
                                     % (key, at)))
                    continue
                at = _self_attr(k.value)
                if at is not None:
                    attrs[at] = 'keyword'
                    if k.arg != at:
                        problems.append((n, 'keyword %s receives self.%s'
                                         % (k.arg, at)))
        elif isinstance(n, ast.Assign) and len(n.targets) == 1 and \
                isinstance(n.targets[0], ast.Attribute) and \
                isinstance(n.targets[0].value, ast.Name) and \
                n.targets[0].value.id != 'self':
            at = _self_attr(n.value)
            if at is not None:
                attrs[at] = 'assigned'
                if n.targets[0].attr != at:
                    problems.append((n, 'result.%s receives self.%s'
                                     % (n.targets[0].attr, at)))
    return attrs, problems


def _direct_results(e):
    """the sub-expressions an expression may evaluate to as a whole
    (through conditional expressions and and/or)"""
    if e is None:
        return []
    if isinstance(e, ast.IfExp):
        return _direct_results(e.body) + _direct_results(e.orelse)
    if isinstance(e, ast.BoolOp):
        return [x for v in e.values for x in _direct_results(v)]
    return [e]


def _root_attr(node):
    """'a' for a store target rooted at self.a / self._a (any depth of
    attribute / subscript below it); 'self[]' for self[...]."""
    n = node
    while isinstance(n, (ast.Attribute, ast.Subscript)):
        if isinstance(n, ast.Subscript) and isinstance(n.value, ast.Name) \
                and n.value.id == 'self':
            return 'self[]'
        at = _self_attr(n)
        if at is not None:
            return at.lstrip('_')
        n = n.value
    return None


def stmt_writes(cls, stmt, seen=None):
    """Attribute roots of self that executing `stmt` may modify: direct
    stores / deletes below self.a, and transitively through property
    setters (self.a = v), self[k] = v / del self[k] and self.m(...)."""
    seen = set() if seen is None else seen
    out = set()

    def via(func):
        if func is None or func.fq in seen:
            return
        seen.add(func.fq)
        for st in func.body:
            out.update(stmt_writes(cls, st, seen))
    for n in (walk_no_nested(stmt) if not isinstance(
            stmt, (ast.FunctionDef, ast.AsyncFunctionDef)) else ()):
        targets = []
        if isinstance(n, ast.Assign):
            targets = n.targets
        elif isinstance(n, (ast.AugAssign, ast.AnnAssign)):
            targets = [n.target]
        elif isinstance(n, ast.Delete):
            targets = n.targets
        for t in targets:
            for e in (t.elts if isinstance(t, (ast.Tuple, ast.List))
                      else [t]):
                r = _root_attr(e)
                if r == 'self[]':
                    via(cls.find_method('__delitem__' if isinstance(
                        n, ast.Delete) else '__setitem__'))
                elif r is not None:
                    out.add(r)
                    if _self_attr(e) is not None and \
                            not _self_attr(e).startswith('_'):
                        via(cls.find_setter(_self_attr(e)))
        if isinstance(n, ast.Call) and isinstance(n.func, ast.Attribute) \
                and isinstance(n.func.value, ast.Name) and \
                n.func.value.id == 'self':
            via(cls.find_method(n.func.attr))
    return out


def repr_attrs(func):
    out = set()
    for n in walk_no_nested(func.node):
        s = const_str(n) if isinstance(n, ast.Constant) else None
        if s:
            out.update(re.findall(r'\{s\.(\w+)', s))
        if isinstance(n, ast.JoinedStr):
            for v in n.values:
                if isinstance(v, ast.FormattedValue):
                    a = _self_attr(v.value)
                    if a:
                        out.add(a)
    return out


def dict_attrs(cls):
    """Attributes whose getter lazily creates a NocaseDict (the repo idiom)
    -> must be compared with the dict kind."""
    out = set()
    for name, g in cls.getters.items():
        for n in walk_no_nested(g.node):
            if isinstance(n, ast.Call) and dotted(n.func) == 'NocaseDict':
                out.add(name)
    return out


def run(repo, rep, tier):
    r1 = rep.rule('C05.R1', 'slots = eq = hash = copy attributes, subset of '
                  'repr')
    r2 = rep.rule('C05.R2', 'eq kind = hash kind; helper pairs normalise '
                  'identically; NocaseDict folds keys in eq and hash')
    r3 = rep.rule('C05.R3', 'name attributes use kind name, NocaseDict '
                  'attributes kind dict')
    r4 = rep.rule('C05.R4', '__ne__ negates __eq__; ordering raises '
                  'TypeError')
    r5 = rep.rule('C05.R5', 'copy(): container setters build a new '
                  'container')
    r6 = rep.rule('C05.R6', 'pickling iterates the concrete __slots__')
    r7 = rep.rule('C05.R7', 'copy(): no later step of __init__/copy() '
                  'rewrites an attribute already handed to the new object')

    classes = [(OBJ, c) for c in CIM_CLASSES] + [(TYP, 'CIMDateTime')]
    for path, cname in classes:
        cls = repo.cls(path, cname)
        slots = cls.slots()
        if slots is None:
            raise AnalysisError('%s has no literal __slots__' % cname)
        attrs = [s.lstrip('_') for s in slots]
        eqf = cls.methods.get('__eq__')
        hf = cls.methods.get('__hash__')
        if eqf is None or hf is None:
            rep.finding(r1, cname, '__eq__/__hash__', 'missing', path,
                        cls.node.lineno,
                        'class does not define both __eq__ and __hash__')
            continue
        r1.sites += 1
        r1.functions.update([eqf.fq, hf.fq])
        # with private helpers inlined: it does not matter whether the
        # comparison chain is written in place or split into helpers
        from ..inline import Flat
        eqt, eprob = eq_table(Flat(eqf))
        ht = hash_table(Flat(hf))
        for node, why in eprob:
            rep.finding(r1, eqf.qualname, norm(node), 'eq-operands', path,
                        node.lineno, why)
        excluded = set()
        if cname == 'CIMDateTime':
            excluded = {'precision'}
        cp = cls.methods.get('copy')
        cpt = None
        if cp is not None:
            cpt, cprob = copy_attrs(cls, cp)
            r1.functions.add(cp.fq)
            for node, why in cprob:
                rep.finding(r1, cp.qualname, norm(node, 60), 'copy-mismatch',
                            path, node.lineno, why)
        elif cname != 'CIMDateTime':
            rep.finding(r1, cname, 'copy', 'missing', path, cls.node.lineno,
                        'class has no copy() method')
        rp = cls.methods.get('__repr__')
        rpt = repr_attrs(rp) if rp is not None else None
        for a in attrs:
            if a in excluded:
                continue
            site = '%s.%s' % (cname, a)
            ok = a in eqt
            r1.ob(ok, site + ':eq', {'class': cname, 'attr': a,
                                     'eq_kind': eqt.get(a),
                                     'hash_kind': ht.get(a)})
            if not ok:
                rep.finding(r1, eqf.qualname, a, 'not-compared', path,
                            eqf.node.lineno,
                            'slot attribute %r is not compared in __eq__: '
                            'objects differing only in %r compare equal'
                            % (a, a))
            ok = a in ht
            r1.ob(ok, site + ':hash')
            if not ok:
                rep.finding(r1, hf.qualname, a, 'not-hashed', path,
                            hf.node.lineno,
                            'slot attribute %r does not take part in '
                            '__hash__' % a)
            if cpt is not None:
                ok = a in cpt
                r1.ob(ok, site + ':copy')
                if not ok:
                    rep.finding(r1, cp.qualname, a, 'not-copied', path,
                                cp.node.lineno,
                                'slot attribute %r is not transferred by '
                                'copy(): copy() != original' % a)
            if rpt is not None:
                ok = a in rpt
                r1.ob(ok, site + ':repr')
                if not ok:
                    rep.finding(r1, rp.qualname, a, 'not-in-repr', path,
                                rp.node.lineno,
                                'slot attribute %r missing from __repr__' % a)
        for a in set(eqt) - set(attrs):
            # comparing a derived attribute is harmless; comparing something
            # that is not a slot is reported only if it is not a property
            if a not in cls.getters:
                rep.finding(r1, eqf.qualname, a, 'eq-unknown-attr', path,
                            eqf.node.lineno,
                            '__eq__ compares %r which is neither a slot nor '
                            'a property' % a)
        for a in set(ht) - set(eqt):
            r1.ob(False, '%s.%s:hash-extra' % (cname, a))
            rep.finding(r1, hf.qualname, a, 'hashed-not-compared', path,
                        hf.node.lineno,
                        '%r is hashed but not compared: a == b no longer '
                        'implies hash(a) == hash(b)' % a)
        ok = hash_returns_tuple_hash(hf)
        r1.ob(ok, cname + ':hash-return')
        if not ok:
            rep.finding(r1, hf.qualname, 'return', 'hash-shape', path,
                        hf.node.lineno, '__hash__ does not return hash(...) '
                        'of the collected item hashes')
        # R2 kinds agree
        r2.sites += 1
        for a in attrs:
            if a in eqt and a in ht:
                ok = eqt[a] == ht[a]
                r2.ob(ok, '%s.%s:kind' % (cname, a),
                      {'class': cname, 'attr': a, 'eq': '_eq_' + eqt[a],
                       'hash': '_hash_' + ht[a]})
                if not ok:
                    rep.finding(r2, cname, a, 'kind-mismatch', path,
                                hf.node.lineno,
                                '__eq__ uses _eq_%s but __hash__ uses '
                                '_hash_%s for %r: equal objects can hash '
                                'differently' % (eqt[a], ht[a], a))
        # R3 kinds right
        if cname != 'CIMDateTime':
            r3.sites += 1
            dattrs = dict_attrs(cls)
            for a in attrs:
                if a not in eqt:
                    continue
                want = 'name' if a in NAME_ATTRS else \
                    ('dict' if a in dattrs else 'item')
                ok = eqt[a] == want
                r3.ob(ok, '%s.%s:want-%s' % (cname, a, want),
                      {'class': cname, 'attr': a, 'expected_kind': want})
                if not ok:
                    rep.finding(r3, eqf.qualname, a, 'wrong-kind', path,
                                eqf.node.lineno,
                                '%r must be compared with _eq_%s (is _eq_%s)'
                                % (a, want, eqt[a]))
            # R5 setters
            mutable = set(dattrs) | ({'path'} if 'path' in attrs else set()) \
                | ({'value'} if 'value' in attrs else set())
            for a in sorted(mutable):
                st = cls.setters.get(a)
                if st is None:
                    rep.finding(r5, cname, a, 'no-setter', path,
                                cls.node.lineno,
                                'mutable attribute %r has no setter' % a)
                    continue
                r5.sites += 1
                r5.functions.add(st.fq)
                param = [p for p in st.params if p != 'self'][0]
                for n in walk_no_nested(st.node):
                    if isinstance(n, ast.Assign):
                        for t in n.targets:
                            if _self_attr(t) == '_' + a:
                                direct = isinstance(n.value, ast.Name) and \
                                    n.value.id == param
                                r5.ob(not direct, '%s.%s:setter' % (cname, a),
                                      {'setter': st.qualname,
                                       'assign': norm(n)})
                                if direct:
                                    rep.finding(
                                        r5, st.qualname, norm(n), 'aliased',
                                        path, n.lineno,
                                        'setter stores the caller\'s object '
                                        'itself: copy() shares the mutable '
                                        '%r with the original' % a)
            # R5b: a setter that stores F(value, ...) gets a fresh object
            # only if F never hands a mutable argument back: a `return
            # <param>` of F under isinstance(<param>, list) aliases the
            # caller's list
            for a in sorted(mutable):
                st = cls.setters.get(a)
                if st is None:
                    continue
                param = [p for p in st.params if p != 'self'][0]
                for n in walk_no_nested(st.node):
                    if not (isinstance(n, ast.Assign) and
                            any(_self_attr(t) == '_' + a
                                for t in n.targets) and
                            isinstance(n.value, ast.Call) and
                            isinstance(n.value.func, ast.Name) and
                            n.value.args and
                            isinstance(n.value.args[0], ast.Name) and
                            n.value.args[0].id == param):
                        continue
                    callee = cls.module.functions.get(n.value.func.id)
                    if callee is None:
                        continue
                    cp0 = callee.params[0]
                    cfacts = stmt_facts(callee.node)
                    r5.functions.add(callee.fq)
                    for rt in walk_no_nested(callee.node):
                        if not (isinstance(rt, ast.Return) and any(
                                isinstance(x, ast.Name) and x.id == cp0
                                for x in _direct_results(rt.value))):
                            continue
                        pos = cfacts.get(rt, ((), ()))[0]
                        alias = any(
                            pol and isinstance(t, ast.Call) and
                            dotted(t.func) == 'isinstance' and
                            norm(t.args[0]) == cp0 and
                            any(x in ('list', 'dict', 'NocaseDict')
                                for x in re.findall(r'\w+',
                                                    norm(t.args[1])))
                            for t, pol in pos)
                        r5.ob(not alias, '%s.%s:%s-return' % (
                            cname, a, callee.name),
                            {'setter': st.qualname, 'callee': callee.name,
                             'return': norm(rt), 'aliases_list': alias})
                        if alias:
                            rep.finding(
                                r5, callee.qualname, norm(rt),
                                'aliased-list', path, rt.lineno,
                                '%s() can return the caller\'s list itself; '
                                'the %s setter of %s stores it, so an '
                                'object and its copy() share the array '
                                'value' % (callee.name, a, cname))
            # R7: transfer without interference
            init = cls.find_method('__init__')
            if cp is not None and init is not None and cpt:
                r7.sites += 1
                r7.functions.update([cp.fq, init.fq])
                # order in which __init__ stores its parameters
                steps = []     # (attr or None, writes, where)
                for st in init.body:
                    a = None
                    if isinstance(st, ast.Assign) and len(st.targets) == 1 \
                            and _self_attr(st.targets[0]) is not None and \
                            isinstance(st.value, ast.Name):
                        a = _self_attr(st.targets[0]).lstrip('_')
                    steps.append((a, stmt_writes(cls, st),
                                  '__init__: ' + norm(st, 50), st))
                handed = {a for a, how in cpt.items()
                          if how in ('positional', 'keyword')}
                seq = [(a if a in handed else None, w, wh, st)
                       for a, w, wh, st in steps]
                # then the assignments copy() makes on the new object
                for st in cp.body:
                    if isinstance(st, ast.Assign) and len(st.targets) == 1 \
                            and isinstance(st.targets[0], ast.Attribute) and \
                            isinstance(st.targets[0].value, ast.Name) and \
                            st.targets[0].value.id != 'self' and \
                            _self_attr(st.value) is not None:
                        a = st.targets[0].attr
                        w = {a.lstrip('_')}
                        stt = cls.find_setter(a)
                        if stt is not None:
                            for x in stt.body:
                                w |= stmt_writes(cls, x)
                        handed.add(a.lstrip('_'))
                        seq.append((a.lstrip('_'), w, 'copy(): ' +
                                    norm(st, 50), st))
                for i, (a, w, wh, st) in enumerate(seq):
                    if a is None or a not in handed:
                        continue
                    later = [(wh2, st2) for a2, w2, wh2, st2 in seq[i + 1:]
                             if a in w2 and a2 != a]
                    ok = not later
                    r7.ob(ok, '%s.%s:transfer' % (cname, a),
                          {'class': cname, 'attr': a, 'stored_by': wh,
                           'later_writers': [x for x, _ in later]})
                    if not ok:
                        rep.finding(
                            r7, cp.qualname, a, 'interference', path,
                            later[0][1].lineno,
                            'copy() hands self.%s to the new object (%s) but '
                            'a later step may rewrite it (%s): the copy can '
                            'differ from the original' % (a, wh, later[0][0]))
            # copy() itself must construct a new object of the class
            if cp is not None:
                newobj = any(isinstance(n, ast.Call) and
                             dotted(n.func) == cname
                             for n in walk_no_nested(cp.node))
                r5.ob(newobj, cname + ':copy-constructs')
                if not newobj:
                    rep.finding(r5, cp.qualname, 'copy', 'no-constructor',
                                path, cp.node.lineno,
                                'copy() does not construct a new %s' % cname)
        # R4 no __ne__ override
        r4.sites += 1
        ok = '__ne__' not in cls.methods
        r4.ob(ok, cname + ':ne')
        if not ok:
            rep.finding(r4, cname + '.__ne__', '__ne__', 'override', path,
                        cls.methods['__ne__'].node.lineno,
                        'class overrides __ne__; != may differ from not ==')
        ok = cls.is_subclass_of('_CIMComparisonMixin')
        r4.ob(ok, cname + ':mixin')
        if not ok:
            rep.finding(r4, cname, 'bases', 'no-mixin', path,
                        cls.node.lineno, 'class does not derive from '
                        '_CIMComparisonMixin')
        # R6 slots are defined on the class itself, pickle mixin inherited
        if cname != 'CIMDateTime':
            r6.sites += 1
            ok = cls.is_subclass_of('SlottedPickleMixin') and \
                '__getstate__' not in cls.methods
            r6.ob(ok, cname + ':pickle')
            if not ok:
                rep.finding(r6, cname, 'bases', 'pickle', path,
                            cls.node.lineno, 'class does not use '
                            'SlottedPickleMixin.__getstate__')

    # ---- R4: mixin ------------------------------------------------------
    mix = repo.cls(TYP, '_CIMComparisonMixin')
    ne = mix.methods.get('__ne__')
    if ne is None:
        raise AnalysisError('_CIMComparisonMixin.__ne__ vanished')
    r4.functions.add(ne.fq)
    rets = [n for n in walk_no_nested(ne.node) if isinstance(n, ast.Return)]
    ok = False
    if len(rets) == 1 and isinstance(rets[0].value, ast.UnaryOp) and \
            isinstance(rets[0].value.op, ast.Not):
        inner = rets[0].value.operand
        if isinstance(inner, ast.Call) and \
                dotted(inner.func) == 'self.__eq__' and \
                len(inner.args) == 1 and isinstance(inner.args[0], ast.Name) \
                and inner.args[0].id == 'other':
            ok = True
        if isinstance(inner, ast.Compare) and len(inner.ops) == 1 and \
                isinstance(inner.ops[0], ast.Eq) and \
                {norm(inner.left), norm(inner.comparators[0])} == \
                {'self', 'other'}:
            ok = True
    r4.ob(ok, 'mixin:ne', {'__ne__': norm(rets[0]) if rets else None})
    if not ok:
        rep.finding(r4, ne.qualname, norm(rets[0]) if rets else 'no return',
                    'ne-not-negation', TYP, ne.node.lineno,
                    '__ne__ is not `not self.__eq__(other)`')
    raiser = None
    for mn, m in mix.methods.items():
        if 'ordering_not_supported' in mn:
            raiser = m
    for opn in ('__lt__', '__gt__', '__le__', '__ge__'):
        m = mix.methods.get(opn)
        ok = False
        if m is not None:
            for n in walk_no_nested(m.node):
                if isinstance(n, ast.Raise) and n.exc is not None and \
                        'TypeError' in norm(n.exc):
                    ok = True
                if isinstance(n, ast.Call) and raiser is not None and \
                        last_attr(n) == raiser.name:
                    ok = any(isinstance(x, ast.Raise) and x.exc is not None
                             and 'TypeError' in norm(x.exc)
                             for x in raiser.body)
        r4.ob(ok, 'mixin:' + opn)
        if not ok:
            rep.finding(r4, '_CIMComparisonMixin.' + opn, opn, 'ordering',
                        TYP, mix.node.lineno,
                        'ordering operator does not raise TypeError')

    # ---- R2: helper pairs in _utils --------------------------------------
    utl = repo.module(UTL)

    def fn(name):
        f = utl.functions.get(name)
        if f is None:
            raise AnalysisError('%s vanished from _utils.py' % name)
        r2.functions.add(f.fq)
        return f

    def last_return(f):
        rets = [n for n in f.body if isinstance(n, ast.Return)]
        if not rets:
            raise AnalysisError('%s: no top-level return' % f.name)
        return rets[-1].value

    def fold_methods(expr):
        """method names applied to bare parameter names: x.lower() ->
        {'lower'}"""
        out = []
        for n in ast.walk(expr):
            if isinstance(n, ast.Call) and isinstance(n.func, ast.Attribute) \
                    and isinstance(n.func.value, ast.Name):
                out.append(n.func.attr)
        return out

    r2.sites += 3
    en, ei, ed = fn('_eq_name'), fn('_eq_item'), fn('_eq_dict')
    # every way an equality helper answers for two values that are not
    # None is one comparison of the whole (equally normalised) values - an
    # additional path that compares piecewise (`all(... zip(a, b))`) is
    # equal for values the matching hash helper hashes differently
    from ..paths import return_paths as _rp
    from ..cfg import GuardWalker as _GW
    whole_cmp = {}
    for f in (en, ei, ed):
        ps_ = [p_ for p_ in f.params]
        if len(ps_) != 2:
            continue
        for pth in _rp(f, max_paths=64, inline=False) or []:
            atoms = [a for t0, p0 in pth.facts for a in _GW._atoms(t0, p0)]
            v = pth.resolve(pth.value) if pth.value is not None else None

            def known_not_none(pn):
                return any(
                    (norm(t) == pn + ' is None' and not pol) or
                    (norm(t) == pn + ' is not None' and pol)
                    for t, pol in atoms)
            if not (known_not_none(ps_[0]) and known_not_none(ps_[1])):
                # None handling: the answer is made of `is None` tests only
                def none_logic(e):
                    if isinstance(e, ast.Constant):
                        return isinstance(e.value, bool)
                    if isinstance(e, ast.BoolOp):
                        return all(none_logic(x) for x in e.values)
                    if isinstance(e, ast.UnaryOp) and \
                            isinstance(e.op, ast.Not):
                        return none_logic(e.operand)
                    return isinstance(e, ast.Compare) and \
                        len(e.ops) == 1 and \
                        isinstance(e.ops[0], (ast.Is, ast.IsNot)) and \
                        isinstance(e.left, ast.Name) and \
                        e.left.id in ps_ and \
                        isinstance(e.comparators[0], ast.Constant) and \
                        e.comparators[0].value is None
                if v is not None and none_logic(v):
                    continue
            r2.sites += 1
            whole = isinstance(v, ast.Compare) and len(v.ops) == 1 and \
                isinstance(v.ops[0], ast.Eq) and \
                norm(v.left).replace(ps_[0], '\0') == \
                norm(v.comparators[0]).replace(ps_[1], '\0')
            if whole:
                whole_cmp.setdefault(f.name, v)
            r2.ob(whole, 'utils:%s:path' % f.name,
                  {'returns': norm(v, 80) if v is not None else None})
            if not whole:
                rep.finding(r2, f.qualname, norm(v, 70) if v is not None
                            else 'None', 'partial-comparison', UTL,
                            getattr(pth.ret_stmt, 'lineno', f.node.lineno),
                            '%s answers %s for two values that are not '
                            'None: that is not one comparison of the whole '
                            'values, so values the hash helper hashes '
                            'differently (lists of different length, ...) '
                            'can compare equal' % (
                                f.name, norm(v, 60) if v is not None
                                else 'None'))
    en, hn = fn('_eq_name'), fn('_hash_name')
    ev, hv = whole_cmp.get('_eq_name', last_return(en)), last_return(hn)
    em, hm = fold_methods(ev), fold_methods(hv)
    ok = isinstance(ev, ast.Compare) and len(em) == 2 and em[0] == em[1] \
        and len(hm) == 1 and hm[0] == em[0] and em[0] in ('lower',
                                                           'casefold')
    r2.ob(ok, 'utils:name-pair', {'_eq_name': norm(ev), '_hash_name':
                                  norm(hv)})
    if not ok:
        rep.finding(r2, '_eq_name/_hash_name', norm(ev) + ' / ' + norm(hv),
                    'name-normalisation', UTL, en.node.lineno,
                    '_eq_name and _hash_name do not apply the same case '
                    'folding to both operands / the hashed value')
    ei, hi = fn('_eq_item'), fn('_hash_item')
    ev, hv = whole_cmp.get('_eq_item', last_return(ei)), last_return(hi)
    ok = isinstance(ev, ast.Compare) and len(ev.ops) == 1 and \
        isinstance(ev.ops[0], ast.Eq) and not fold_methods(ev) and \
        isinstance(hv, ast.Call) and dotted(hv.func) == 'hash' and \
        not fold_methods(hv)
    r2.ob(ok, 'utils:item-pair', {'_eq_item': norm(ev), '_hash_item':
                                  norm(hv)})
    if not ok:
        rep.finding(r2, '_eq_item/_hash_item', norm(ev) + ' / ' + norm(hv),
                    'item-normalisation', UTL, ei.node.lineno,
                    '_eq_item/_hash_item are not plain ==/hash delegation')
    ed, hd = fn('_eq_dict'), fn('_hash_dict')
    ev, hv = whole_cmp.get('_eq_dict', last_return(ed)), last_return(hd)
    ok = isinstance(ev, ast.Compare) and len(ev.ops) == 1 and \
        isinstance(ev.ops[0], ast.Eq) and isinstance(hv, ast.Call) and \
        dotted(hv.func) == 'hash' and not fold_methods(ev) and \
        not fold_methods(hv)
    r2.ob(ok, 'utils:dict-pair', {'_eq_dict': norm(ev), '_hash_dict':
                                  norm(hv)})
    if not ok:
        rep.finding(r2, '_eq_dict/_hash_dict', norm(ev) + ' / ' + norm(hv),
                    'dict-normalisation', UTL, ed.node.lineno,
                    '_eq_dict/_hash_dict are not plain ==/hash delegation')
    # (None handling of _eq_name/_eq_item is part of the path rule above)

    # ---- R2: NocaseDict --------------------------------------------------
    ncd = repo.cls('pywbem/_vendor/nocasedict/_nocasedict.py', 'NocaseDict')
    _r8_dict_copy(repo, rep, ncd)
    _r9_eq_closed(repo, rep)
    hm = repo.cls('pywbem/_vendor/nocasedict/_hashable.py', 'HashableMixin')
    vpath = ncd.module.relpath
    r2.sites += 1
    fold = ncd.methods.get('_casefolded_key')
    if fold is None:
        raise AnalysisError('NocaseDict._casefolded_key vanished')
    for mn in ('__getitem__', '__setitem__', '__delitem__', '__contains__',
               'pop'):
        m = ncd.methods.get(mn)
        if m is None:
            raise AnalysisError('NocaseDict.%s vanished' % mn)
        r2.functions.add(m.fq)
        folded = None
        for n in walk_no_nested(m.node):
            if isinstance(n, ast.Assign) and isinstance(n.value, ast.Call) \
                    and dotted(n.value.func) == 'self._casefolded_key' and \
                    len(n.targets) == 1 and \
                    isinstance(n.targets[0], ast.Name):
                folded = n.targets[0].id
        raw_use = []
        for n in walk_no_nested(m.node):
            # self._data[<x>] / <x> in self._data / self._data.pop(<x>)
            idx = None
            if isinstance(n, ast.Subscript) and \
                    dotted(n.value) == 'self._data':
                idx = n.slice
            if isinstance(n, ast.Compare) and len(n.ops) == 1 and \
                    isinstance(n.ops[0], (ast.In, ast.NotIn)) and \
                    dotted(n.comparators[0]) == 'self._data':
                idx = n.left
            if isinstance(n, ast.Call) and \
                    dotted(n.func) in ('self._data.pop', 'self._data.get') \
                    and n.args:
                idx = n.args[0]
            if idx is not None and not (isinstance(idx, ast.Name) and
                                        idx.id == folded):
                raw_use.append(n)
        ok = folded is not None and not raw_use
        r2.ob(ok, 'NocaseDict.%s:folds' % mn,
              {'method': 'NocaseDict.' + mn, 'folded_key_var': folded})
        if not ok:
            rep.finding(r2, 'NocaseDict.' + mn,
                        norm(raw_use[0]) if raw_use else mn, 'unfolded-key',
                        vpath, m.node.lineno,
                        'storage is accessed with a key that did not go '
                        'through _casefolded_key: lookups become '
                        'case-sensitive')
    # fold function really folds case
    cf = ncd.methods.get('__casefold__')
    folds = set()
    for f in (fold, cf):
        if f is not None:
            for n in walk_no_nested(f.node):
                if isinstance(n, ast.Call) and \
                        isinstance(n.func, ast.Attribute) and \
                        n.func.attr in ('casefold', 'lower'):
                    folds.add(n.func.attr)
    ok = bool(folds)
    r2.ob(ok, 'NocaseDict:casefold', {'fold_methods': sorted(folds)})
    if not ok:
        rep.finding(r2, 'NocaseDict._casefolded_key', 'casefold', 'no-fold',
                    vpath, fold.node.lineno,
                    'key folding function does not fold case')
    kn = ncd.methods.get('keys_nocase')
    ok = kn is not None and any(
        isinstance(n, ast.Return) and norm(n.value) == 'self._data.keys()'
        for n in walk_no_nested(kn.node))
    r2.ob(ok, 'NocaseDict:keys_nocase')
    if not ok:
        rep.finding(r2, 'NocaseDict.keys_nocase', 'return', 'keys-nocase',
                    vpath, kn.node.lineno if kn else ncd.node.lineno,
                    'keys_nocase() does not return the folded keys')
    # __eq__: membership via `in other` / other[key]; ends with len compare
    eqm = ncd.methods.get('__eq__')
    if eqm is None:
        raise AnalysisError('NocaseDict.__eq__ vanished')
    r2.functions.add(eqm.fq)
    has_in = has_getitem = has_len = False
    uses_order = False
    for n in walk_no_nested(eqm.node):
        if isinstance(n, ast.Compare) and len(n.ops) == 1 and \
                isinstance(n.ops[0], (ast.In, ast.NotIn)) and \
                norm(n.comparators[0]) == 'other':
            has_in = True
        if isinstance(n, ast.Subscript) and norm(n.value) == 'other':
            has_getitem = True
        if isinstance(n, ast.Return) and isinstance(n.value, ast.Compare) \
                and norm(n.value) in ('len(self) == len(other)',
                                      'len(other) == len(self)'):
            has_len = True
        if isinstance(n, ast.Call) and dotted(n.func) in ('zip', 'list',
                                                          'enumerate'):
            uses_order = True
    ok = has_in and has_getitem and has_len and not uses_order
    r2.ob(ok, 'NocaseDict.__eq__', {'in_other': has_in,
                                    'other[key]': has_getitem,
                                    'len_compare': has_len})
    if not ok:
        rep.finding(r2, 'NocaseDict.__eq__', '__eq__', 'eq-shape', vpath,
                    eqm.node.lineno,
                    'NocaseDict.__eq__ is not "every key of self is in other '
                    '(case-insensitively) with equal value, and same length"')
    hh = hm.methods.get('__hash__')
    if hh is None:
        raise AnalysisError('HashableMixin.__hash__ vanished')
    r2.functions.add(hh.fq)
    src = norm(hh.node, 4000)
    uses_fs = any(isinstance(n, ast.Call) and dotted(n.func) == 'frozenset'
                  for n in walk_no_nested(hh.node))
    iter_nocase = any(isinstance(n, ast.comprehension) and
                      norm(n.iter) == 'self.keys_nocase()'
                      for n in ast.walk(hh.node))
    raw = any(isinstance(n, ast.comprehension) and
              norm(n.iter) in ('self.keys()', 'self.items()', 'self',
                               'self._data.items()')
              for n in ast.walk(hh.node))
    ok = uses_fs and iter_nocase and not raw
    r2.ob(ok, 'HashableMixin.__hash__', {'frozenset': uses_fs,
                                         'iterates_keys_nocase': iter_nocase})
    if not ok:
        rep.finding(r2, 'HashableMixin.__hash__', '__hash__', 'hash-shape',
                    hm.module.relpath, hh.node.lineno,
                    'hash is not an order-free combination over the '
                    'case-folded keys')
    # pywbem's NocaseDict subclass must not override eq/hash, and its
    # key-taking overrides must pass the key on unchanged
    pn = repo.cls('pywbem/_nocasedict.py', 'NocaseDict')
    for mn in ('__eq__', '__hash__', '__ne__'):
        ok = mn not in pn.methods
        r2.ob(ok, 'pywbem.NocaseDict:no-%s' % mn)
        if not ok:
            rep.finding(r2, 'NocaseDict.' + mn, mn, 'override',
                        pn.module.relpath, pn.methods[mn].node.lineno,
                        'pywbem.NocaseDict overrides %s' % mn)
    ok = [b for b in pn.base_exprs][:1] == ['HashableMixin']
    r2.ob(ok, 'pywbem.NocaseDict:bases', {'bases': pn.base_exprs})
    if not ok:
        rep.finding(r2, 'NocaseDict', 'bases', 'mro', pn.module.relpath,
                    pn.node.lineno, 'HashableMixin is not the first base of '
                    'pywbem.NocaseDict: __hash__ would not be the '
                    'case-insensitive one')

    # ---- R6: SlottedPickleMixin -------------------------------------------
    spm = repo.cls(TYP, 'SlottedPickleMixin')
    gs = spm.methods.get('__getstate__')
    ss = spm.methods.get('__setstate__')
    if gs is None or ss is None:
        raise AnalysisError('SlottedPickleMixin state methods vanished')
    r6.functions.update([gs.fq, ss.fq])
    ok = any(isinstance(n, ast.For) and norm(n.iter) == 'self.__slots__'
             for n in walk_no_nested(gs.node))
    r6.ob(ok, 'getstate:slots')
    if not ok:
        rep.finding(r6, gs.qualname, 'for attr in self.__slots__', 'slots',
                    TYP, gs.node.lineno,
                    '__getstate__ does not iterate self.__slots__')
    ok = any(isinstance(n, ast.Call) and dotted(n.func) == 'setattr'
             for n in walk_no_nested(ss.node))
    r6.ob(ok, 'setstate:setattr')
    if not ok:
        rep.finding(r6, ss.qualname, 'setattr', 'setattr', TYP,
                    ss.node.lineno, '__setstate__ does not restore '
                    'attributes with setattr')


def _r8_dict_copy(repo, rep, ncd):
    """C05.R8: NocaseDict.copy() yields an object that behaves like the
    original: when it instantiates the dynamic class of self (a repo subclass
    with extra per-instance state set by __init__), that state must be
    transferred as well - otherwise the copy is reset to the subclass default
    (e.g. allow_unnamed_keys) and ==, hash() and item access of the copy
    raise for keys the original holds."""
    r8 = rep.rule('C05.R8', 'NocaseDict.copy() transfers the per-instance '
                  'state of the class it instantiates')
    cp = ncd.methods.get('copy')
    if cp is None:
        raise AnalysisError('vendored NocaseDict.copy vanished')
    r8.functions.add(cp.fq)
    r8.sites += 1
    ctor = None
    for n in walk_no_nested(cp.node):
        if isinstance(n, ast.Assign) and isinstance(n.value, ast.Call) and \
                not n.value.args and not n.value.keywords:
            ctor = n
            break
    if ctor is None:
        r8.undecided.append('copy(): construction of the result not '
                            'recognised')
        return
    res = norm(ctor.targets[0])
    fn = ctor.value.func
    dynamic = (isinstance(fn, ast.Call) and dotted(fn.func) == 'type') or \
        norm(fn) in ('self.__class__', 'type(self)')
    transferred = {n.targets[0].attr for n in walk_no_nested(cp.node)
                   if isinstance(n, ast.Assign) and
                   isinstance(n.targets[0], ast.Attribute) and
                   norm(n.targets[0].value) == res}
    missing = []
    if dynamic:
        for sub in repo.subclasses_of(ncd.name):
            if sub is ncd or sub.methods.get('copy') is not None:
                continue
            init = sub.methods.get('__init__')
            if init is None:
                continue
            for n in walk_no_nested(init.node):
                if isinstance(n, ast.Assign) and \
                        isinstance(n.targets[0], ast.Attribute) and \
                        norm(n.targets[0].value) == 'self' and \
                        n.targets[0].attr not in transferred:
                    missing.append('%s.%s' % (sub.name, n.targets[0].attr))
    ok = not missing
    r8.ob(ok, 'NocaseDict.copy', {'constructs': norm(ctor.value),
                                  'dynamic_class': dynamic,
                                  'transfers': sorted(transferred),
                                  'subclass_state_not_transferred': missing})
    if not ok:
        rep.finding(r8, cp.qualname, norm(ctor), 'state-not-copied',
                    ncd.module.relpath, ctor.lineno,
                    'copy() instantiates the class of self but does not '
                    'transfer %s, which its __init__ resets to the default: '
                    'a keybindings dictionary with an unnamed key (key None) '
                    'yields a copy on which ==, != and item access raise '
                    'ValueError' % ', '.join(missing))


def _r9_eq_closed(repo, rep):
    """C05.R9: == is decided among objects of the class itself.  __hash__
    hashes the attributes of one class; an __eq__ that converts `other`
    (from a string, a dict, ...) or accepts objects of another type makes
    a == b hold for objects that hash differently, and is not transitive
    when the conversion identifies several spellings."""
    from ..paths import return_paths
    r9 = rep.rule('C05.R9', '__eq__ compares only with objects of the own '
                  'class and never converts the other operand')
    for rel in (OBJ, TYP):
        mod = repo.module(rel)
        for cls in mod.classes.values():
            f = cls.methods.get('__eq__')
            if f is None or len(f.params) < 2:
                continue
            if len(f.body) == 1 and isinstance(f.body[0], ast.Raise):
                continue          # abstract (mixin)
            oth = f.params[1]
            r9.sites += 1
            r9.functions.add(f.fq)
            stores = [n for n in walk_no_nested(f.node)
                      if isinstance(n, ast.Name) and n.id == oth and
                      isinstance(n.ctx, (ast.Store, ast.Del))]
            bad = None
            if stores:
                bad = ('rebinds', stores[0].lineno,
                       'the other operand is replaced by a converted object '
                       'before the comparison')
            paths = return_paths(f, inline=False)
            if paths is None:
                r9.undecided.append('%s: too many paths' % f.qualname)
                continue
            want = 'isinstance(%s, %s)' % (oth, cls.name)
            for p in paths:
                if bad:
                    break
                v = p.value
                if v is None or (isinstance(v, ast.Constant) and
                                 v.value in (False, NotImplemented)) or \
                        norm(v) == 'NotImplemented':
                    continue
                texts = {(norm(e), pol) for e, pol in p.facts}
                if ('self is %s' % oth, True) in texts or \
                        ('%s is self' % oth, True) in texts or \
                        ('self is not %s' % oth, False) in texts or \
                        ('%s is not self' % oth, False) in texts:
                    continue
                if ('not ' + want, False) in texts:
                    continue
                if (want, True) in texts:
                    continue
                bad = ('foreign-type', getattr(p.ret_stmt, 'lineno',
                                               f.node.lineno),
                       'a path returns %s without having established %s'
                       % (norm(v, 50), want))
            r9.ob(bad is None, f.qualname, {'class': cls.name,
                                            'paths': len(paths)})
            if bad:
                rep.finding(r9, f.qualname, want, bad[0], rel, bad[1],
                            '%s: objects of different types (e.g. a '
                            'CIMDateTime and the string spelling it) then '
                            'compare equal although __hash__ differs, and '
                            'two spellings of one value are equal to the '
                            'same object but not to each other (hash law '
                            'and transitivity of == are lost, also for '
                            'paths and dictionaries holding such values)'
                            % bad[2])
    if r9.sites < 10:
        raise AnalysisError('only %d __eq__ methods found' % r9.sites)
