"""C02 - bad server responses surface only as documented pywbem errors."""
import ast
import re

from ..model import (AnalysisError, walk_no_nested, dotted, norm, const_str,
                     fold_const, NotConst)
from ..escape import EscapeAnalysis, Esc
from ..guards import conv_guard_factory
from ..resolve import Resolver, add_pywbem_dynamic, check_dynamic_idioms
from ..ops import operations, OPS, ENVELOPES
from ..cfg import stmt_facts, expr_guards
from ..shapes import ParserShapes, TailInterp, AV, show as show_shape

EXPLANATION = (
    "Error discipline of the reply path, decided by interprocedural "
    "exception-escape analysis: entry points are the statements after the "
    "transport call in _imethodcall/_methodcall/_iexportcall, wbem_request, "
    "and for each of the 34 operation methods the statements after the "
    "envelope call; the CIM-XML parser is reached through the resolved "
    "getattr(self, 'parse_' + name) dispatch (all parse_* methods) and the "
    "type_from_name() constructors. Everything that can propagate must be a "
    "subclass of pywbem.Error: (R1) explicit raises and data-dependent "
    "asserts, (R3) attribute-dictionary lookups attrs(tt)['K'] / x[1]['K'] "
    "must be covered by a check_node() that requires K - in the same parse "
    "method or, for the envelope code, by the parse method of the element "
    "whose name was tested, (R4) int()/float()/CIM type constructors applied "
    "to reply text must be inside a try whose handlers cover the callee's "
    "whole escape set (ValueError, TypeError, OverflowError), (R5) every "
    "operation has the (CIMXMLParseError, XMLParseError) handler that "
    "attaches request_data/response_data before the generic handler, and "
    "the envelopes assign _last_raw_reply before parsing, (R6) the parser "
    "has no while loops (it recurses along the finite tuple tree only), "
    "(R16) between each caller of parse_cim and the call cycles of the "
    "parser a frame converts RecursionError, (R17) the tail of "
    "_methodcall narrows METHODRESPONSE values before shape-dependent use. "
    "Findings are keyed by the origin site, with the entry points it "
    "reaches. Does not decide what requests/urllib3/xml.sax raise for "
    "arbitrary bytes, IndexError, or which pywbem error is chosen.")
ASSUMPTIONS = [
    "what the libraries below pywbem raise is a catalogue (escape.py, "
    "STDLIB_RAISES), not analysed: xml.sax.parseString raises "
    "SAXParseException, LookupError (unknown encoding), ValueError "
    "(multi-byte encoding) or TypeError; session.post raises "
    "RequestException / urllib3 HTTPError subclasses, or ValueError from "
    "urllib.parse for the Location of a redirect it follows",
    "recorder/statistics/logging calls are judged by C19, not here",
    "argument-shape checks of the object model that depend on the *caller's* "
    "arguments are excluded by analysing only the post-transport phase",
    "IndexError, arithmetic errors and reply-shape (tuple vs object) misuse "
    "are outside the catalogue of this check",
]

TP = 'pywbem/_tupleparse.py'
TT = 'pywbem/_tupletree.py'
OBJ = 'pywbem/_cim_obj.py'
HTTP = 'pywbem/_cim_http.py'
OBSERVER_FILES = ('pywbem/_recorder.py', 'pywbem/_statistics.py',
                  'pywbem/_logging.py')
DATA_ASSERT_FILES = (TP, TT)
# raise sites of the object model that depend on *values/types carried by the
# reply* (as opposed to argument-shape checks such as a None name or a wrong
# item type in a container, which the parser's own check_node()/list
# construction rules out)
VALUE_ORIGINS = {
    ('CIMInt.__new__', 'ValueError'), ('CIMInt.__new__', 'OverflowError'),
    ('CIMDateTime.__init__', 'ValueError'),
    ('CIMDateTime._to_int', 'ValueError'),
    ('type_from_name', 'ValueError'),
    ('cimvalue', 'TypeError'), ('cimtype', 'TypeError'),
    ('cimtype', 'ValueError'),
    ('CIMInstanceName.from_wbem_uri', 'ValueError'),
    ('CIMInstanceName._kbstr_to_cimval', 'ValueError'),
    ('_check_array_parms', 'ValueError'),
    ('_check_embedded_object', 'ValueError'),
    ('CIMDateTime.__init__', 'TypeError'),
}


def required_attrs_table(repo):
    """{ELEMENT: set(required attrs)} from the check_node() call of each
    parse_* method; also {func fq: (node_arg_text, required)}."""
    tp = repo.cls(TP, 'TupleParser')
    by_elem, by_func = {}, {}
    for n, f in tp.methods.items():
        if not n.startswith('parse_'):
            continue
        for c in walk_no_nested(f.node):
            if isinstance(c, ast.Call) and \
                    dotted(c.func) == 'self.check_node' and len(c.args) >= 2:
                elem = const_str(c.args[1])
                req = None
                if len(c.args) > 2:
                    req = c.args[2]
                for k in c.keywords:
                    if k.arg == 'required_attrs':
                        req = k.value
                try:
                    reqv = set(fold_const(req)) if req is not None else set()
                except (NotConst, TypeError):
                    reqv = set()
                if elem:
                    by_elem[elem] = reqv
                by_func.setdefault(f.fq, []).append((norm(c.args[0]), reqv))
    return by_elem, by_func


def run(repo, rep, tier):
    operation_envelopes_agree(repo, rep, 'C02.R8', 'handlers')
    regex_termination_rule(repo, rep)
    pull_result_invariant(repo, rep)
    unbounded_int_text_rule(repo, rep)
    cleanup_reads_bound_locals(repo, rep)
    r1 = rep.rule('C02.R1', 'only pywbem.Error escapes the reply path '
                  '(raises, data-dependent asserts)')
    r3 = rep.rule('C02.R3', 'attribute lookups are covered by check_node')
    r4 = rep.rule('C02.R4', 'conversions of reply text are wrapped')
    r5 = rep.rule('C02.R5', 'parse errors expose request and response data')
    r6 = rep.rule('C02.R6', 'reply path terminates (no unbounded loops)')
    check_dynamic_idioms(repo)
    res = Resolver(repo)
    dyninfo = add_pywbem_dynamic(res, repo)
    by_elem, by_func = required_attrs_table(repo)
    if len(by_elem) < 45:
        raise AnalysisError('only %d check_node tables found' % len(by_elem))
    tp = repo.cls(TP, 'TupleParser')

    def alias_expand(func, expr):
        """Replace a Name by its unique pure-subscript definition
        (err = tup_tree[0])."""
        if isinstance(expr, ast.Name):
            defs = [n.value for n in walk_no_nested(func.node)
                    if isinstance(n, ast.Assign) and len(n.targets) == 1 and
                    isinstance(n.targets[0], ast.Name) and
                    n.targets[0].id == expr.id]
            if len(defs) == 1 and isinstance(defs[0], ast.Subscript):
                return defs[0]
        return expr

    def key_receiver(sub, func):
        v = sub.value
        if func.file == TP:
            if isinstance(v, ast.Call) and dotted(v.func) == 'attrs':
                return True
            if isinstance(v, ast.Name):
                for n in walk_no_nested(func.node):
                    if isinstance(n, ast.Assign) and len(n.targets) == 1 \
                            and norm(n.targets[0]) == v.id and \
                            isinstance(n.value, ast.Call) and \
                            dotted(n.value.func) == 'attrs':
                        return True
            return False
        if func.file == OPS:
            # x[1]['K'] on tuple-tree nodes
            return isinstance(v, ast.Subscript) and \
                isinstance(v.slice, ast.Constant) and v.slice.value == 1
        return False

    class EA(EscapeAnalysis):
        def _key_guarded(self, sub, key, facts, root):
            if EscapeAnalysis._key_guarded(self, sub, key, facts, root):
                return True
            func = self._cur
            v = sub.value
            if func.file == TP:
                node_arg = None
                if isinstance(v, ast.Call):
                    node_arg = norm(v.args[0]) if v.args else None
                elif isinstance(v, ast.Name):
                    for n in walk_no_nested(func.node):
                        if isinstance(n, ast.Assign) and \
                                norm(n.targets[0]) == v.id and \
                                isinstance(n.value, ast.Call) and \
                                dotted(n.value.func) == 'attrs' and \
                                n.value.args:
                            node_arg = norm(n.value.args[0])
                for arg, req in by_func.get(func.fq, []):
                    if arg == node_arg and key in req:
                        return True
                # unpack_value(tup_tree) is called by parse methods whose
                # check_node requires TYPE: checked at its call sites
                if func.name == 'unpack_value' and key == 'TYPE':
                    callers_ok = True
                    for m in tp.methods.values():
                        for c in walk_no_nested(m.node):
                            if isinstance(c, ast.Call) and \
                                    dotted(c.func) == 'self.unpack_value':
                                if not any('TYPE' in req for arg, req in
                                           by_func.get(m.fq, [])):
                                    callers_ok = False
                    return callers_ok
                return False
            # envelope code: EXPR[1]['K'] where EXPR[0] was compared with
            # an element name
            base = alias_expand(func, v.value)
            bt = norm(base)
            for t, pol in list(facts) + list(expr_guards(root, sub)):
                if isinstance(t, ast.Compare) and len(t.ops) == 1 and \
                        isinstance(t.left, ast.Subscript) and \
                        isinstance(t.left.slice, ast.Constant) and \
                        t.left.slice.value == 0 and \
                        norm(alias_expand(func, t.left.value)) == bt:
                    elem = const_str(t.comparators[0])
                    is_eq = isinstance(t.ops[0], ast.Eq) and pol or \
                        isinstance(t.ops[0], ast.NotEq) and not pol
                    if elem and is_eq and key in by_elem.get(elem, ()):
                        return True
                # a helper that performs the element-name test on its first
                # argument: _is_element_node(EXPR, 'ERROR')
                if pol and isinstance(t, ast.Call) and len(t.args) == 2 and \
                        const_str(t.args[1]) is not None and \
                        norm(alias_expand(func, t.args[0])) == bt:
                    h = repo.func_opt(OPS, dotted(t.func) or '')
                    if h is not None and len(h.params) == 2 and any(
                            isinstance(c_, ast.Compare) and
                            norm(c_) == '%s[0] == %s' % (h.params[0],
                                                         h.params[1])
                            for c_ in ast.walk(h.node)):
                        if key in by_elem.get(const_str(t.args[1]), ()):
                            return True
                # `a and b[0][0] == 'ERROR'` conjunct facts
                if isinstance(t, ast.BoolOp) and isinstance(t.op, ast.And) \
                        and pol:
                    for vv in t.values:
                        if isinstance(vv, ast.Compare) and \
                                len(vv.ops) == 1 and \
                                isinstance(vv.ops[0], ast.Eq) and \
                                isinstance(vv.left, ast.Subscript) and \
                                isinstance(vv.left.slice, ast.Constant) and \
                                vv.left.slice.value == 0 and \
                                norm(alias_expand(func, vv.left.value)) == bt:
                            elem = const_str(vv.comparators[0])
                            if elem and key in by_elem.get(elem, ()):
                                return True
            return False

        def esc_expr(self, func, node, stmt):
            self._cur = func
            return EscapeAnalysis.esc_expr(self, func, node, stmt)

    def value_arg_is_none(call, target):
        ps = [x for x in target.params if x not in ('self', 'cls')]
        if 'value' not in ps:
            return False
        i = ps.index('value')
        arg = None
        if i < len(call.args):
            arg = call.args[i]
        for k in call.keywords:
            if k.arg == 'value':
                arg = k.value
        return arg is None or (isinstance(arg, ast.Constant) and
                               arg.value is None)

    def value_arg_is_typed(call, func, target):
        """The value handed to the constructor is the result of
        self.unpack_value() (optionally through parse_embeddedObject), i.e.
        already an object of the CIM type named by the same element's TYPE
        attribute: cimvalue() returns it under its isinstance test."""
        ps = [x for x in target.params if x not in ('self', 'cls')]
        if 'value' not in ps:
            return False
        i = ps.index('value')
        arg = call.args[i] if i < len(call.args) else None
        for k in call.keywords:
            if k.arg == 'value':
                arg = k.value
        if not isinstance(arg, ast.Name):
            return False
        defs = [n.value for n in walk_no_nested(func.node)
                if isinstance(n, ast.Assign) and
                any(isinstance(t, ast.Name) and t.id == arg.id
                    for t in n.targets)]
        if not defs:
            return False
        for d in defs:
            if isinstance(d, ast.Call) and dotted(d.func) in (
                    'self.unpack_value',):
                continue
            if isinstance(d, ast.Call) and \
                    dotted(d.func) == 'self.parse_embeddedObject' and \
                    d.args and isinstance(d.args[0], ast.Name) and \
                    d.args[0].id == arg.id:
                continue
            if isinstance(d, ast.Constant) and d.value is None:
                continue
            return False
        return True

    CONVERTING = {k for k in VALUE_ORIGINS
                  if k[0] not in ('_check_array_parms',
                                  '_check_embedded_object')}

    _vg_cache = {}

    def origin_needs_value(e):
        """the raise the Esc originates from executes only when the origin
        function's `value` parameter is not None (so a constructor call
        without a value cannot reach it).  Origins without a `value`
        parameter are the converting ones, reached through cimvalue(value,
        type), which returns None for None."""
        k = (e.file, e.func, e.line)
        if k in _vg_cache:
            return _vg_cache[k]
        ok = True
        of = next((f for f in repo.all_funcs()
                   if f.file == e.file and f.qualname == e.func), None)
        if of is not None and 'value' in of.params and \
                e.func in ('_check_array_parms', '_check_embedded_object'):
            from ..cfg import stmt_facts, GuardWalker
            ok = False
            for st, (facts, _t) in stmt_facts(of.node).items():
                if st.lineno <= e.line <= getattr(st, 'end_lineno',
                                                   st.lineno) and \
                        isinstance(st, ast.Raise):
                    atoms = []
                    for t, pol in facts:
                        atoms += list(GuardWalker._atoms(t, pol))
                    ok = any((norm(t), pol) in (
                        ('value is not None', True), ('value is None', False),
                        ('value', True)) for t, pol in atoms)
        _vg_cache[k] = ok
        return ok

    _cp_cache = {}

    def pruned_by_constants(call, func, target, e):
        """the call in `target` that leads to the origin function is
        unreachable for the literal arguments of this constructor call
        (e.g. embedded_object=False never enters `if embedded_object:`)"""
        from ..constprop import const_args, reachable_under
        consts = const_args(call, target)
        if not consts:
            return False
        k = (target.fq, e.func, tuple(sorted(
            (a, repr(b)) for a, b in consts.items())))
        if k in _cp_cache:
            return _cp_cache[k]
        last = e.func.split('.')[-1]
        sts = [st for st in walk_no_nested(target.node)
               if isinstance(st, ast.stmt) and
               not isinstance(st, (ast.If, ast.For, ast.While, ast.Try,
                                   ast.With)) and
               any(isinstance(c, ast.Call) and
                   (dotted(c.func) or '').split('.')[-1] == last
                   for c in ast.walk(st))]
        res_ = False
        if sts:
            res_ = True
            for st in sts:
                r, _n = reachable_under(target, st, consts)
                if r is not False:
                    res_ = False
                    break
        _cp_cache[k] = res_
        return res_

    def text_evident(expr, func, call, depth=0):
        """the expression is a str or bytes object: established by an
        isinstance test at the call, or it comes from the HTTP layer
        (requests' resp.content, file.read()), followed through locals,
        tuple-returning repo functions and - for a parameter - all call
        sites"""
        if depth > 3:
            return False
        if isinstance(expr, ast.Constant):
            return isinstance(expr.value, (str, bytes))
        if isinstance(expr, ast.Attribute) and expr.attr in ('content',
                                                             'text'):
            return True
        if isinstance(expr, ast.Call) and \
                isinstance(expr.func, ast.Attribute) and \
                expr.func.attr in ('read', 'encode', 'decode', 'toxml',
                                   'join', 'format', 'strip'):
            return True
        if isinstance(expr, ast.Call) and dotted(expr.func) in (
                '_ensure_bytes', '_ensure_unicode', 'str', 'bytes'):
            return dotted(expr.func) in ('str', 'bytes') or (
                bool(expr.args) and text_evident(expr.args[0], func, call,
                                                 depth + 1))
        if not isinstance(expr, ast.Name):
            return False
        nm = expr.id
        from ..cfg import stmt_facts as _sf
        # an isinstance test that holds at the call
        if call is not None:
            for st, (fs, _t) in _sf(func.node).items():
                if isinstance(st, (ast.If, ast.For, ast.While, ast.Try,
                                   ast.With)):
                    continue
                if any(x is call for x in ast.walk(st)):
                    from ..relfacts import split as _split
                    for t, pol in fs:
                        for t2, p2 in _split(t, pol):
                            if isinstance(t2, ast.Call) and \
                                    dotted(t2.func) == 'isinstance' and \
                                    norm(t2.args[0]) == nm and p2:
                                tt = t2.args[1]
                                ns = [norm(x) for x in (
                                    tt.elts if isinstance(tt, ast.Tuple)
                                    else [tt])]
                                if set(ns) <= {'str', 'bytes'}:
                                    return True
        defs = []
        for n in walk_no_nested(func.node):
            if isinstance(n, ast.Assign):
                for t in n.targets:
                    if isinstance(t, ast.Name) and t.id == nm:
                        defs.append(n.value)
                    elif isinstance(t, ast.Tuple):
                        for i, el in enumerate(t.elts):
                            if isinstance(el, ast.Name) and el.id == nm:
                                defs.append((n.value, i))
        if defs:
            for d in defs:
                if isinstance(d, tuple):
                    v, i = d
                    g = None
                    if isinstance(v, ast.Call):
                        ts, _how = res.resolve(v, func)
                        g = ts[0] if len(ts) == 1 else None
                    if g is None:
                        return False
                    rets = [r for r in walk_no_nested(g.node)
                            if isinstance(r, ast.Return)]
                    if not rets or not all(
                            isinstance(r.value, ast.Tuple) and
                            i < len(r.value.elts) and
                            text_evident(r.value.elts[i], g, None, depth + 1)
                            for r in rets):
                        return False
                elif not text_evident(d, func, None, depth + 1):
                    return False
            return True
        if nm in func.params:
            # every caller passes text
            idx = [p_ for p_ in func.params if p_ not in ('self', 'cls')
                   ].index(nm)
            sites = 0
            for m_ in repo.modules.values():
                for f2 in m_.all_funcs():
                    for c2 in walk_no_nested(f2.node):
                        if isinstance(c2, ast.Call) and \
                                (dotted(c2.func) or '').split('.')[-1] == \
                                func.name:
                            ts, _how = res.resolve(c2, f2)
                            if func not in ts:
                                continue
                            sites += 1
                            if idx >= len(c2.args) or not text_evident(
                                    c2.args[idx], f2, c2, depth + 1):
                                return False
            return sites > 0
        return False

    # ---- container constructors that are handed parsed objects ----------
    tp_cls = repo.cls(TP, 'TupleParser')
    _rc_cache = {}

    def returned_classes(meth, depth=0):
        """names of the CIM classes whose instances a parse method returns
        (None in the set: something else may be returned too)"""
        if meth.fq in _rc_cache:
            return _rc_cache[meth.fq]
        if depth > 3:
            return {None}
        _rc_cache[meth.fq] = {None}          # recursion guard
        out = set()
        for r in walk_no_nested(meth.node):
            if not isinstance(r, ast.Return):
                continue
            vals = [r.value]
            if isinstance(r.value, ast.Name):
                vals = [n.value for n in walk_no_nested(meth.node)
                        if isinstance(n, ast.Assign) and
                        any(isinstance(t, ast.Name) and t.id == r.value.id
                            for t in n.targets)] or [None]
            for x in vals:
                d = dotted(x.func) if isinstance(x, ast.Call) else None
                if d and '.' not in d and d.startswith('CIM'):
                    out.add(d)
                elif d and d.startswith('self.parse_') and \
                        tp_cls.find_method(d[5:]) is not None:
                    out |= returned_classes(tp_cls.find_method(d[5:]),
                                            depth + 1)
                else:
                    out.add(None)
        _rc_cache[meth.fq] = out or {None}
        return _rc_cache[meth.fq]

    def parsed_items_classes(expr, func, depth=0):
        """the classes of the items of a list that was built by
        list_of_matching() & co. from named child elements, followed
        through locals and - for a parameter of a helper - all call sites;
        None in the set: not known to be parsed objects"""
        if depth > 3 or expr is None:
            return {None}
        if isinstance(expr, ast.Constant) and expr.value is None:
            return set()
        if isinstance(expr, ast.Call) and dotted(expr.func) in (
                'self.list_of_matching', 'self.list_of_various',
                'self.list_of_same') and len(expr.args) >= 2 and \
                isinstance(expr.args[1], (ast.Tuple, ast.List)):
            out = set()
            for el in expr.args[1].elts:
                nm = const_str(el)
                m_ = tp_cls.find_method(
                    'parse_' + nm.lower().replace('.', '_')) if nm else None
                if m_ is None:
                    return {None}
                out |= returned_classes(m_)
            return out
        if not isinstance(expr, ast.Name):
            return {None}
        defs = [n.value for n in walk_no_nested(func.node)
                if isinstance(n, ast.Assign) and
                any(isinstance(t, ast.Name) and t.id == expr.id
                    for t in n.targets)]
        if any(isinstance(x, ast.Name) and isinstance(x.ctx, ast.Store) and
               x.id == expr.id for n in walk_no_nested(func.node)
               if not isinstance(n, ast.Assign) for x in ast.walk(n)
               if isinstance(n, (ast.For, ast.AugAssign, ast.With))):
            return {None}
        if defs:
            out = set()
            for d_ in defs:
                out |= parsed_items_classes(d_, func, depth + 1)
            return out
        ps_ = [p_ for p_ in func.params if p_ not in ('self', 'cls')]
        if expr.id in ps_:
            idx = ps_.index(expr.id)
            out, sites = set(), 0
            for f2 in repo.module(TP).all_funcs():
                for c2 in walk_no_nested(f2.node):
                    if isinstance(c2, ast.Call) and \
                            (dotted(c2.func) or '').split('.')[-1] == \
                            func.name and func in res.resolve(c2, f2)[0]:
                        sites += 1
                        a_ = c2.args[idx] if idx < len(c2.args) else next(
                            (k.value for k in c2.keywords
                             if k.arg == expr.id), None)
                        out |= parsed_items_classes(a_, f2, depth + 1)
            return out if sites else {None}
        return {None}

    _wp_cache = {}

    def wrapper_passes_objects(wname, clsname):
        """the item wrapper (_cim_qualifier & co.) constructs a new object
        only when its value is not already one of that class"""
        k = (wname, clsname)
        if k not in _wp_cache:
            from ..cfg import stmt_facts as _sf, GuardWalker as _GW
            w = repo.module(OBJ).functions.get(wname)
            ok = w is not None
            n_ = 0
            if ok:
                for st, (fs, _t) in _sf(w.node).items():
                    if isinstance(st, (ast.If, ast.For, ast.While, ast.Try,
                                       ast.With)):
                        continue
                    if not any(isinstance(c, ast.Call) and
                               dotted(c.func) == clsname
                               for c in ast.walk(st)):
                        continue
                    n_ += 1
                    atoms = [a for t, pol in fs for a in _GW._atoms(t, pol)]
                    if not any(
                            not pol and isinstance(t, ast.Call) and
                            dotted(t.func) == 'isinstance' and
                            len(t.args) == 2 and norm(t.args[1]) == clsname
                            and norm(t.args[0]) in w.params
                            for t, pol in atoms):
                        ok = False
            _wp_cache[k] = ok and n_ > 0
        return _wp_cache[k]

    def container_items_are_objects(call, func, target, e):
        """every way the origin is reached from this constructor goes
        through an item wrapper that converts only values that are not yet
        objects, and the argument concerned holds objects the parser built
        (or is omitted)"""
        ps_ = [p_ for p_ in target.params if p_ not in ('self', 'cls')]
        for chain in e.all_chains():
            if len(chain) < 4:
                return False
            setter, wrapper, ctor = chain[1], chain[2], chain[3]
            if setter.count('.') != 1 or not wrapper.startswith('_cim_') \
                    or not ctor.endswith('.__init__'):
                return False
            attr = setter.split('.')[1]
            clsname = ctor.split('.')[0]
            if attr not in ps_:
                return False
            i_ = ps_.index(attr)
            arg = call.args[i_] if i_ < len(call.args) else next(
                (k.value for k in call.keywords if k.arg == attr), None)
            if any(isinstance(a_, ast.Starred) for a_ in call.args) or \
                    any(k.arg is None for k in call.keywords):
                return False
            if arg is None:
                continue          # omitted: nothing to convert
            if not parsed_items_classes(arg, func) <= {clsname}:
                return False
            if not wrapper_passes_objects(wrapper, clsname):
                return False
        return True

    def esc_filter(call, func, target, e):
        if target.file in OBSERVER_FILES:
            return False
        if func.file == TP and target.name == '__init__' and \
                (e.func, e.exc) in VALUE_ORIGINS and \
                container_items_are_objects(call, func, target, e):
            return False       # the items are objects the parser built
        if e.kind == 'stdlib' and e.exc == 'TypeError' and \
                e.func == target.qualname and \
                e.construct.startswith('xml.sax.parseString'):
            # TypeError only for an argument that is neither str nor bytes
            ps_ = [p_ for p_ in target.params if p_ not in ('self', 'cls')]
            if call.args and text_evident(call.args[0], func, call):
                return False
        if func.file == TP and target.name in ('__init__', '__new__') and \
                (e.func, e.exc) in VALUE_ORIGINS and \
                pruned_by_constants(call, func, target, e):
            return False       # unreachable for these literal arguments
        if func.file == TP and target.name in ('__init__', '__new__') and \
                (e.func, e.exc) in VALUE_ORIGINS and \
                value_arg_is_none(call, target) and origin_needs_value(e):
            return False       # constructor called without a value
        if func.file == TP and target.name in ('__init__', '__new__') and \
                (e.func, e.exc) in CONVERTING and \
                value_arg_is_typed(call, func, target):
            return False       # value already typed by unpack_value()
        return True

    log = []
    ea = EA(repo, res, key_receiver=key_receiver,
            conv_guard=conv_guard_factory(repo, log), esc_filter=esc_filter)
    ops = operations(repo)
    conn = repo.cls(OPS, 'WBEMConnection')
    envs = {n: conn.methods[n] for n in ENVELOPES}
    wreq = repo.func(HTTP, 'wbem_request')
    ea.solve([op.func for op in ops] + list(envs.values()) + [wreq])

    def after(func, pred):
        body = func.body
        for i, s in enumerate(body):
            if any(isinstance(c, ast.Call) and pred(c) for c in ast.walk(s)):
                return body[i:]      # includes the call statement itself
        raise AnalysisError('%s: transport call not found' % func.qualname)

    env_post = {}
    for n, f in envs.items():
        stmts = after(f, lambda c: dotted(c.func) == 'wbem_request')
        env_post[n] = ea.esc_block(f, stmts, None)
    entry_sets = {}
    for op in ops:
        f = op.func
        if op.main_try is None:
            raise AnalysisError('%s: main try not found' % f.qualname)
        body = op.main_try.body
        idx = None
        for i, s in enumerate(body):
            if any(c is x for c in op.envelope_calls for x in ast.walk(s)):
                idx = i
        if idx is None:
            raise AnalysisError('%s: envelope call not in main try'
                                % f.qualname)
        es = {}
        es.update(ea.esc_block(f, body[idx + 1:], None))
        for k, v in env_post[op.envelope].items():
            es.setdefault(k, v.via(f.qualname))
        entry_sets[f.name] = es
    # origin -> entry points
    origins = {}
    for name, es in entry_sets.items():
        for k, e in es.items():
            origins.setdefault(k, (e, set()))[1].add(name)
    n_ops = len(ops)
    for rr in (r1, r3, r4):
        rr.sites = n_ops
        rr.functions.update(op.func.fq for op in ops)
    REPLY_FILES = (TP, TT, OPS, HTTP)
    file_of = {}
    for f in repo.all_funcs():
        file_of.setdefault(f.qualname, f.file)

    def is_arg_type_check(e):
        """raise TypeError under `not isinstance(<param>, ...)`: argument
        type check of an internal helper."""
        if e.kind != 'raise' or e.exc != 'TypeError':
            return False
        try:
            of = repo.func(e.file, e.func)
        except AnalysisError:
            return False
        for st, (fs, trys) in ea.facts(of).items():
            if isinstance(st, ast.Raise) and st.lineno == e.line:
                # try: assert isinstance(param, T) except AssertionError:
                #     raise TypeError(...)
                for tr, part in trys:
                    if part == 'handler' and tr.body and \
                            isinstance(tr.body[0], ast.Assert) and \
                            isinstance(tr.body[0].test, ast.Call) and \
                            dotted(tr.body[0].test.func) == 'isinstance' and \
                            isinstance(tr.body[0].test.args[0], ast.Name) \
                            and tr.body[0].test.args[0].id in of.params:
                        return True
                for t, pol in fs:
                    if pol and isinstance(t, ast.UnaryOp) and \
                            isinstance(t.op, ast.Not):
                        t, pol = t.operand, False
                    if (not pol) and isinstance(t, ast.Call) and \
                            dotted(t.func) == 'isinstance' and \
                            isinstance(t.args[0], ast.Name) and \
                            t.args[0].id in of.params:
                        return True
        return False

    def judge(e, names, key, construct, func, file_, line, extra=''):
        rr = {'conv': r4, 'key': r3}.get(e.kind, r1)
        ok = ea.h.is_sub(e.exc, 'Error')
        rr.ob(ok, '%s|%s|%s' % (func, construct, e.exc),
              {'site': '%s: %s' % (func, construct),
               'may_raise': e.exc, 'kind': e.kind,
               'reaches_operations': len(names),
               'is_pywbem_error': ok})
        if ok:
            return
        what = {'conv': 'conversion of reply text is not wrapped: ',
                'key': 'attribute is read without a check_node() that '
                       'requires it: ',
                'assert': 'assertion on reply data: '}.get(e.kind, '')
        rep.finding(rr, func, construct, e.exc, file_, line,
                    '%s%s%s can escape from %d operation(s) (e.g. %s) '
                    'instead of a pywbem.Error'
                    % (what, extra, e.exc, len(names),
                       ', '.join(sorted(names)[:3])),
                    path=list(e.chain) + [e.func])

    def not_none_assert_discharged(e):
        """`assert <param> is not None` in a parser helper: every call site
        in the parser passes a value that cannot be None (a .get() with a
        string default, an attribute-dict value, or a name under the fact
        `name is None` == False)."""
        try:
            of = repo.func(e.file, e.func)
            t = ast.parse(e.construct).body[0].test
        except Exception:
            return False
        if not (isinstance(t, ast.Compare) and len(t.ops) == 1 and
                isinstance(t.ops[0], ast.IsNot) and
                isinstance(t.left, ast.Name) and t.left.id in of.params and
                isinstance(t.comparators[0], ast.Constant) and
                t.comparators[0].value is None):
            return False
        ps = [x for x in of.params if x != 'self']
        idx = ps.index(t.left.id)
        sites = 0
        for g in repo.module(TP).all_funcs():
            fx = None
            for st in ast.walk(g.node):
                if not isinstance(st, ast.stmt):
                    continue
                for c in ([st.value] if isinstance(st, (ast.Expr, ast.Return,
                                                       ast.Assign))
                          and st.value is not None else []):
                    for call in ast.walk(c):
                        if isinstance(call, ast.Call) and \
                                dotted(call.func) == 'self.' + of.name and \
                                idx < len(call.args):
                            sites += 1
                            a = call.args[idx]
                            if isinstance(a, ast.Call) and \
                                    isinstance(a.func, ast.Attribute) and \
                                    a.func.attr == 'get' and \
                                    len(a.args) == 2 and \
                                    const_str(a.args[1]) is not None:
                                continue
                            if isinstance(a, ast.Call) and \
                                    isinstance(a.func, ast.Attribute) and \
                                    a.func.attr == 'get' and \
                                    len(a.args) == 2 and \
                                    isinstance(a.args[1], ast.Name):
                                if _always_str(repo, g, a.args[1].id):
                                    continue
                            if const_str(a) is not None:
                                continue
                            if isinstance(a, ast.Name):
                                if fx is None:
                                    fx = ea.facts(g)
                                fs = fx.get(st, ((), ()))[0]
                                if any((not pol) and
                                       norm(tt) == a.id + ' is None'
                                       for tt, pol in fs):
                                    continue
                                items = any(
                                    isinstance(n, ast.For) and
                                    a.id in [x.id for x in ast.walk(n.target)
                                             if isinstance(x, ast.Name)] and
                                    norm(n.iter).startswith('attrs(') and
                                    norm(n.iter).endswith('.items()')
                                    for n in ast.walk(g.node))
                                if items:
                                    continue
                            return False
        return sites > 0

    # (a) origins inside the reply-path modules: keyed by origin site
    for k, (e, names) in sorted(origins.items(), key=lambda x: str(x[0])):
        if e.file not in REPLY_FILES:
            continue
        if e.kind == 'assert':
            # isinstance() assertions are type invariants of internal values
            try:
                tree = ast.parse(e.construct.replace('...', ''))
                t = tree.body[0].test
            except Exception:
                t = None
            if isinstance(t, ast.Call) and dotted(t.func) == 'isinstance':
                continue
            if e.file == OPS and e.func.split('.')[-1] not in \
                    ENVELOPES + ('_get_rslt_params',):
                continue
        if is_arg_type_check(e):
            continue
        if e.kind == 'assert' and not_none_assert_discharged(e):
            r1.ob(True, '%s|%s|discharged' % (e.func, e.construct),
                  {'assert': e.construct, 'function': e.func,
                   'discharged': 'every call site passes a non-None value'})
            continue
        judge(e, names, k, e.construct, e.func, e.file, e.line)
    # (b) origins in the object model: keyed by the frontier, i.e. the
    # reply-path function that calls into the object model unwrapped
    top_keys = set(origins)
    frontier = {}
    skipped_shape = set()

    def add_frontier(fname, ffile, fline, e):
        if e.file in REPLY_FILES or e.file in OBSERVER_FILES:
            return
        if e.key not in top_keys or e.kind == 'assert':
            return
        if ea.h.is_sub(e.exc, 'Error'):
            return
        # every callee through which the exception leaves this function
        # (the summary remembers the chains that differ in that callee)
        for chain in e.all_chains():
            hop = chain[1] if len(chain) > 1 else e.func
            if file_of.get(hop, e.file) in REPLY_FILES:
                continue           # not the frontier
            if (e.func, e.exc) not in VALUE_ORIGINS:
                skipped_shape.add('%s:%s' % (e.func, e.exc))
                continue
            e2 = e if chain is e.chain else type(e)(
                e.exc, e.kind, e.file, e.func, e.construct, e.line, chain)
            frontier.setdefault((fname, hop, e.exc), []).append(
                ((fname, ffile, fline), e2))
    for f in repo.all_funcs():
        if f.fq not in ea.summ:
            continue
        if f.file in (TP, TT, HTTP) or (
                f.file == OPS and f.name.startswith('_get_')):
            for e in ea.summ[f.fq].values():
                add_frontier(f.qualname, f.file, f.node.lineno, e)
    for op in ops:
        f = op.func
        for e in entry_sets[f.name].values():
            if e.chain and e.chain[0] == f.qualname:
                add_frontier(f.qualname, f.file, f.node.lineno, e)
    for n, f in envs.items():
        for e in env_post[n].values():
            if e.chain and e.chain[0] == f.qualname:
                add_frontier(f.qualname, f.file, f.node.lineno, e)
    r4.notes.append('argument-shape checks of the object model not judged: '
                    '%s' % sorted(skipped_shape)[:40])
    for (fq, hop, exc), es in sorted(frontier.items()):
        (fname_, ffile_, fline_), e = es[0]
        names = set()
        for _, x in es:
            names |= origins[x.key][1]
        origs = sorted({'%s (%s)' % (x.func, x.construct) for _, x in es})
        rr = r4
        rr.ob(False, '%s|%s|%s' % (fq, hop, exc),
              {'frontier': fq, 'calls': hop, 'may_raise': exc,
               'origins': origs[:4]})
        rep.finding(rr, fq, hop + '(...)', exc, ffile_, fline_,
                    'the call into the object model is not inside a try '
                    'that converts %s to CIMXMLParseError (raised in %s): '
                    'it can escape from %d operation(s) (e.g. %s)'
                    % (exc, '; '.join(origs[:3]), len(names),
                       ', '.join(sorted(names)[:3])),
                    path=list(e.chain) + [e.func])
    r1.notes.append('functions analysed: %d; calls %s; parse methods '
                    'resolved for parse_any: %d; type_from_name ctors: %s'
                    % (len(ea.analysed), ea.call_stats,
                       dyninfo['parse_methods'], dyninfo['value_ctors']))
    r4.notes.append('regex guards evaluated: %s' % log[:6])

    # ---- R2a: a possibly-None reply is not used as a sequence -----------
    r2 = rep.rule('C02.R2a', 'the possibly-None result of _imethodcall is '
                  'tested before it is used as a sequence')
    imc = envs['_imethodcall']
    def results(e):
        """the sub-expressions a returned expression may evaluate to"""
        if isinstance(e, ast.BoolOp):
            return [x for v in e.values for x in results(v)]
        if isinstance(e, ast.IfExp):
            return results(e.body) + results(e.orelse)
        return [e]
    none_locals = {norm(n.targets[0]) for n in walk_no_nested(imc.node)
                   if isinstance(n, ast.Assign) and
                   isinstance(n.value, ast.Constant) and
                   n.value.value is None}
    may_none = any(
        (isinstance(x, ast.Constant) and x.value is None) or
        norm(x) in none_locals
        for r_ in walk_no_nested(imc.node)
        if isinstance(r_, ast.Return) and r_.value is not None
        for x in results(r_.value))
    if not may_none:
        raise AnalysisError('_imethodcall no longer returns None for an '
                            'empty response (R2a anchor)')

    def uses_as_sequence(func, pname):
        """statements of func that iterate/subscript `pname` without a
        dominating None test"""
        out = []
        fx = stmt_facts(func.node)
        # `if x is None: x = <non-None>` at the top level of the function
        # normalises x for everything that follows
        norm_line = None
        for s_ in func.body:
            if isinstance(s_, ast.If) and \
                    norm(s_.test) == pname + ' is None' and any(
                        isinstance(a_, ast.Assign) and
                        norm(a_.targets[0]) == pname and
                        not (isinstance(a_.value, ast.Constant) and
                             a_.value.value is None)
                        for a_ in s_.body):
                norm_line = s_.end_lineno
        for st, (fs, _) in fx.items():
            if norm_line is not None and st.lineno > norm_line:
                continue
            guarded = any(
                (norm(t) == pname + ' is None' and not pol) or
                (norm(t) == pname + ' is not None' and pol) or
                (norm(t) == pname and pol) or
                (norm(t) == 'not ' + pname and not pol)
                for t, pol in fs)
            if guarded:
                continue
            exprs = []
            if isinstance(st, (ast.For, ast.AsyncFor)):
                if norm(st.iter) == pname:
                    out.append((st, 'iterated'))
                continue
            if isinstance(st, (ast.If, ast.While, ast.Try, ast.With)):
                continue
            for x in ast.walk(st):
                if isinstance(x, ast.Subscript) and norm(x.value) == pname \
                        and isinstance(x.ctx, ast.Load):
                    # `[] if result is None else [.. result[0] ..]`
                    g = expr_guards(st, x)
                    if any((norm(t) == pname + ' is None' and not pol)
                           for t, pol in g):
                        continue
                    out.append((st, 'subscripted'))
                if isinstance(x, ast.comprehension) and \
                        norm(x.iter) == pname:
                    out.append((st, 'iterated'))
        return out

    for op in ops:
        if op.envelope != '_imethodcall':
            continue
        f = op.func
        var = None
        for n in walk_no_nested(f.node):
            if isinstance(n, ast.Assign) and any(
                    n.value is c for c in op.envelope_calls) and \
                    isinstance(n.targets[0], ast.Name):
                var = n.targets[0].id
        if var is None:
            continue           # void operation: result not used
        r2.sites += 1
        r2.functions.add(f.fq)
        bad = list(uses_as_sequence(f, var))
        # passed on to a helper (a private method or a function nested in
        # the operation) that uses its parameter as a sequence
        from ..constprop import may_return_given
        from ..cfg import CFG as _CFG
        nested = {n.name: n for n in ast.walk(f.node)
                  if isinstance(n, ast.FunctionDef) and n is not f.node}

        class _Nested:
            def __init__(self, node):
                self.node, self.name = node, node.name
                self.body = node.body
                self.params = [a.arg for a in node.args.args]

        def helper_of(c):
            d = dotted(c.func) or ''
            if d.startswith('self._') and d.count('.') == 1:
                return conn.methods.get(d[5:])
            if d in nested:
                return _Nested(nested[d])
            return None

        def passes(c, h):
            hp = [p_ for p_ in h.params if p_ != 'self']
            out_ = [hp[i] for i, a in enumerate(c.args)
                    if isinstance(a, ast.Name) and a.id == var and
                    i < len(hp)]
            out_ += [k.arg for k in c.keywords
                     if isinstance(k.value, ast.Name) and
                     k.value.id == var and k.arg in hp]
            return out_
        fx = stmt_facts(f.node)
        # statements after which `var` cannot be None: they hand it to a
        # helper that never returns for None
        rejecting = []
        for st in fx:
            if isinstance(st, (ast.If, ast.While, ast.Try, ast.With,
                               ast.For)):
                continue
            # only calls that are evaluated whenever the statement is
            for c in ast.walk(st):
                if not isinstance(c, ast.Call) or expr_guards(st, c):
                    continue
                h = helper_of(c)
                if h is None:
                    continue
                for pn in passes(c, h):
                    if not may_return_given(h, {pn: None}):
                        rejecting.append(st)
        cfg_f = _CFG(f.node) if rejecting else None
        for st, (fs, _) in fx.items():
            if isinstance(st, (ast.If, ast.While, ast.Try, ast.With,
                               ast.For)):
                continue
            guarded = any((norm(t) == var + ' is None' and not pol)
                          for t, pol in fs)
            if guarded:
                continue
            for c in ast.walk(st):
                if not isinstance(c, ast.Call):
                    continue
                h = helper_of(c)
                if h is None:
                    continue
                if any((norm(t) == var + ' is None' and not pol)
                       for t, pol in expr_guards(st, c)):
                    continue
                for pn in passes(c, h):
                    uses = uses_as_sequence(h, pn)
                    if not uses:
                        continue
                    if cfg_f is not None and st not in rejecting and \
                            cfg_f.path_avoiding(
                                cfg_f.ENTRY, st,
                                lambda x: x in rejecting) is None:
                        continue    # var was rejected for None before
                    for st2, how in uses:
                        bad.append((st, '%s by %s()' % (how, h.name)))
        r2.ob(not bad, f.name, {'operation': f.name, 'result_var': var,
                                'unguarded_uses': [norm(s_, 60)
                                                   for s_, _ in bad][:3]})
        seen_ = set()
        for st, how in bad:
            k_ = (how,)
            if k_ in seen_:
                continue
            seen_.add(k_)
            rep.finding(r2, f.qualname, '%s %s' % (var, how),
                        'none-result', OPS, st.lineno,
                        '_imethodcall returns None for an IMETHODRESPONSE '
                        'without children, but %r is %s without a None '
                        'test: TypeError instead of a pywbem error for '
                        'such a reply' % (var, how))
    if r2.sites < 20:
        raise AnalysisError('only %d result-using operations found'
                            % r2.sites)
    # ---- R5 ---------------------------------------------------------------
    for op in ops:
        f = op.func
        r5.sites += 1
        r5.functions.add(f.fq)
        from ..cfg import canonical_handlers
        hs = canonical_handlers(op.main_try)
        names = [norm(h.type) if h.type is not None else None for h in hs]
        ok = len(hs) >= 2 and \
            names[0] == '(CIMXMLParseError, XMLParseError)' and \
            names[-1] == 'Exception'
        if ok:
            h = hs[0]
            v = h.name
            body = [norm(s) for s in h.body]
            ok = ('%s.request_data = self.last_raw_request' % v) in body and \
                ('%s.response_data = self.last_raw_reply' % v) in body and \
                isinstance(h.body[-1], ast.Raise) and h.body[-1].exc is None
            # generic handler re-raises
            g = hs[-1]
            ok = ok and isinstance(g.body[-1], ast.Raise) and \
                g.body[-1].exc is None
        r5.ob(ok, f.name + ':parse-error-handler',
              {'operation': f.name, 'handlers': names})
        if not ok:
            rep.finding(r5, f.qualname, 'except (CIMXMLParseError, '
                        'XMLParseError)', 'handler', OPS, f.node.lineno,
                        'the operation does not attach request_data/'
                        'response_data to parse errors before the generic '
                        'handler and re-raise')
    for n, f in envs.items():
        r5.sites += 1
        body = f.body
        idx_raw = idx_parse = None
        # the variable that receives the reply bytes from wbem_request()
        reply_vars = set()
        for s in body:
            if isinstance(s, ast.Assign) and isinstance(s.value, ast.Call) \
                    and dotted(s.value.func) == 'wbem_request':
                t0 = s.targets[0]
                if isinstance(t0, ast.Tuple) and t0.elts and \
                        isinstance(t0.elts[0], ast.Name):
                    reply_vars.add(t0.elts[0].id)
                elif isinstance(t0, ast.Name):
                    reply_vars.add(t0.id)
        for i, s in enumerate(body):
            if isinstance(s, ast.Assign) and \
                    norm(s.targets[0]) == 'self._last_raw_reply' and \
                    norm(s.value) in reply_vars:
                idx_raw = i
            if idx_parse is None and any(
                    isinstance(c, ast.Call) and
                    dotted(c.func) == 'xml_to_tupletree_sax'
                    for c in ast.walk(s)):
                idx_parse = i
        ok = idx_raw is not None and idx_parse is not None and \
            idx_raw < idx_parse
        r5.ob(ok, n + ':raw-before-parse')
        if not ok:
            rep.finding(r5, f.qualname, 'self._last_raw_reply = reply_data',
                        'raw-after-parse', OPS, f.node.lineno,
                        'the raw reply is not recorded before parsing: a '
                        'parse error cannot expose the response data')
    # the properties the handler reads return the recorded data
    for prop, attr in (('last_raw_request', '_last_raw_request'),
                       ('last_raw_reply', '_last_raw_reply')):
        g = conn.getters.get(prop)
        ok = g is not None and any(
            isinstance(s, ast.Return) and norm(s.value) == 'self.' + attr
            for s in g.body)
        r5.ob(ok, 'getter:' + prop)
        if not ok:
            rep.finding(r5, 'WBEMConnection.' + prop, prop, 'getter', OPS,
                        g.node.lineno if g else conn.node.lineno,
                        '%s does not return the recorded %s' % (prop, attr))
    # ---- R6 ---------------------------------------------------------------
    for path in (TP, TT):
        m = repo.module(path)
        for f in m.all_funcs():
            r6.sites += 1
            loops = [n for n in walk_no_nested(f.node)
                     if isinstance(n, ast.While)]
            r6.ob(not loops, f.qualname)
            for w in loops:
                rep.finding(r6, f.qualname, 'while ' + norm(w.test), 'while',
                            path, w.lineno, 'unbounded loop in the reply '
                            'parser (only recursion along the tuple tree and '
                            'for-loops over finite collections are expected)')

    _r2_shapes(repo, rep, ops, conn)
    object_model_handlers_catch_both(repo, rep, 'C02.R14')
    recursion_depth_is_converted(repo, rep, 'C02.R16', (OPS,))
    object_model_rejects_only_none(repo, rep, 'C02.R15')
    parsed_values_are_strings_where_used_as(repo, rep)
    _r4b_type_guard(repo, rep)
    _r2c_tag_confusion(repo, rep)
    r7 = rep.rule('C02.R7', 'error messages on the reply path can be built '
                  '(constant, well-formed format templates)')
    from ..guards import run_format_rule
    run_format_rule(repo, rep, r7, lambda f: f.file in (
        TP, TT, OPS, 'pywbem/_cim_http.py', 'pywbem/_exceptions.py',
        'pywbem/_utils.py'))


def _r2_shapes(repo, rep, ops, conn):
    """C02.R2: elements of the reply are type-checked before they are used in
    a shape-dependent way or returned (the 'wrong element for the operation'
    clause)."""
    r2 = rep.rule('C02.R2', 'reply elements are narrowed by isinstance '
                  'before shape-dependent use and before they are returned')
    ps = ParserShapes(repo)
    irv = ps.element_shapes('parse_ireturnvalue')
    if len(irv) < 12:
        raise AnalysisError('parse_ireturnvalue: child element list not '
                            'found (%d)' % len(irv))
    r2.notes.append('IRETURNVALUE children and the shapes their parse '
                    'methods return: %s' % {
                        el: sorted(show_shape(x) for x in ss)
                        for el, ss in sorted(irv.items())})
    seen = set()

    def producers(interp, bad):
        out = []
        for b in bad:
            els = sorted(interp.by_shape.get(b, ()))
            out.append('%s (from %s)' % (show_shape(b),
                                         ', '.join(els[:4]) or '?'))
        return sorted(out)

    def report_use(func, node, what, bad, av, interp):
        key = (func.qualname, norm(node, 70), what)
        r2.ob(not bad, '%s|%s|%s' % key,
              {'function': func.qualname, 'use': norm(node, 70),
               'kind': what, 'shapes': sorted(show_shape(x)
                                              for x in av.shapes)[:8]})
        if bad and key not in seen:
            seen.add(key)
            rep.finding(r2, func.qualname, norm(node, 70), what, OPS,
                        node.lineno,
                        '%s of a reply element that is not narrowed by '
                        'isinstance: invalid for %s - a DTD-valid reply with '
                        'the wrong element for this operation raises '
                        'TypeError/AttributeError/KeyError/ValueError '
                        'instead of a pywbem.Error'
                        % (what, '; '.join(producers(interp, bad)[:5])))

    nops = 0
    for op in ops:
        if op.envelope != '_imethodcall':
            continue
        f = op.func
        has_var = any(isinstance(n, ast.Assign) and any(
            n.value is c for c in op.envelope_calls)
            for n in walk_no_nested(f.node))
        if not has_var:
            continue
        nops += 1
        r2.sites += 1
        r2.functions.add(f.fq)
        ti = TailInterp(repo, ps, conn, report_use)
        rets = ti.run(f, {})

        def flat(av):
            if av is None:
                return []
            if av.kind == 'tuple':
                out = []
                for i in av.items:
                    out += flat(i)
                return out
            return [av]
        for r in rets:
            for av in flat(r):
                if av.kind not in ('elems', 'elem'):
                    continue
                classes = {x[1] for x in av.shapes if x[0] == 'obj'}
                allobj = all(x[0] == 'obj' for x in av.shapes)
                ok = (av.kind == 'elems' and av.validated) or \
                    (allobj and len(classes) <= 1)
                r2.ob(ok, '%s|return' % f.qualname,
                      {'operation': f.name, 'returns': repr(av)[:160]})
                key = (f.qualname, 'return', av.origin)
                if not ok and key not in seen:
                    seen.add(key)
                    rep.finding(
                        r2, f.qualname, 'return of %s' % (av.origin or
                                                          'reply elements'),
                        'unchecked-return', OPS, r.node.lineno,
                        'the operation returns reply elements without an '
                        'isinstance check: a DTD-valid reply with the wrong '
                        'element makes it return %s instead of its '
                        'documented result type or a pywbem.Error'
                        % ', '.join(sorted(show_shape(x)
                                           for x in av.shapes)[:8]))
        if not rets:
            r2.undecided.append('%s: no return of a reply-derived value '
                                'found' % f.name)
    if nops < 20:
        raise AnalysisError('only %d result-using operations interpreted'
                            % nops)
    methodcall_reply_values_are_narrowed(repo, rep, ps, conn)


def _r4b_type_guard(repo, rep):
    """C02.R4b: the regular expression that admits a TYPE attribute value to
    unpack_numeric() accepts only names that type_from_name() knows (its
    language is finite and is enumerated, including the variant with a
    trailing newline that a `$` anchor lets through)."""
    from .. import rx
    from ..guards import regex_const
    r = rep.rule('C02.R4b', 'the numeric-type guard admits only names of the '
                 'type table')
    tp = repo.cls(TP, 'TupleParser')
    usv = tp.methods.get('unpack_single_value')
    if usv is None:
        raise AnalysisError('TupleParser.unpack_single_value vanished')
    r.functions.add(usv.fq)
    typ = repo.module('pywbem/_cim_types.py')
    table = typ.consts.get('_TYPE_FROM_NAME')
    keys = None
    if isinstance(table, ast.Dict):
        keys = {const_str(k) for k in table.keys}
    if not keys or None in keys:
        raise AnalysisError('_TYPE_FROM_NAME table not found')
    guards_ = []
    for n in walk_no_nested(usv.node):
        if isinstance(n, ast.Call) and isinstance(n.func, ast.Attribute) and \
                n.func.attr in ('match', 'fullmatch', 'search') and n.args:
            rc = regex_const(repo, usv, n.func.value)
            if rc is not None:
                guards_.append((n, rc))
    if not guards_:
        raise AnalysisError('unpack_single_value: numeric type guard not '
                            'found')
    for call, (pat, flags) in guards_:
        r.sites += 1
        p = rx.parse(pat, flags)
        lang = rx.samples(p, limit=200)
        if len(lang) >= 200:
            r.undecided.append('%s: language too large' % pat)
            continue
        anchored = pat.startswith('^') or call.func.attr != 'search'
        extra = []
        if call.func.attr != 'fullmatch':
            if not rx.end_anchored(p):
                extra = [x + 'x' for x in lang[:3]]
            elif rx.end_admits_newline(p):
                extra = [x + '\n' for x in lang]
        bad = [x for x in lang + extra if x not in keys]
        ok = anchored and not bad
        r.ob(ok, norm(call.func.value),
             {'guard': norm(call, 60), 'pattern': pat,
              'language': sorted(lang)[:12],
              'also_admitted': [repr(x) for x in extra[:3]]})
        if not ok:
            rep.finding(r, usv.qualname, norm(call.func.value),
                        'guard-wider-than-table', TP, call.lineno,
                        'the pattern %r admits %s to unpack_numeric(), but '
                        'type_from_name() knows no such type and raises '
                        'ValueError outside any handler (e.g. TYPE="uint8'
                        '&#10;": `$` also matches before a trailing '
                        'newline)' % (pat, ', '.join(repr(x)
                                                     for x in bad[:3])))


def _r2c_tag_confusion(repo, rep):
    """C02.R2c: element tuples and output-parameter tuples share a list.

    parse_imethodresponse / parse_methodresponse collect their children with
    list_of_various(..., ('ERROR', 'IRETURNVALUE' | 'RETURNVALUE',
    'PARAMVALUE')).  The element children are tuples (element name, attrs
    dict, children); parse_paramvalue returns (NAME attribute, paramtype,
    value) - a tuple of the same length whose first item is chosen by the
    server.  A test `node[0] == '<element name>'` therefore also holds for a
    PARAMVALUE of that name, whose [1] is not a dict and whose [2] is not a
    child list.  Every such test in the client must be paired with a test
    that [1] is the attribute dictionary."""
    r = rep.rule('C02.R2c', 'element-name tests on response children also '
                 'exclude PARAMVALUE tuples of the same name')
    tp = repo.cls(TP, 'TupleParser')
    pv = tp.methods.get('parse_paramvalue')
    if pv is None:
        raise AnalysisError('parse_paramvalue vanished')
    # is the first item of parse_paramvalue's tuple an attribute value?
    named = any(isinstance(n, ast.Return) and isinstance(n.value, ast.Tuple)
                and len(n.value.elts) == 3 and
                isinstance(n.value.elts[0], ast.Subscript) and
                const_str(n.value.elts[0].slice) == 'NAME'
                for n in walk_no_nested(pv.node))
    ambiguous = set()
    for mname in ('parse_imethodresponse', 'parse_methodresponse'):
        m = tp.methods.get(mname)
        if m is None:
            raise AnalysisError(mname + ' vanished')
        for c in walk_no_nested(m.node):
            if isinstance(c, ast.Call) and \
                    (dotted(c.func) or '').startswith('self.list_of_') and \
                    len(c.args) > 1:
                try:
                    names = set(fold_const(c.args[1]))
                except (NotConst, TypeError):
                    continue
                if 'PARAMVALUE' in names:
                    ambiguous |= names - {'PARAMVALUE'}
    if not named or not ambiguous:
        r.notes.append('PARAMVALUE tuples no longer share a list / a shape '
                       'with element tuples: nothing to check')
        r.sites = 1
        r.ob(True, 'no-ambiguity')
        return
    mod = repo.module(OPS)
    from ..cfg import stmt_facts, expr_guards
    for f in mod.all_funcs():
        txt = norm(f.node, 20000)
        if "'EXPMETHODRESPONSE'" in txt and "'IMETHODRESPONSE'" not in txt:
            continue      # export responses have no PARAMVALUE children
        facts = None
        for n in walk_no_nested(f.node):
            if not (isinstance(n, ast.Compare) and len(n.ops) == 1 and
                    isinstance(n.ops[0], (ast.Eq, ast.NotEq)) and
                    isinstance(n.left, ast.Subscript) and
                    isinstance(n.left.slice, ast.Constant) and
                    n.left.slice.value == 0):
                continue
            rhs = n.comparators[0]
            tag = const_str(rhs)
            param_tag = isinstance(rhs, ast.Name) and rhs.id in f.params
            if tag not in ambiguous and not param_tag:
                continue
            node_txt = norm(n.left.value)
            r.sites += 1
            r.functions.add(f.fq)
            want = 'isinstance(%s[1], dict)' % node_txt
            # the dict test is a sibling conjunct, or a fact that dominates
            ok = False
            for b in ast.walk(f.node):
                if isinstance(b, ast.BoolOp) and isinstance(b.op, ast.And) \
                        and any(v is n for v in b.values) and \
                        any(norm(v) == want for v in b.values):
                    ok = True
            if not ok:
                if facts is None:
                    facts = stmt_facts(f.node)
                for st, (fs, _) in facts.items():
                    if any(x is n for x in ast.walk(st)) and \
                            any(pol and norm(t) == want for t, pol in fs):
                        ok = True
            if param_tag and not ok:
                # a helper comparing with a parameter is only judged when it
                # is used for the ambiguous names
                used = any(
                    isinstance(c, ast.Call) and dotted(c.func) == f.name and
                    any(const_str(a) in ambiguous for a in c.args)
                    for g in mod.all_funcs() for c in walk_no_nested(g.node))
                if not used:
                    r.sites -= 1
                    continue
            r.ob(ok, '%s|%s' % (f.qualname, norm(n)),
                 {'function': f.qualname, 'test': norm(n),
                  'paired_with': want if ok else None})
            if not ok:
                rep.finding(r, f.qualname, norm(n), 'tag-confusion', OPS,
                            n.lineno,
                            'a response child is recognised as the <%s> '
                            'element by its first item alone, but a '
                            '<PARAMVALUE NAME="%s"> is a tuple of the same '
                            'length with that first item: its [1] is not the '
                            'attribute dictionary and its [2] not a child '
                            'list, so the code that follows raises TypeError '
                            '(or iterates None) instead of a pywbem.Error'
                            % (tag or 'element', tag or '...'))
    # uses of a checked helper (a function whose own comparison was judged
    # above) with one of the ambiguous names count as discharged sites
    helpers = {f.name for f in mod.all_funcs()
               if any(k.startswith(f.qualname + '|') for k in r.nontrivial)
               and f.cls is None}
    for g in mod.all_funcs():
        for c in walk_no_nested(g.node):
            if isinstance(c, ast.Call) and dotted(c.func) in helpers and \
                    any(const_str(a) in ambiguous for a in c.args):
                r.sites += 1
                r.ob(True, '%s|%s' % (g.qualname, norm(c, 60)),
                     {'function': g.qualname, 'uses_helper': norm(c, 60)})
    if r.sites < 3:
        raise AnalysisError('only %d element-name tests on response '
                            'children found' % r.sites)


def operation_envelopes_agree(repo, rep, rid, which):
    """C02.R8 / C19.R10: all operations wrap the request in the same
    exception handlers (C02: parse errors get request_data/response_data
    attached in every operation) and the same finally clause (C19: timer
    stopped with the exception, result and exception staged for the
    recorders).  The operation name and the result variable are slots; a
    sibling whose clause differs from what all the others have is reported."""
    from .. import siblings as S
    r = rep.rule(rid, 'all operations have the same %s as their siblings'
                 % ('exception handlers' if which == 'handlers'
                    else 'finally clause'))
    ops = operations(repo)
    fam = [(op.func.name, op) for op in ops if op.main_try is not None]
    if len(fam) < 30:
        raise AnalysisError('%s: only %d operations with a main try'
                            % (rid, len(fam)))

    def part(op):
        t = op.main_try
        from ..cfg import canonical_handlers
        return canonical_handlers(t) if which == 'handlers' \
            else list(t.finalbody)

    def slots(name, op):
        out = [(r'\b%s\b' % re.escape(name), '<OP>')]
        if which == 'finally':
            # the result variable: first argument of ...stage_result / the
            # variable returned by the operation
            for c in ast.walk(ast.Module(body=list(op.main_try.finalbody),
                                         type_ignores=[])):
                if isinstance(c, ast.Call) and \
                        (dotted(c.func) or '').endswith(
                            'operation_recorder_stage_result') and c.args:
                    out.append((re.escape(ast.unparse(c.args[0])), '<RESULT>'))
        return out
    major, dev, n = S.compare(fam, part, slots)
    r.sites += n
    for name, op in fam:
        r.functions.add(op.func.fq)
    r.ob(not dev, which, {'operations': n, 'deviating': [d[0] for d in dev]})
    for name, text in dev:
        op = dict(fam)[name]
        mine, theirs = S.first_difference(text, major)
        rep.finding(r, op.func.qualname, '%s: %s' % (which, mine[:70]),
                    'sibling-drift', OPS, op.main_try.lineno,
                    'the %s of %s differ from those of the other %d '
                    'operations: it has `%s` where they have `%s`'
                    % ('exception handlers' if which == 'handlers'
                       else 'finally clause', name, n - len(dev), mine[:90],
                       theirs[:90]) + (
                        ' - an XMLParseError then reaches the caller '
                        'without request_data / response_data' if
                        which == 'handlers' else
                        ' - the statistics / recorders see this operation '
                        'differently from its siblings'))


def regex_termination_rule(repo, rep):
    """C02.R9: parsing a response terminates.  The regular expressions of
    the client package are applied to server-derived text (key values of
    reference strings, header values, type names); a pattern of the shape
    `(x+|y)*` backtracks exponentially on input that almost matches, so an
    operation whose response carries such a string does not return."""
    from ..model import fold_const, NotConst, module_env
    from .. import rx
    r9 = rep.rule('C02.R9', 'no pattern with an unbounded repeat of an '
                  'unbounded repeat (exponential backtracking)')
    FUNCS = ('re.compile', 're.match', 're.search', 're.findall', 're.sub',
             're.fullmatch', 're.split', 're.finditer')
    for rel, m in sorted(repo.modules.items()):
        if not m.relpath.startswith('pywbem/') or '_vendor' in m.relpath:
            continue
        env = module_env(repo, m)
        for node in ast.walk(m.tree):
            if not (isinstance(node, ast.Call) and
                    (dotted(node.func) or '') in FUNCS and node.args):
                continue
            try:
                pat = fold_const(node.args[0], env)
            except (NotConst, TypeError, KeyError, ValueError):
                continue
            if not isinstance(pat, str):
                continue
            r9.sites += 1
            try:
                p = rx.parse(pat)
            except Exception:               # pylint: disable=broad-except
                continue
            amb = rx.ambiguous_repeats(p)
            r9.ob(not amb, '%s:%s' % (m.relpath, pat[:60]))
            if amb:
                rep.finding(r9, m.relpath.split('/')[-1], pat[:80],
                            'exponential-regex', m.relpath, node.lineno,
                            'the pattern repeats %s without bound, and that '
                            'body is itself an unbounded repeat: text that '
                            'almost matches (e.g. a quoted key value of a '
                            'few dozen characters with a missing end quote '
                            'in a reference string of a response) makes the '
                            'match try every way of splitting it - the '
                            'operation does not return instead of raising '
                            'its parse error' % amb[0])
    if r9.sites < 30:
        raise AnalysisError('C02.R9: only %d constant patterns found'
                            % r9.sites)
    # positive control
    if not rx.ambiguous_repeats(rx.parse(r'"(?:[^"\\]+|\\.)*"')) or \
            rx.ambiguous_repeats(rx.parse(r'"(?:[^"\\]|\\.)*"')):
        raise AnalysisError('C02.R9 recogniser broken')


def _dnf(e, pol=True, depth=0):
    """disjunctive normal form of a condition: list of frozensets of
    (atom text, polarity); None when too large"""
    if depth > 6:
        return None
    if isinstance(e, ast.UnaryOp) and isinstance(e.op, ast.Not):
        return _dnf(e.operand, not pol, depth + 1)
    if isinstance(e, ast.BoolOp):
        parts = [_dnf(v, pol, depth + 1) for v in e.values]
        if any(p is None for p in parts):
            return None
        disj = isinstance(e.op, ast.Or) == pol
        if disj:
            return [c for p in parts for c in p]
        out = [frozenset()]
        for p in parts:
            out = [a | b for a in out for b in p]
            if len(out) > 64:
                return None
        return out
    txt = norm(e, 200)
    # `x is None` / `x is not None` / `x is True` as atoms of x
    if isinstance(e, ast.Compare) and len(e.ops) == 1 and \
            isinstance(e.comparators[0], ast.Constant) and \
            e.comparators[0].value is True and \
            isinstance(e.ops[0], (ast.Is, ast.Eq)):
        return [frozenset([(norm(e.left, 200), pol)])]
    return [frozenset([(txt, pol)])]


def pull_result_invariant(repo, rep):
    """C02.R10: what an Open/Pull operation returns is either `eos True,
    context None` or `eos False, context (server_context, namespace)`.
    _get_rslt_params() builds that triple for all of them: on each of its
    return paths the condition under which the context is None must be
    exactly `end_of_sequence`.  A wider condition (e.g. `eos or not
    context`) returns eos=False with context None for some server replies:
    the caller cannot continue or close the enumeration, and the Iter*
    generators pass None to Pull.../CloseEnumeration, whose argument check
    raises ValueError out of the iteration."""
    from ..paths import return_paths
    r10 = rep.rule('C02.R10', 'open/pull results have context None exactly '
                   'when end_of_sequence is true')
    conn = repo.cls(OPS, 'WBEMConnection')
    f = conn.methods.get('_get_rslt_params')
    if f is None:
        raise AnalysisError('_get_rslt_params vanished')
    r10.functions.add(f.fq)
    paths = return_paths(f, inline=False)
    if not paths:
        raise AnalysisError('_get_rslt_params: no return paths')
    n = 0
    for pth in paths:
        v = pth.value
        if isinstance(v, ast.Name) and v.id in pth.env:
            v = pth.env[v.id][0]
        if not (isinstance(v, ast.Tuple) and len(v.elts) == 3):
            continue
        n += 1
        r10.sites += 1
        eos = norm(pth.resolve(v.elts[1]), 200)
        ctx = pth.resolve(v.elts[2])
        # condition under which the returned context is None
        if isinstance(ctx, ast.Constant) and ctx.value is None:
            cond = [frozenset()]
        elif isinstance(ctx, ast.IfExp):
            b_none = isinstance(ctx.body, ast.Constant) and \
                ctx.body.value is None
            o_none = isinstance(ctx.orelse, ast.Constant) and \
                ctx.orelse.value is None
            if b_none == o_none:
                cond = None
            else:
                cond = _dnf(ctx.test, b_none)
        elif isinstance(ctx, ast.Tuple):
            cond = []
        else:
            cond = None
        # what the path already knows about eos
        known = None
        for t, pol in pth.facts:
            if norm(t, 200) == eos:
                known = pol
        if cond is None:
            ok, why = False, 'the returned context is not evidently None / '\
                'a tuple depending on end_of_sequence'
        else:
            why = None
            if known is True:
                ok = cond == [frozenset()]
                why = 'eos is true on this path but the context is not None'
            elif known is False:
                ok = cond == []
                why = 'eos is false on this path but the context can be '\
                    'None'
            else:
                ok = cond == [frozenset([(eos, True)])]
                extra = [sorted(c) for c in cond
                         if (eos, True) not in c]
                why = ('the context is also None when %s, with eos false'
                       % extra) if extra else \
                    'the context is not None for every reply with eos true'
        r10.ob(ok, 'return@%s' % norm(v, 60),
               {'eos': eos, 'context_none_when': None if cond is None else
                [sorted(c) for c in cond]})
        if not ok:
            rep.finding(r10, f.qualname, norm(ctx, 80), 'context-vs-eos',
                        OPS, (pth.ret_stmt or f.node).lineno,
                        '%s: an Open/Pull operation then returns eos=False '
                        'with context None (not the documented tuple), and '
                        'the Iter* generators raise ValueError from '
                        'Pull.../CloseEnumeration(None)' % why)
    if not n:
        raise AnalysisError('_get_rslt_params: no (objects, eos, context) '
                            'return found')


def unbounded_int_text_rule(repo, rep):
    """C02.R11: an integer of unbounded size is not turned into decimal
    text outside a try that handles ValueError.  `int(text, 16)` (bases 2,
    8, 16) accepts any number of digits, but converting the result to a
    decimal string (str(), an f-string, _format()) raises ValueError beyond
    sys.get_int_max_str_digits() (4300).  In the response parser that
    happens with the value of a <VALUE> the server sent: if the conversion
    sits in an `except` block (building the message of the
    CIMXMLParseError) the ValueError replaces the pywbem error and escapes
    from the operation."""
    from ..cfg import stmt_facts
    r11 = rep.rule('C02.R11', 'values parsed with int(text, 2|8|16) are not '
                   'formatted where ValueError is not handled')
    m = repo.module('pywbem/_tupleparse.py')
    FMT = ('_format', 'str', 'repr', 'format')

    def catches_value_error(tr):
        for h in tr.handlers:
            names = [] if h.type is None else [
                norm(x) for x in (h.type.elts if isinstance(h.type, ast.Tuple)
                                  else [h.type])]
            if h.type is None or set(names) & {'ValueError', 'Exception',
                                               'BaseException'}:
                return True
        return False
    def unbounded(e, tfuncs):
        """int(text, 2|4|8|16|32), or a call of a function that returns
        such a value"""
        if not isinstance(e, ast.Call):
            return False
        d = dotted(e.func) or ''
        if d == 'int' and len(e.args) == 2 and \
                isinstance(e.args[1], ast.Constant) and \
                e.args[1].value in (2, 4, 8, 16, 32):
            return True
        return d.split('.')[-1] in tfuncs and (
            '.' not in d or d.split('.')[0] in ('self', 'cls'))
    # functions of the module that hand such a value back to their caller
    tfuncs = set()
    for _ in range(3):
        for f in m.all_funcs():
            for r_ in walk_no_nested(f.node):
                if isinstance(r_, ast.Return) and r_.value is not None and \
                        unbounded(r_.value, tfuncs):
                    tfuncs.add(f.name)
    n = 0
    for f in m.all_funcs():
        tainted = set()
        for a in walk_no_nested(f.node):
            if isinstance(a, ast.Assign) and len(a.targets) == 1 and \
                    isinstance(a.targets[0], ast.Name) and \
                    unbounded(a.value, tfuncs):
                tainted.add(a.targets[0].id)
        if f.name in tfuncs:
            n += 1
        if not tainted:
            continue
        n += 1
        r11.functions.add(f.fq)
        for st, (_facts, trys) in stmt_facts(f.node).items():
            if isinstance(st, (ast.If, ast.Try, ast.For, ast.While,
                               ast.With)):
                continue
            sinks = []
            for c in ast.walk(st):
                if isinstance(c, ast.Call) and dotted(c.func) in FMT and \
                        any(isinstance(a, ast.Name) and a.id in tainted
                            for a in c.args):
                    sinks.append(c)
                elif isinstance(c, ast.FormattedValue) and \
                        isinstance(c.value, ast.Name) and \
                        c.value.id in tainted:
                    sinks.append(c)
                elif isinstance(c, ast.BinOp) and \
                        isinstance(c.op, ast.Mod) and \
                        isinstance(c.left, ast.Constant) and \
                        isinstance(c.left.value, str) and \
                        any(isinstance(x, ast.Name) and x.id in tainted
                            for x in ast.walk(c.right)):
                    sinks.append(c)
            for c in sinks:
                r11.sites += 1
                caught = any(part == 'body' and catches_value_error(tr)
                             for tr, part in trys)
                r11.ob(caught, '%s|%s' % (f.qualname, norm(c, 60)),
                       {'unbounded': sorted(tainted)})
                if not caught:
                    rep.finding(r11, f.qualname, norm(c, 70),
                                'unbounded-int-text', m.relpath, c.lineno,
                                '%s comes from int(text, 2|8|16), which '
                                'accepts any number of digits; formatting it '
                                'here raises ValueError (more than 4300 '
                                'digits) where no handler converts it: a '
                                '<VALUE>0xfff...f</VALUE> of a few thousand '
                                'digits in a response makes the operation '
                                'raise ValueError instead of '
                                'CIMXMLParseError' % sorted(tainted))
    if not n:
        raise AnalysisError('C02.R11: no int(text, 16) in the response '
                            'parser (anchor moved)')


STR_ONLY_METHODS = ('lower', 'upper', 'casefold', 'strip', 'lstrip',
                    'rstrip', 'startswith', 'endswith', 'split', 'rsplit',
                    'splitlines', 'encode', 'replace', 'title', 'isdigit',
                    'partition', 'rpartition', 'zfill', 'find')


def parsed_values_are_strings_where_used_as(repo, rep, rid='C02.R13'):
    """C02.R13: a value the parser got from a child element (one_child(),
    optional_child(), parse_any(), a parse_<element>() method) can be any
    object of the model - a string for VALUE, a list for VALUE.ARRAY, a
    path for VALUE.REFERENCE / INSTANCENAME / CLASSNAME ...  Using it as
    text (`child.lower()`) is only sound under `isinstance(child, str)`;
    without that test a DTD-valid reply whose element is of another kind
    raises AttributeError out of the operation instead of a
    CIMXMLParseError."""
    from ..cfg import GuardWalker
    r = rep.rule(rid, 'parsed child values are used as text only under an '
                 'isinstance(..., str) test')
    tp = repo.module(TP)
    n = 0
    for f in tp.all_funcs():
        parsed = set()
        for a in walk_no_nested(f.node):
            if isinstance(a, ast.Assign) and isinstance(a.value, ast.Call):
                d = dotted(a.value.func) or ''
                if d in ('self.one_child', 'self.optional_child',
                         'self.parse_any') or d.startswith('self.parse_'):
                    for t in a.targets:
                        if isinstance(t, ast.Name):
                            parsed.add(t.id)
        if not parsed:
            continue
        fx = None
        for st_, c in ((st_, c) for st_ in walk_no_nested(f.node)
                       if isinstance(st_, ast.stmt) and not isinstance(
                           st_, (ast.For, ast.While, ast.Try, ast.With,
                                 ast.FunctionDef, ast.AsyncFunctionDef,
                                 ast.ClassDef))
                       for c in ast.walk(st_.test if isinstance(
                           st_, ast.If) else st_)):
            var = None
            if isinstance(c, ast.Call) and \
                    isinstance(c.func, ast.Attribute) and \
                    c.func.attr in STR_ONLY_METHODS and \
                    isinstance(c.func.value, ast.Name) and \
                    c.func.value.id in parsed:
                var = c.func.value.id
            elif isinstance(c, ast.Call):
                # handed to a private helper that uses its parameter as text
                from ..paths import _helper_of, _bind_args
                h = _helper_of(f, c)
                b = _bind_args(h, c) if h is not None else None
                for pn, a in (b or {}).items():
                    if isinstance(a, ast.Name) and a.id in parsed and any(
                            isinstance(x, ast.Call) and
                            isinstance(x.func, ast.Attribute) and
                            x.func.attr in STR_ONLY_METHODS and
                            isinstance(x.func.value, ast.Name) and
                            x.func.value.id == pn
                            for x in walk_no_nested(h.node)):
                        var = a.id
            if var is None:
                continue
            n += 1
            r.sites += 1
            r.functions.add(f.fq)
            if fx is None:
                fx = stmt_facts(f.node)
            known = list(fx.get(st_, ((), ()))[0]) + list(
                expr_guards(st_, c))
            atoms = [a_ for t0, p0 in known
                     for a_ in GuardWalker._atoms(t0, p0)]
            ok = any(pol and isinstance(t, ast.Call) and
                     dotted(t.func) == 'isinstance' and len(t.args) == 2
                     and norm(t.args[0]) == var and
                     norm(t.args[1]) in ('str', '(str,)')
                     for t, pol in atoms)
            r.ob(ok, '%s|%s' % (f.qualname, norm(c, 50)))
            if not ok:
                rep.finding(r, f.qualname, norm(c, 60), 'AttributeError', TP,
                            c.lineno,
                            '%s is the parsed value of a child element (it '
                            'may be a list, a path, an object ...) and is '
                            'used as text without an isinstance(%s, str) '
                            'test: a reply / request with another element '
                            'kind there raises AttributeError instead of a '
                            'CIMXMLParseError' % (var, var))
    # (the number of such uses may legitimately be zero; the scan itself is
    # kept honest by the functions it went through)
    nf = sum(1 for _f in tp.all_funcs())
    r.sites += 1
    r.ob(nf > 60, 'functions-scanned', {'functions': nf})
    if nf < 60:
        raise AnalysisError('%s: only %d parser functions scanned'
                            % (rid, nf))


def falsy_guarded_raises(func_node, params):
    """raise statements that run when a parameter is merely falsy
    (`if not name: raise`): '' / 0 / [] / False are values the wire can
    carry, unlike None which the parser's required attributes rule out"""
    from ..cfg import GuardWalker
    out = []
    for st, (facts, _t) in stmt_facts(func_node).items():
        if not isinstance(st, ast.Raise):
            continue
        atoms = [a for t0, p0 in facts for a in GuardWalker._atoms(t0, p0)]
        for t, pol in atoms:
            if isinstance(t, ast.Name) and t.id in params and not pol:
                out.append((st, t.id))
                break
    return out


def object_model_rejects_only_none(repo, rep, rid):
    """The CIM-XML parser constructs several objects of the object model
    outside any try block, with the comment that the constructor "cannot
    possibly" fail for what the parser hands it: the required attributes
    (check_node) rule out None, and the type checks concern objects the
    parser built itself.  That argument covers `is None` and isinstance
    guards - not a guard on mere falsiness: `if not name: raise
    ValueError` is reached by NAME="" (a DTD-valid attribute value), and
    through an unwrapped constructor call the ValueError leaves the parser
    (the client operation raises ValueError, the listener drops the
    connection).  So no raise in the classes of _cim_obj.py is guarded by
    the bare falsiness of a parameter (zero sites on the reference tree;
    positive and negative control)."""
    r = rep.rule(rid, 'the object model rejects None, not falsy values '
                 '(what unwrapped constructor calls of the parser rely on)')
    obj = repo.module(OBJ)
    n = 0
    for c in obj.classes.values():
        funcs = list(c.methods.values()) + list(
            getattr(c, 'setters', {}).values())
        for f in funcs:
            n += 1
            for st, pn in falsy_guarded_raises(f.node, set(f.params)):
                r.ob(False, '%s|%s' % (f.qualname, pn))
                rep.finding(r, f.qualname, norm(st, 60), 'falsy-rejected',
                            OBJ, st.lineno,
                            '%s raises when %s is merely falsy: an empty '
                            'NAME / value attribute of a DTD-valid document '
                            'reaches this through a constructor call the '
                            'parser does not wrap, and the exception leaves '
                            'the parser unconverted' % (f.qualname, pn))
    r.sites += 1
    r.ob(n > 200, 'functions-scanned', {'functions': n})
    if n < 200:
        raise AnalysisError('%s: only %d object-model functions scanned'
                            % (rid, n))
    pos = ast.parse('def f(self, name):\n    if not name:\n'
                    '        raise ValueError("x")\n').body[0]
    neg = ast.parse('def f(self, name):\n    if name is None:\n'
                    '        raise ValueError("x")\n').body[0]
    if len(falsy_guarded_raises(pos, {'name'})) != 1 or \
            falsy_guarded_raises(neg, {'name'}):
        raise AnalysisError('%s recogniser broken' % rid)


def methodcall_reply_values_are_narrowed(repo, rep, ps, conn):
    """C02.R17: the tail of _methodcall() walks the children of
    METHODRESPONSE - (name, type, value) tuples from parse_returnvalue /
    parse_paramvalue / parse_error.  The value of a PARAMVALUE can be None
    (no child element), a list (VALUE.ARRAY / VALUE.REFARRAY), text, or one
    of several object classes, whatever PARAMTYPE says; using it as an
    object of one kind (`ref.namespace`) without an isinstance() test lets
    AttributeError / TypeError escape for a DTD-valid reply.  Decided by
    the same abstract interpretation as C02.R2, seeded with the shapes the
    parser returns for the children of METHODRESPONSE."""
    r = rep.rule('C02.R17', 'values of the METHODRESPONSE children are '
                 'narrowed by isinstance before shape-dependent use')
    f = conn.methods.get('_methodcall')
    if f is None:
        raise AnalysisError('WBEMConnection._methodcall vanished')
    r.functions.add(f.fq)
    shapes = ps.element_shapes('parse_methodresponse')
    if not {'RETURNVALUE', 'PARAMVALUE'} <= set(shapes):
        raise AnalysisError('parse_methodresponse: children not found (%s)'
                            % sorted(shapes))
    # the statement after which a local holds the METHODRESPONSE children:
    # the first `x = y[2]` that follows the test of the element name
    body = f.body
    at = var = None
    seen_test = False
    for i, st in enumerate(body):
        if isinstance(st, ast.If) and any(
                const_str(c) == 'METHODRESPONSE' for c in ast.walk(st.test)):
            seen_test = True
        elif seen_test and isinstance(st, ast.Assign) and \
                isinstance(st.targets[0], ast.Name) and \
                isinstance(st.value, ast.Subscript) and \
                isinstance(st.value.value, ast.Name) and \
                norm(st.value.slice) == '2':
            at, var = i, st.targets[0].id
            break
    if at is None:
        raise AnalysisError('_methodcall: the descent to the children of '
                            'METHODRESPONSE was not found')
    seen = set()

    def report_use(func, node, what, bad, av, interp):
        r.sites += 1
        key = (norm(node, 70), what)
        r.ob(not bad, '%s|%s' % key,
             {'use': norm(node, 70), 'kind': what,
              'shapes': sorted(show_shape(x) for x in av.shapes)[:8]})
        if bad and key not in seen:
            seen.add(key)
            rep.finding(r, f.qualname, norm(node, 70), what, OPS,
                        node.lineno,
                        '%s of a METHODRESPONSE value that is not narrowed '
                        'by isinstance: invalid for %s - a DTD-valid reply '
                        '(NULL or array-valued PARAMVALUE, VALUE text) '
                        'raises AttributeError/TypeError instead of a '
                        'pywbem.Error'
                        % (what, '; '.join(sorted(show_shape(b)
                                                  for b in bad)[:5])))
    ti = TailInterp(repo, ps, conn, report_use)
    ch = set()
    ti.by_shape = {}
    for el, ss in shapes.items():
        for sh in ss:
            ch.add(sh)
            ti.by_shape.setdefault(sh, set()).add(el)
    ti.CH = frozenset(ch)
    ti.block(body[at + 1:], {var: AV('elems', ti.CH, False,
                                     origin='METHODRESPONSE children')}, f)
    if ti.uses < 3:
        raise AnalysisError('_methodcall: only %d uses of reply values '
                            'interpreted' % ti.uses)


def recursion_depth_is_converted(repo, rep, rid, files):
    """C02.R16 / C17.R14: the tuple parser is a recursive descent over the
    reply; how deep it recurses is decided by the sender (references nested
    in keybindings, embedded objects, ...).  About 200 levels of
    <VALUE.REFERENCE><INSTANCENAME><KEYBINDING> exhaust the interpreter's
    recursion limit, and the RecursionError is none of the documented
    errors.  So between every caller outside the parser and every call
    cycle inside it there is a frame - itself outside the cycles - that
    catches RecursionError (or a base class) and does not re-raise it.
    The call graph is the resolved one (parse_any's getattr dispatch
    included); cycles are its strongly connected components."""
    r = rep.rule(rid, 'the recursion limit reached by a deeply nested '
                 'message surfaces as a pywbem error')
    res = Resolver(repo)
    add_pywbem_dynamic(res, repo)
    tp = repo.cls(TP, 'TupleParser')
    entry = tp.methods.get('parse_cim')
    if entry is None:
        raise AnalysisError('TupleParser.parse_cim vanished')
    CATCH = ('RecursionError', 'RuntimeError', 'Exception', 'BaseException')

    def catching(h):
        if h.type is None:
            names = ['BaseException']
        else:
            ts = h.type.elts if isinstance(h.type, ast.Tuple) else [h.type]
            names = [(dotted(t) or '').split('.')[-1] for t in ts]
        if not set(names) & set(CATCH):
            return False
        # a handler that re-raises what it caught converts nothing
        return not any(isinstance(x, ast.Raise) and x.exc is None
                       for b in h.body for x in ast.walk(b))

    def calls_of(f):
        """(call, protected?) for the calls in f; protected = inside the
        body of a try with a converting handler"""
        out = []

        def rec(stmts, prot):
            for st in stmts:
                if isinstance(st, (ast.FunctionDef, ast.ClassDef,
                                   ast.AsyncFunctionDef)):
                    continue
                if isinstance(st, ast.Try):
                    p2 = prot or any(catching(h) for h in st.handlers)
                    rec(st.body, p2)
                    for h in st.handlers:
                        rec(h.body, prot)
                    rec(st.orelse, prot)
                    rec(st.finalbody, prot)
                    continue
                subs = []
                for fld in ('body', 'orelse', 'finalbody'):
                    sub = getattr(st, fld, None)
                    if isinstance(sub, list) and sub and \
                            isinstance(sub[0], ast.stmt):
                        subs.append(sub)
                if subs:
                    # the header expressions of the compound statement
                    for fld, v in ast.iter_fields(st):
                        if isinstance(v, ast.expr):
                            out.extend((c, prot) for c in ast.walk(v)
                                       if isinstance(c, ast.Call))
                        elif isinstance(v, list) and v and \
                                isinstance(v[0], ast.withitem):
                            for w in v:
                                out.extend((c, prot) for c in ast.walk(w)
                                           if isinstance(c, ast.Call))
                    for sub in subs:
                        rec(sub, prot)
                else:
                    out.extend((c, prot) for c in ast.walk(st)
                               if isinstance(c, ast.Call))
        rec(f.node.body, False)
        return out

    # resolved call graph below the entry
    graph, order, todo = {}, [], [entry]
    funcs = {}
    while todo:
        f = todo.pop()
        if f.fq in graph:
            continue
        funcs[f.fq] = f
        edges = []
        for c, prot in calls_of(f):
            tg, _kind = res.resolve(c, f)
            for t in tg:
                edges.append((t.fq, prot))
                if t.fq not in graph:
                    todo.append(t)
        graph[f.fq] = edges
        order.append(f.fq)
    def cycles_of(adj, roots):
        """nodes on a cycle of the graph `adj` (iterative Tarjan)"""
        index, low, onst, stack, comp = {}, {}, set(), [], {}
        counter = [0]
        for root in roots:
            if root in index:
                continue
            work = [(root, iter(adj.get(root, ())))]
            index[root] = low[root] = counter[0]
            counter[0] += 1
            stack.append(root)
            onst.add(root)
            while work:
                v, it = work[-1]
                adv = False
                for w in it:
                    if w not in index:
                        index[w] = low[w] = counter[0]
                        counter[0] += 1
                        stack.append(w)
                        onst.add(w)
                        work.append((w, iter(adj.get(w, ()))))
                        adv = True
                        break
                    if w in onst:
                        low[v] = min(low[v], index[w])
                if adv:
                    continue
                work.pop()
                if work:
                    u = work[-1][0]
                    low[u] = min(low[u], low[v])
                if low[v] == index[v]:
                    members = []
                    while True:
                        w = stack.pop()
                        onst.discard(w)
                        members.append(w)
                        if w == v:
                            break
                    for w in members:
                        comp[w] = members
        return {v for v in comp if len(comp[v]) > 1 or v in adj.get(v, ())}
    full = {v: [t for t, _p in es] for v, es in graph.items()}
    all_rec = cycles_of(full, order)
    r.notes.append('%d functions below TupleParser.parse_cim, %d of them on '
                   'a call cycle (e.g. %s)'
                   % (len(graph), len(all_rec),
                      ', '.join(sorted(funcs[v].qualname
                                       for v in all_rec)[:4])))
    if len(graph) < 40:
        raise AnalysisError('%s: only %d functions reached from parse_cim'
                            % (rid, len(graph)))
    # A call made inside a converting try is a frame that stays below the
    # recursion it starts: whatever is reached only through such a call is
    # covered by the outermost activation of that frame.  So the question
    # is whether a cycle can be reached from the entry through calls that
    # are NOT protected.
    unprot = {v: [t for t, p_ in es if not p_] for v, es in graph.items()}
    reach, todo = {}, [(entry.fq, None)]
    while todo:
        v, par = todo.pop()
        if v in reach:
            continue
        reach[v] = par
        for t in unprot.get(v, ()):
            todo.append((t, v))
    sub = {v: [t for t in unprot[v] if t in reach] for v in reach}
    rec_nodes = cycles_of(sub, [entry.fq])

    def leaks(_v, first=True):
        if not rec_nodes:
            return None
        # shortest-known chain from the entry to a node on such a cycle
        best = None
        for v in sorted(rec_nodes):
            chain, cur = [], v
            while cur is not None:
                chain.append(cur)
                cur = reach[cur]
            chain.reverse()
            if best is None or len(chain) < len(best):
                best = chain
        return best
    nsites = 0
    for rel in files:
        for f in repo.module(rel).all_funcs():
            for c, prot in calls_of(f):
                if not (isinstance(c.func, ast.Attribute) and
                        c.func.attr == 'parse_cim'):
                    continue
                nsites += 1
                r.sites += 1
                r.functions.add(f.fq)
                chain = None if prot or not rec_nodes else \
                    leaks(entry.fq, first=True)
                r.ob(not chain, '%s|%s' % (f.qualname, norm(c, 50)),
                     {'caller': f.qualname, 'cycles': len(rec_nodes),
                      'protected_at_call': prot})
                if chain:
                    names = [funcs[v].qualname for v in chain]
                    rep.finding(
                        r, f.qualname, norm(c, 60), 'recursion-depth',
                        f.file, c.lineno,
                        'the parser recurses along the nesting of the '
                        'message (%s is on a call cycle) and no frame '
                        'between this call and the cycle catches '
                        'RecursionError: a message nested about 200 levels '
                        'deep raises RecursionError instead of a pywbem '
                        'error' % names[-1],
                        path=[f.qualname] + names,
                        alt='cycle:' + names[-1], alt_func='*')
    if nsites < 1:
        raise AnalysisError('%s: no call of TupleParser.parse_cim found in '
                            '%s' % (rid, ', '.join(files)))


def object_model_handlers_catch_both(repo, rep, rid):
    """In the CIM-XML parser every `try` that constructs an object of the
    CIM object model (CIMInstanceName, CIMProperty, CIMQualifier, ...) and
    converts the failure to CIMXMLParseError catches TypeError *and*
    ValueError: the constructors raise either, depending on what is wrong
    with the data (a key value of the wrong type -> TypeError, a NULL key
    value -> ValueError).  A handler that names only one of them lets the
    other escape from the parser: the client operation raises ValueError
    instead of a pywbem.Error, the listener drops the connection without a
    response.  (9 sites on the reference tree, all catching both.)"""
    r = rep.rule(rid, 'parser try blocks around object-model constructors '
                 'catch TypeError and ValueError')
    m = repo.module(TP)
    obj_classes = {c for c in repo.module(OBJ).classes if c.startswith('CIM')}
    n = 0
    for f in m.all_funcs():
        for t in walk_no_nested(f.node):
            if not isinstance(t, ast.Try):
                continue
            ctors = sorted({dotted(x.func) for b in t.body
                            for x in ast.walk(b) if isinstance(x, ast.Call)
                            and dotted(x.func) in obj_classes})
            if not ctors:
                continue
            conv = [h for h in t.handlers if any(
                isinstance(x, ast.Call) and
                dotted(x.func) == 'CIMXMLParseError'
                for b in h.body for x in ast.walk(b))]
            if not conv:
                continue
            n += 1
            r.sites += 1
            r.functions.add(f.fq)
            caught = set()
            for h in t.handlers:
                if h.type is None:
                    caught |= {'TypeError', 'ValueError'}
                    continue
                els = h.type.elts if isinstance(h.type, ast.Tuple) \
                    else [h.type]
                for e in els:
                    nm = norm(e).split('.')[-1]
                    caught.add(nm)
                    if nm in ('Exception', 'BaseException'):
                        caught |= {'TypeError', 'ValueError'}
            missing = sorted({'TypeError', 'ValueError'} - caught)
            r.ob(not missing, '%s|%s' % (f.qualname, '/'.join(ctors)),
                 {'constructs': ctors, 'catches': sorted(caught)})
            if missing:
                rep.finding(r, f.qualname, '%s(...)' % ctors[0],
                            'handler-misses-' + missing[0], TP, t.lineno,
                            'the try around %s(...) converts %s to '
                            'CIMXMLParseError but not %s, which the '
                            'constructor raises for other invalid data '
                            '(e.g. a NULL key value): it escapes from the '
                            'parser instead of a parse error'
                            % (ctors[0], '/'.join(sorted(
                                caught & {'TypeError', 'ValueError'})) or
                               'nothing', missing[0]))
    if n < 7:
        raise AnalysisError('%s: only %d wrapped object-model constructions '
                            'found in the parser' % (rid, n))


def _always_str(repo, func, name, depth=0):
    """the local / parameter `name` of a parser function only ever holds a
    string constant: its bindings are for-loop positions over literal
    tuples of string constants, or it is a parameter that is never re-bound
    and every call site in the parser passes a string constant or such a
    name"""
    vals = _loop_constants(func, name)
    if vals:
        return all(isinstance(v_, str) for v_ in vals)
    ps = [p_ for p_ in func.params if p_ not in ('self', 'cls')]
    if depth > 2 or name not in ps or any(
            isinstance(n, ast.Name) and n.id == name and
            isinstance(n.ctx, (ast.Store, ast.Del))
            for n in ast.walk(func.node)):
        return False
    idx = ps.index(name)
    sites = 0
    for g in repo.module(func.file).all_funcs():
        for c in ast.walk(g.node):
            if not (isinstance(c, ast.Call) and dotted(c.func) in (
                    'self.' + func.name, 'cls.' + func.name, func.name,
                    (func.cls.name + '.' + func.name) if func.cls else '')):
                continue
            sites += 1
            a = c.args[idx] if idx < len(c.args) else next(
                (k.value for k in c.keywords if k.arg == name), None)
            if a is None:
                return False
            if const_str(a) is not None:
                continue
            if isinstance(a, ast.Name) and _always_str(repo, g, a.id,
                                                       depth + 1):
                continue
            return False
    return sites > 0


def _loop_constants(func, name):
    """the constants a local takes when its only bindings are positions of
    for-loop targets over literal tuples / lists of constants (of constant
    tuples); None when it is bound in any other way"""
    vals = []
    bound_elsewhere = False

    def literal(it):
        # a literal tuple / list, or a local bound once to one
        if isinstance(it, ast.Name):
            ds = [a.value for a in ast.walk(func.node)
                  if isinstance(a, ast.Assign) and len(a.targets) == 1 and
                  isinstance(a.targets[0], ast.Name) and
                  a.targets[0].id == it.id]
            if len(ds) == 1 and it.id != name:
                return ds[0]
        return it
    for n in ast.walk(func.node):
        if isinstance(n, (ast.For, ast.comprehension)):
            tg = n.target
            elts = tg.elts if isinstance(tg, ast.Tuple) else [tg]
            pos = [i for i, x in enumerate(elts)
                   if isinstance(x, ast.Name) and x.id == name]
            if not pos:
                continue
            it = literal(n.iter)
            if not isinstance(it, (ast.Tuple, ast.List)):
                return None
            for item in it.elts:
                if isinstance(tg, ast.Tuple):
                    if not (isinstance(item, (ast.Tuple, ast.List)) and
                            len(item.elts) == len(elts) and
                            isinstance(item.elts[pos[0]], ast.Constant)):
                        return None
                    vals.append(item.elts[pos[0]].value)
                else:
                    if not isinstance(item, ast.Constant):
                        return None
                    vals.append(item.value)
        elif isinstance(n, ast.Name) and n.id == name and \
                isinstance(n.ctx, (ast.Store, ast.Del)):
            bound_elsewhere = True
    # the Store contexts of the for targets themselves are counted above
    n_for = sum(1 for n in ast.walk(func.node)
                if isinstance(n, (ast.For, ast.comprehension))
                for x in ast.walk(n.target)
                if isinstance(x, ast.Name) and x.id == name)
    n_store = sum(1 for n in ast.walk(func.node)
                  if isinstance(n, ast.Name) and n.id == name and
                  isinstance(n.ctx, (ast.Store, ast.Del)))
    if n_store != n_for or not vals:
        return None
    return vals


def cleanup_reads_bound_locals(repo, rep):
    """C02.R12: what the exception handlers and the finally clause of an
    operation read is bound on every path that reaches them.  A result
    variable that is first bound by the statement that can fail (the
    request) is unbound in the finally clause exactly when the request
    failed: the UnboundLocalError raised there replaces the pywbem error
    (and its request_data / response_data) the caller should get."""
    from ..flow import possibly_unbound
    r12 = rep.rule('C02.R12', 'handlers and finally clauses of the operations '
                   'read only locals that are bound on every path')
    n = 0
    for op in operations(repo):
        t = op.main_try
        if t is None:
            continue
        n += 1
        r12.sites += 1
        r12.functions.add(op.func.fq)
        cleanup = list(t.finalbody) + [s_ for h in t.handlers
                                       for s_ in h.body]
        ub = [(nm, node) for nm, _st, node in possibly_unbound(op.func)
              if any(node is x for c in cleanup for x in ast.walk(c))]
        r12.ob(not ub, op.func.name)
        seen = set()
        for nm, node in ub:
            if nm in seen:
                continue
            seen.add(nm)
            rep.finding(r12, op.func.qualname, nm, 'unbound-in-cleanup', OPS,
                        node.lineno,
                        'local %r is read in the handlers / finally clause '
                        'but is bound only after the request succeeded: '
                        'when the request fails, UnboundLocalError replaces '
                        'the pywbem error of the operation' % nm)
    if n < 30:
        raise AnalysisError('C02.R12: only %d operations with a main try'
                            % n)
