"""C06 - CIM data types hold only representable values."""
import ast
import re

from ..model import (AnalysisError, walk_no_nested, dotted, norm, fold_const,
                     module_env, NotConst, const_str)
from ..cfg import CFG, stmt_facts, always_exits

EXPLANATION = (
    "Static check of the typed-value machinery: (R1) in CIMInt.__new__ a "
    "ValueError-raising comparison of the converted value against both "
    "cls.minvalue and cls.maxvalue lies on every CFG path to the return "
    "(only the ENFORCE_INTEGER_RANGE switch may bypass it), and no integer "
    "subclass overrides __new__ or has writable state; (R2) the 16 bound "
    "constants, evaluated from the source, equal the DSP0004 formulae for "
    "the width in the class name; (R3) every value setter stores "
    "cimvalue(value, self.type) and __init__ assigns type before value; "
    "(R4) every return of cimvalue() is a constructor call, a value under a "
    "dominating isinstance test, or the recursion - a pass-through helper "
    "is reported; (R5) the CIMDateTime copy branch transfers every slot; "
    "(R6) real32/real64 format precisions are >= 9/17 significant digits, "
    "branch order Real32 before float and bool before int, NaN/INF "
    "spelling. Does not decide datetime string round trips or float "
    "equality (value-level).")
ASSUMPTIONS = [
    "int is immutable; int(*args) either returns the integer value that "
    "int.__new__(cls, *args) will hold or raises",
    "'.NG' formatting with N>=17 (9) significant digits round-trips IEEE "
    "binary64 (binary32) values (IEEE 754 / David Gay)",
]

TYP = 'pywbem/_cim_types.py'
OBJ = 'pywbem/_cim_obj.py'


def _atoms(test):
    """Split a test into or-ed atoms."""
    if isinstance(test, ast.BoolOp) and isinstance(test.op, ast.Or):
        out = []
        for v in test.values:
            out += _atoms(v)
        return out
    return [test]


def _bound_atom(a):
    """('max'|'min', value_var) if the atom rejects values above cls.maxvalue
    / below cls.minvalue."""
    if not (isinstance(a, ast.Compare) and len(a.ops) == 1):
        return None
    l, r, op = a.left, a.comparators[0], a.ops[0]
    ln, rn = dotted(l), dotted(r)
    for which in ('max', 'min'):
        attr = 'cls.%svalue' % which
        gt = isinstance(op, ast.Gt)
        lt = isinstance(op, ast.Lt)
        if rn == attr and isinstance(l, ast.Name):
            if (which == 'max' and gt) or (which == 'min' and lt):
                return which, l.id
        if ln == attr and isinstance(r, ast.Name):
            if (which == 'max' and lt) or (which == 'min' and gt):
                return which, r.id
    return None


def run(repo, rep, tier):
    typ = repo.module(TYP)
    r1 = rep.rule('C06.R1', 'range check dominates CIMInt construction')
    r2 = rep.rule('C06.R2', 'integer bounds are the DSP0004 bounds')
    r3 = rep.rule('C06.R3', 'typed setters store cimvalue(value, self.type)')
    r4 = rep.rule('C06.R4', 'cimvalue returns the requested type or raises')
    r5 = rep.rule('C06.R5', 'CIMDateTime copy construction transfers every '
                  'slot')
    r6 = rep.rule('C06.R6', 'real formatting constants and branch order')
    r7 = rep.rule('C06.R7', 'datetime printer fields = datetime parser '
                  'fields (25 characters)')
    r9 = rep.rule('C06.R9', 'every shape of real number the printer can '
                  'write is in the reader language and in the DSP0201 '
                  'syntax')

    # ---------------- R1 ---------------------------------------------------
    cimint = repo.cls(TYP, 'CIMInt')
    new = cimint.methods.get('__new__')
    if new is None:
        raise AnalysisError('CIMInt.__new__ vanished')
    r1.functions.add(new.fq)
    cfg = CFG(new.node)
    rets = [n for n in cfg.stmts() if isinstance(n, ast.Return)]
    ctor_rets = [n for n in rets if isinstance(n.value, ast.Call) and
                 '__new__' in norm(n.value.func)]
    if not ctor_rets:
        raise AnalysisError('CIMInt.__new__: no return of super().__new__')
    # value = int(<args>)
    conv = {}
    for n in cfg.stmts():
        if isinstance(n, ast.Assign) and isinstance(n.value, ast.Call) and \
                dotted(n.value.func) == 'int' and len(n.targets) == 1 and \
                isinstance(n.targets[0], ast.Name):
            conv[n.targets[0].id] = n
    # at the construction, either the range enforcement is switched off or
    # the value is known to lie within [cls.minvalue, cls.maxvalue]: decided
    # on the facts that hold there (whatever the shape of the test: nested
    # ifs, one combined condition, a guard with early raise)
    from ..cfg import prop_models
    from ..paths import return_paths
    rpaths = return_paths(new, inline=False) or []

    def leaves_of(e, out):
        if isinstance(e, ast.BoolOp):
            for v in e.values:
                leaves_of(v, out)
        elif isinstance(e, ast.UnaryOp) and isinstance(e.op, ast.Not):
            leaves_of(e.operand, out)
        else:
            out.append(e)
    for ret in ctor_rets:
      for pth in [p_ for p_ in rpaths if p_.ret_stmt is ret]:
        r1.sites += 1
        fs = list(pth.facts)
        lv = []
        for t, _p in fs:
            leaves_of(t, lv)
        flag = {norm(x, 300) for x in lv
                if (dotted(x) or '').split('.')[-1] == 'ENFORCE_INTEGER_RANGE'}
        bound = {'max': set(), 'min': set()}
        for x in lv:
            b_ = _bound_atom(x)
            if b_ is not None and b_[1] in conv:
                bound[b_[0]].add(norm(x, 300))
        pm = prop_models(fs)
        for which in ('max', 'min'):
            ok = False
            if pm is not None:
                _lv, models = pm
                # in every situation that reaches the construction: the
                # switch is off, or "value beyond the bound" is false
                ok = all(
                    any(not m[f_] for f_ in flag) or
                    (bool(bound[which]) and
                     all(not m[b_] for b_ in bound[which]))
                    for m in models)
            r1.ob(ok, 'CIMInt.__new__:%s' % which,
                  {'return': norm(ret), 'facts': [norm(t, 60)
                                                  for t, _p in fs],
                   'bypass_only_via': 'ENFORCE_INTEGER_RANGE'})
            if not ok:
                rep.finding(r1, new.qualname, norm(ret), 'no-%s-check' % which,
                            TYP, ret.lineno,
                            'a path reaches the construction without a '
                            'ValueError-raising comparison against cls.%svalue'
                            % which)
        # the checked value is int(<same args>) as handed to __new__
        args_new = [norm(a) for a in ret.value.args[1:]] + \
            sorted(norm(k.value) for k in ret.value.keywords)
        for var, st in conv.items():
            args_int = [norm(a) for a in st.value.args] + \
                sorted(norm(k.value) for k in st.value.keywords)
            ok = args_int == args_new and cfg.dominates(st, ret)
            r1.ob(ok, 'CIMInt.__new__:same-args',
                  {'checked': norm(st), 'constructed': norm(ret)})
            if not ok:
                rep.finding(r1, new.qualname, norm(st), 'args-differ', TYP,
                            st.lineno, 'the value that is range-checked is '
                            'not computed from the arguments handed to '
                            'int.__new__')
    subs = [c for c in repo.subclasses_of('CIMInt') if c is not cimint]
    for c in subs:
        r1.sites += 1
        ok = '__new__' not in c.methods and '__init__' not in c.methods
        r1.ob(ok, c.name + ':no-new')
        if not ok:
            rep.finding(r1, c.name, '__new__/__init__', 'override',
                        c.module.relpath, c.node.lineno,
                        'integer subclass overrides construction and '
                        'bypasses the range check')
        ok = c.slots() == []
        r1.ob(ok, c.name + ':slots')
        if not ok:
            rep.finding(r1, c.name, '__slots__', 'slots', c.module.relpath,
                        c.node.lineno, 'integer subclass is not declared '
                        'with empty __slots__ (mutable state possible)')

    # ---------------- R2 ---------------------------------------------------
    found = 0
    for c in subs:
        m = re.match(r'^([US])int(\d+)$', c.name)
        if not m or c.module.relpath != TYP:
            continue
        found += 1
        r2.sites += 1
        bits = int(m.group(2))
        env = module_env(repo, typ, c)
        want = (0, 2 ** bits - 1) if m.group(1) == 'U' else \
            (-2 ** (bits - 1), 2 ** (bits - 1) - 1)
        for which, w in zip(('minvalue', 'maxvalue'), want):
            node = c.consts.get(which)
            try:
                val = fold_const(node, env) if node is not None else None
            except NotConst:
                val = None
            ok = val == w and not isinstance(val, bool)
            r2.ob(ok, '%s.%s' % (c.name, which),
                  {'class': c.name, which: norm(node), 'evaluates_to': val,
                   'dsp0004': w})
            if not ok:
                rep.finding(r2, c.name, '%s = %s' % (which, norm(node)),
                            'wrong-bound', TYP,
                            node.lineno if node is not None else c.node.lineno,
                            '%s.%s evaluates to %r, DSP0004 requires %r'
                            % (c.name, which, val, w))
        ct = const_str(c.consts.get('cimtype'))
        ok = ct == c.name.lower()
        r2.ob(ok, c.name + '.cimtype')
        if not ok:
            rep.finding(r2, c.name, 'cimtype = %r' % ct, 'cimtype', TYP,
                        c.node.lineno, 'cimtype does not name the class')
    if found != 8:
        raise AnalysisError('expected 8 UintN/SintN classes, found %d'
                            % found)

    # ---------------- R3 ---------------------------------------------------
    for cname in ('CIMProperty', 'CIMQualifier', 'CIMParameter',
                  'CIMQualifierDeclaration'):
        cls = repo.cls(OBJ, cname)
        st = cls.setters.get('value')
        if st is None:
            raise AnalysisError('%s.value setter vanished' % cname)
        r3.sites += 1
        r3.functions.add(st.fq)
        param = [p for p in st.params if p != 'self'][0]
        # judged per return path of the setter with its private helpers
        # inlined: what is stored in self._value is cimvalue(<param>,
        # self.type) - or None where the parameter is known to be None
        # (cimvalue(None, t) is None)
        from ..inline import Flat as _Flat
        from ..paths import return_paths as _rp
        from ..cfg import GuardWalker as _GW
        stf = _Flat(st)
        assigns = [n for n in walk_no_nested(stf.node)
                   if isinstance(n, ast.Assign) and
                   any(dotted(t) == 'self._value' for t in n.targets)]
        spaths = _rp(stf, max_paths=64) or []
        ok = bool(assigns) and bool(spaths)
        for p_ in spaths:
            stores = [e for e in p_.effects if isinstance(e, ast.Assign) and
                      any(dotted(t) == 'self._value' for t in e.targets)]
            if not stores:
                ok = False
                continue
            v = p_.resolve(stores[-1].value)
            good = isinstance(v, ast.Call) and dotted(v.func) == 'cimvalue' \
                and len(v.args) == 2 and norm(v.args[0]) == param and \
                norm(v.args[1]) in ('self.type', 'self._type')
            if not good and isinstance(v, ast.Constant) and v.value is None:
                atoms = [a for t0, p0 in p_.facts
                         for a in _GW._atoms(t0, p0)]
                good = any((norm(t) == param + ' is None' and pol) or
                           (norm(t) == param + ' is not None' and not pol)
                           for t, pol in atoms)
            ok = ok and good
        r3.ob(ok, cname + '.value:setter',
              {'setter': st.qualname,
               'stores': [norm(a) for a in assigns]})
        if not ok:
            rep.finding(r3, st.qualname,
                        norm(assigns[0]) if assigns else 'no assignment',
                        'not-through-cimvalue', OBJ, st.node.lineno,
                        'value setter does not store cimvalue(value, '
                        'self.type): an ill-typed value can be stored')
        init = cls.methods.get('__init__')
        cf = CFG(init.node)
        tass = [n for n in cf.stmts() if isinstance(n, ast.Assign) and
                any(dotted(t) == 'self.type' for t in n.targets)]
        vass = [n for n in cf.stmts() if isinstance(n, ast.Assign) and
                any(dotted(t) == 'self.value' for t in n.targets)]
        ok = bool(tass) and bool(vass) and all(
            any(cf.dominates(t, v) for t in tass) for v in vass)
        r3.ob(ok, cname + '.__init__:type-before-value',
              {'class': cname, 'type_assign': [norm(t) for t in tass],
               'value_assign': [norm(v) for v in vass]})
        if not ok:
            rep.finding(r3, init.qualname, 'self.value = ...',
                        'value-before-type', OBJ, init.node.lineno,
                        'self.value is assigned on a path where self.type is '
                        'not yet set (value setter relies on it)')

    # ---------------- R4 ---------------------------------------------------
    cv = repo.func(OBJ, 'cimvalue')
    r4.functions.add(cv.fq)
    facts = stmt_facts(cv.node)
    vparam = cv.params[0]
    obj = repo.module(OBJ)

    def returns_param_unchanged(f):
        ps = f.params
        for n in walk_no_nested(f.node):
            if isinstance(n, ast.Return) and isinstance(n.value, ast.Name) \
                    and n.value.id in ps:
                return True
        return False

    from ..paths import return_paths
    tparam = cv.params[1]
    rpaths = return_paths(cv, inline=True)
    if rpaths is None:
        raise AnalysisError('cimvalue: too many paths')

    def is_type_lookup(e):
        return isinstance(e, ast.Call) and \
            dotted(e.func) == 'type_from_name' and e.args and \
            norm(e.args[0]) == tparam

    def classify(pth):
        """kind of the value returned on this path, or None; 'FINDING:...'
        for a pass-through conversion"""
        # the type parameter itself stays symbolic (it may have been
        # replaced by the inferred type cimtype(value))
        pth.env = {k: d for k, d in pth.env.items() if k != tparam}
        v = pth.resolve(pth.value) if pth.value is not None else None
        fs = [(pth.resolve(t), pol) for t, pol in pth.facts]
        fixed = any(
            p2 and isinstance(t2, ast.Compare) and
            norm(t2.left) == tparam and
            isinstance(t2.ops[0], (ast.Eq, ast.In)) and
            isinstance(t2.comparators[0], (ast.Constant, ast.Tuple))
            for t2, p2 in fs)
        if v is None or (isinstance(v, ast.Constant) and v.value is None):
            return 'None'
        if isinstance(v, ast.Name) and v.id == vparam:
            for t, pol in fs:
                if pol and isinstance(t, ast.Call) and \
                        dotted(t.func) == 'isinstance' and \
                        norm(t.args[0]) == vparam:
                    tt = t.args[1]
                    elts = tt.elts if isinstance(tt, ast.Tuple) else [tt]
                    if all(is_type_lookup(x) or
                           _typed_name(repo, obj, cv, norm(x), tparam, fixed)
                           for x in elts):
                        return 'value under isinstance(%s)' % norm(tt)
                if pol and isinstance(t, ast.Compare) and \
                        norm(t) == '%s is None' % vparam:
                    return 'None'
            return None
        if isinstance(v, ast.ListComp):
            e = v.elt
            if isinstance(e, ast.Call) and dotted(e.func) == cv.name:
                return 'recursion over items'
            return None
        if isinstance(v, ast.List) and not v.elts and \
                isinstance(pth.value, ast.Name):
            # a list filled by a loop of recursive calls
            nm = pth.value.id
            apps = [c for st in pth.effects
                    if isinstance(st, (ast.For, ast.While))
                    for c in ast.walk(st) if isinstance(c, ast.Call) and
                    isinstance(c.func, ast.Attribute) and
                    c.func.attr == 'append' and norm(c.func.value) == nm]
            if apps and all(c.args and isinstance(c.args[0], ast.Call) and
                            dotted(c.args[0].func) == cv.name for c in apps):
                return 'recursion over items'
            return None
        if isinstance(v, ast.Call):
            if is_type_lookup(v.func):
                return 'constructor via type_from_name'
            fn = dotted(v.func)
            if fn == 'bool':
                return 'bool()'
            if fn is not None and fn.endswith('.from_wbem_uri'):
                return 'constructor ' + fn
            if fn is not None:
                r = repo.resolve_import(obj, fn.split('.')[0])
                if r is not None and r[1] in r[0].classes:
                    return 'constructor ' + fn
                if r is not None and r[1] in r[0].functions:
                    f = r[0].functions[r[1]]
                    if returns_param_unchanged(f):
                        return 'FINDING:' + fn + '\0' + norm(v)
                    return 'conversion ' + fn
        return None

    reported = set()
    for pth in rpaths:
        n = pth.ret_stmt
        if n is None:
            continue          # falls off the end: returns None
        r4.sites += 1
        kind = classify(pth)
        conds = ' / '.join(('' if pol else 'not ') + norm(t, 30)
                           for t, pol in pth.facts[-3:])
        if kind is not None and kind.startswith('FINDING:'):
            fn, callx = kind[8:].split('\0')
            r4.ob(False, 'cimvalue:' + callx)
            if ('pt', callx) not in reported:
                reported.add(('pt', callx))
                rep.finding(
                    r4, cv.qualname, 'return ' + callx, 'pass-through',
                    OBJ, n.lineno,
                    '%s() can return its argument unchanged, so '
                    'cimvalue() returns a value that is not of '
                    'the requested CIM type instead of raising '
                    'TypeError (e.g. cimvalue(42, "string") == '
                    '42)' % fn)
            continue
        ok = kind is not None
        r4.ob(ok, 'cimvalue:%s|%s' % (norm(n), conds),
              {'return': norm(n), 'kind': kind, 'path': conds})
        if not ok and ('ut', norm(n)) not in reported:
            reported.add(('ut', norm(n)))
            rep.finding(r4, cv.qualname, norm(n), 'untyped-return', OBJ,
                        n.lineno, 'on the path [%s] the return value is '
                        'neither a constructor call nor the value under an '
                        'isinstance test for the requested type '
                        '(type_from_name(type), or a class inside a branch '
                        'that fixed type to a constant)' % conds)

    # ---------------- R5 ---------------------------------------------------
    dt = repo.cls(TYP, 'CIMDateTime')
    init = dt.methods.get('__init__')
    r5.functions.add(init.fq)
    slots = dt.slots() or []
    top_inits = set()
    for s in init.body:
        if isinstance(s, ast.Assign):
            for t in s.targets:
                d = dotted(t)
                if d and d.startswith('self.'):
                    top_inits.add(d[5:])
        elif isinstance(s, (ast.If, ast.For, ast.While, ast.Try)):
            break
    branch = None
    for n in walk_no_nested(init.node):
        if isinstance(n, ast.If) and isinstance(n.test, ast.Call) and \
                dotted(n.test.func) == 'isinstance' and \
                norm(n.test.args[1]) == 'CIMDateTime':
            branch = n
    if branch is None:
        raise AnalysisError('CIMDateTime.__init__: copy branch vanished')
    assigned = set()
    for s in branch.body:
        for x in ast.walk(s):
            if isinstance(x, ast.Attribute) and isinstance(x.ctx, ast.Store) \
                    and dotted(x) and dotted(x).startswith('self.'):
                assigned.add(x.attr)
    for sl in slots:
        r5.sites += 1
        ok = sl in assigned
        r5.ob(ok, 'CIMDateTime.copy:' + sl,
              {'slot': sl, 'assigned_in_copy_branch': ok})
        if not ok:
            rep.finding(r5, init.qualname, sl, 'slot-not-copied', TYP,
                        branch.lineno,
                        'CIMDateTime(<CIMDateTime>) does not transfer slot '
                        '%s: the copy prints/behaves differently from the '
                        'original' % sl)

    datetime_layout_rule(repo, rep, r7)
    # ---------------- R6 ---------------------------------------------------
    from ..inline import Flat
    atom = Flat(repo.func(TYP, 'atomic_to_cim_xml'))
    r6.functions.add(atom.fq)
    # flatten the if/elif chain
    chain = []
    cur = None
    for s in atom.body:
        if isinstance(s, ast.If):
            cur = s
            break
    while cur is not None:
        chain.append(cur)
        if len(cur.orelse) == 1 and isinstance(cur.orelse[0], ast.If):
            cur = cur.orelse[0]
        else:
            cur = None

    def types_of(test):
        if isinstance(test, ast.Call) and dotted(test.func) == 'isinstance' \
                and len(test.args) == 2:
            t = test.args[1]
            return [norm(e) for e in (t.elts if isinstance(t, ast.Tuple)
                                      else [t])]
        return []
    order = {}
    for i, br in enumerate(chain):
        for t in types_of(br.test):
            order.setdefault(t, i)
    r6.sites += len(chain)

    def before(a, b):
        return a in order and b in order and order[a] < order[b]
    for a, b in (('bool', 'int'), ('Real32', 'float')):
        ok = before(a, b)
        r6.ob(ok, 'atomic:%s<%s' % (a, b), {'branch_order': order})
        if not ok:
            rep.finding(r6, atom.qualname, 'isinstance chain',
                        '%s-after-%s' % (a, b), TYP, atom.node.lineno,
                        'the %s branch does not precede the %s branch (%s '
                        'values would be formatted as %s)' % (a, b, a, b))

    def precisions(br):
        out = []
        for x in ast.walk(br):
            if isinstance(x, ast.FormattedValue) and x.format_spec is not None:
                spec = ''.join(
                    str(v.value) if isinstance(v, ast.Constant) else
                    str(v.value.value) if isinstance(v, ast.FormattedValue)
                    and isinstance(v.value, ast.Constant) else '?'
                    for v in x.format_spec.values)
                m = re.match(r'^\.(\d+)([GgEe])$', spec)
                if m:
                    digits = int(m.group(1)) + (1 if m.group(2) in 'eE' else 0)
                    out.append((spec, digits))
                else:
                    out.append((spec, 0))
            if isinstance(x, ast.Call) and dotted(x.func) == 'repr':
                out.append(('repr', 17))
            if isinstance(x, ast.Call) and dotted(x.func) == 'format' and \
                    len(x.args) == 2:
                # format(x, SPEC) with a constant spec (constant fields
                # nested in an f-string included)
                sp = x.args[1]
                vals_ = sp.values if isinstance(sp, ast.JoinedStr) else [sp]
                spec = ''.join(
                    str(v.value) if isinstance(v, ast.Constant) else
                    str(v.value.value) if isinstance(v, ast.FormattedValue)
                    and isinstance(v.value, ast.Constant) else '?'
                    for v in vals_)
                m = re.match(r'^\.(\d+)([GgEe])$', spec)
                out.append((spec, (int(m.group(1)) + (
                    1 if m.group(2) in 'eE' else 0)) if m else 0))
            if isinstance(x, ast.BinOp) and isinstance(x.op, ast.Mod) and \
                    const_str(x.left):
                m = re.search(r'%\.(\d+)([GgEe])', const_str(x.left))
                out.append((const_str(x.left), int(m.group(1)) if m else 0))
        return out
    for tname, need in (('Real32', 9), ('Real64', 17), ('float', 17)):
        if tname not in order:
            rep.finding(r6, atom.qualname, tname, 'no-branch', TYP,
                        atom.node.lineno, 'no branch formats %s' % tname)
            continue
        br = chain[order[tname]]
        ps = precisions(_Body(br.body))
        ok = bool(ps) and all(d >= need for _, d in ps)
        r6.ob(ok, 'atomic:%s-precision' % tname,
              {'type': tname, 'format': ps, 'needed_significant_digits':
               need})
        if not ok:
            rep.finding(r6, atom.qualname, '%s: %s' % (tname, ps),
                        'precision', TYP, br.lineno,
                        '%s is formatted with fewer than %d significant '
                        'digits: the value does not parse back to the same '
                        'float' % (tname, need))
        # special values: the G format yields NAN/INF/-INF; DSP0201 wants
        # NaN/INF/-INF, and INF must not get the '.0' suffix treatment
        consts = {x.value for x in ast.walk(_Body(br.body))
                  if isinstance(x, ast.Constant) and isinstance(x.value, str)}
        nan_fix = any(
            isinstance(x, ast.If) and isinstance(x.test, ast.Compare) and
            any(const_str(c) == 'NAN' for c in ast.walk(x.test)) and
            any(isinstance(y, (ast.Assign, ast.Return)) and
                y.value is not None and const_str(y.value) == 'NaN'
                for y in x.body)
            for x in ast.walk(_Body(br.body)))
        ok = nan_fix and {'INF', '-INF'} <= consts
        r6.ob(ok, 'atomic:%s-special' % tname,
              {'type': tname, 'NAN->NaN': nan_fix,
               'INF_guard': {'INF', '-INF'} <= consts})
        if not ok:
            rep.finding(r6, atom.qualname, tname + ' special values',
                        'special', TYP, br.lineno,
                        'NaN / INF / -INF spelling not handled for %s'
                        % tname)
        real_shapes_of_branch(rep, r9, atom, tname, br)
        # string surgery on the formatted number keys on the exponent marker
        # alone: the G/E/g/e format writes 'E+NN' as well as 'E-NN', so a
        # separator such as 'E+' handles only one of the two signs
        for x in ast.walk(_Body(br.body)):
            if isinstance(x, ast.Call) and isinstance(x.func, ast.Attribute) \
                    and x.func.attr in ('split', 'rsplit', 'partition',
                                        'rpartition', 'find', 'rfind',
                                        'index', 'rindex', 'replace',
                                        'startswith', 'endswith') and x.args:
                sep = const_str(x.args[0])
                if sep is None:
                    continue
                marker_in = any(ch in sep for ch in 'Ee')
                ok = not (marker_in and len(sep) > 1)
                r6.ob(ok, 'atomic:%s-surgery:%s' % (tname, sep),
                      {'type': tname, 'operation': norm(x, 60),
                       'separator': sep})
                if not ok:
                    rep.finding(
                        r6, atom.qualname, '%s: %s' % (tname, norm(x, 60)),
                        'exponent-separator', TYP, x.lineno,
                        'the formatted %s is taken apart at %r, which '
                        'matches only one exponent sign (the format writes '
                        'E+NN and E-NN): for the other sign the text is '
                        'rebuilt wrongly and does not parse back'
                        % (tname, sep))
    _r8_exact_fields(repo, rep)
    _r10_seconds_with_days(repo, rep)
    _r11_fixed_width_fields(repo, rep)
    _r12_no_equality_test_on_reals(repo, rep)


def real_shapes_of_branch(rep, r9, atom, tname, br):
    """printer language of one isinstance branch of atomic_to_cim_xml (shape
    analysis, pwsa/strlang.py): every output shape must be in the reader's
    language (float(), used by unpack_numeric) and in the DSP0201 real
    syntax"""
    from .. import strlang as SL
    try:
        spec_, outs = SL.outputs(list(br.body))
    except SL.Unsupported as exc:
        r9.undecided.append('%s: %s' % (tname, exc))
        outs = []
    for tin, tout in outs:
        r9.sites += 1
        smp = SL.samples(tout)
        bad_f = [x for x in smp if not SL.FLOAT_DOMAIN.fullmatch(x)]
        bad_d = [x for x in smp if not SL.DSP0201_REAL.fullmatch(x)]
        ok = not bad_f and not bad_d
        r9.ob(ok, 'atomic:%s:%s' % (tname, SL.show(tin)),
              {'type': tname, 'formatted_shape': SL.show(tin),
               'written_shape': SL.show(tout)})
        if not ok:
            rep.finding(
                r9, atom.qualname, '%s: %s -> %s' % (
                    tname, SL.show(tin), SL.show(tout)),
                'not-readable' if bad_f else 'not-dsp0201', TYP,
                br.lineno,
                'a %s that the format writes as %s leaves the function '
                'as %s (e.g. %r), which %s'
                % (tname, SL.show(tin), SL.show(tout),
                   (bad_f or bad_d)[0],
                   'float() / unpack_numeric cannot read back' if bad_f
                   else 'is not a DSP0201 real value (a digit must '
                   'follow the decimal point)'))


def real_shapes_rule(repo, rep, r9):
    """C06.R9 as a rule of its own (also C04.R15: a real value is sent - on
    both sides of the wire - by atomic_to_cim_xml() and read back by
    unpack_numeric(); text such as `1E+22.0` makes the reader of the other
    side fail, so the same call succeeds directly and raises over CIM-XML):
    for the Real32 / Real64 / float branches of atomic_to_cim_xml (private
    helpers inlined) every shape the formatting can produce is readable."""
    from ..inline import Flat
    atom = Flat(repo.func(TYP, 'atomic_to_cim_xml'))
    chain = []
    cur = next((s_ for s_ in atom.body if isinstance(s_, ast.If)), None)
    while cur is not None:
        chain.append(cur)
        cur = cur.orelse[0] if len(cur.orelse) == 1 and \
            isinstance(cur.orelse[0], ast.If) else None
    done = 0
    for br in chain:
        t = br.test
        if not (isinstance(t, ast.Call) and dotted(t.func) == 'isinstance'
                and len(t.args) == 2):
            continue
        tt = t.args[1]
        names_ = [norm(e) for e in (tt.elts if isinstance(tt, ast.Tuple)
                                    else [tt])]
        for tname in names_:
            if tname in ('Real32', 'Real64', 'float'):
                done += 1
                real_shapes_of_branch(rep, r9, atom, tname, br)
    r9.functions.add(atom.fq)
    if done < 2:
        raise AnalysisError('atomic_to_cim_xml: the real-number branches '
                            'were not found')


def _r8_exact_fields(repo, rep, rid='C06.R8'):
    """C06.R8: the fields of the CIM datetime string are computed with exact
    integer arithmetic."""
    r8 = rep.rule(rid, 'CIMDateTime fields are computed with exact '
                  'integer arithmetic (no float path for days/microseconds)')
    dt = repo.cls(TYP, 'CIMDateTime')
    big = ('.days', '.microseconds', 'total_seconds')
    for m in dt.methods.values():
        r8.sites += 1
        r8.functions.add(m.fq)
        for n in walk_no_nested(m.node):
            why = None
            if isinstance(n, ast.Call) and \
                    isinstance(n.func, ast.Attribute) and \
                    n.func.attr == 'total_seconds':
                why = ('timedelta.total_seconds() is a float: from 2**33 '
                       'seconds (about 272 years) on it cannot hold '
                       'microseconds exactly, while a CIM interval has 8 '
                       'digits of days and 6 of microseconds')
            elif isinstance(n, ast.BinOp) and isinstance(n.op, ast.Div) and \
                    any(b in norm(n.left) for b in big):
                why = ('true division of a days/microseconds quantity '
                       'yields a float that cannot hold the full interval '
                       'range exactly')
            elif isinstance(n, ast.Call) and dotted(n.func) == 'float' and \
                    n.args and any(b in norm(n.args[0]) for b in big):
                why = ('float() of a days/microseconds quantity cannot hold '
                       'the full interval range exactly')
            if why:
                rep.finding(r8, m.qualname, norm(n, 70), 'float-path', TYP,
                            n.lineno, why + ': the printed datetime differs '
                            'from the value (seconds off by one, or a '
                            '9-digit days field)')
        r8.ob(True, m.qualname)
    if r8.sites < 10:
        raise AnalysisError('CIMDateTime: only %d methods' % r8.sites)


def _typed_name(repo, module, func, name, tparam=None, fixed=True):
    """The isinstance() type is the requested CIM type: a local bound to
    type_from_name(<type parameter>), or - only inside a branch that fixed
    the requested type to a constant - a repo class / str."""
    for x in walk_no_nested(func.node):
        if isinstance(x, ast.Assign) and \
                any(dotted(t) == name for t in x.targets) and \
                isinstance(x.value, ast.Call) and \
                dotted(x.value.func) == 'type_from_name' and \
                (tparam is None or (x.value.args and
                                    norm(x.value.args[0]) == tparam)):
            return True
    if not fixed:
        return False
    if name == 'str':
        return True
    r = repo.resolve_import(module, name.split('.')[0])
    return r is not None and r[1] in r[0].classes


def datetime_layout_rule(repo, rep, r7):
    """C06.R7 (also C07.R12: a datetime key is printed by str(CIMDateTime)
    and recognised on the way back by CIMDateTime(text)): the string
    CIMDateTime.__str__ returns is, on every return path, the 25-character
    layout of its own parser pattern - every printed number field is exactly
    one parser group of the same start and width - and every parser group
    that receives a printed number field accepts *every* digit string of
    that width (a group like `[0-8]\\d{2}` for the UTC offset rejects the
    offsets 900..999 that the printer can write)."""
    typ = repo.module(TYP)
    dt = repo.cls(TYP, 'CIMDateTime')
    strf = dt.methods.get('__str__')
    if strf is None:
        raise AnalysisError('CIMDateTime.__str__ vanished')
    r7.functions.add(strf.fq)
    from ..paths import return_paths
    spaths = return_paths(strf, max_paths=64, inline=False)
    if not spaths:
        raise AnalysisError('CIMDateTime.__str__: return paths not '
                            'enumerable')
    by_kind = {'interval': [], 'timestamp': []}
    for p_ in spaths:
        pol = [pl for e, pl in p_.facts if norm(e) == 'self.is_interval']
        if not pol:
            raise AnalysisError('CIMDateTime.__str__: a return path does '
                                'not test self.is_interval')
        by_kind['interval' if pol[0] else 'timestamp'].append(p_)
    pats = {'interval': '_interval_pattern', 'timestamp':
            '_timestamp_pattern'}
    env = module_env(repo, typ, dt)
    for kind, kpaths in by_kind.items():
        r7.sites += 1
        if not kpaths:
            raise AnalysisError('CIMDateTime.__str__: no %s path' % kind)
        node = dt.consts.get(pats[kind])
        try:
            pat = fold_const(node, env)
        except NotConst:
            pat = None
        widths = _regex_field_widths(pat) if pat else None
        ok = widths is not None
        total = None
        seq = []
        for p_ in kpaths:
            if not ok:
                break
            pieces = _text_pieces(p_.resolve(p_.value))
            if pieces is None:
                ok = False
                break
            pos = 0
            seq = []
            for pc in pieces:
                if pc[0] == 'lit':
                    for _ch in range(pc[1]):
                        seq.append(('lit', 1, pos))
                        pos += 1
                else:
                    ln, beg = pc[1], pc[2]
                    seq.append(('field', ln, pos, pos if beg is None
                                else beg))
                    pos += ln or 0
            total = pos
            # every _to_str field begins where it is placed
            ok = total == 25 and all(
                x[0] != 'field' or x[3] == x[2] for x in seq)
            # and every printed field is exactly one parser group (same
            # start, same width); literals fall on parser literals or on
            # groups that match only that literal text (':', '000')
            pstart = {}
            q = 0
            for k_, w in widths:
                pstart[q] = (k_, w)
                q += w
            ok = ok and q == 25 and all(
                x[0] != 'field' or pstart.get(x[2], (None, None))[1] == x[1]
                for x in seq)
        r7.ob(ok, 'CIMDateTime.__str__:' + kind,
              {'kind': kind, 'printer_layout': seq, 'total_width': total,
               'parser_pattern': pat, 'parser_field_widths': widths})
        # every group that takes a printed number accepts all digit strings
        sets_ = _regex_field_charsets(pat) if pat else None
        if ok and sets_ is not None:
            q = 0
            starts = {}
            for k_, cs in sets_:
                starts[q] = (k_, cs)
                q += len(cs)
            for x in seq:
                if x[0] != 'field' or x[1] in (None, 1):
                    continue          # literals and the one-character sign
                k_, cs = starts.get(x[2], (None, []))
                narrow = [i for i, c in enumerate(cs)
                          if c is not None and
                          not set('0123456789') <= c]
                okd = k_ == 'group' and not narrow
                r7.ob(okd, 'CIMDateTime.__str__:%s:digits@%d' % (kind, x[2]))
                if not okd:
                    rep.finding(r7, dt.name + '.' + pats[kind],
                                '%s field at column %d' % (kind, x[2]),
                                'digit-range', TYP,
                                getattr(dt.consts.get(pats[kind]), 'lineno',
                                        strf.node.lineno),
                                'the parser group for the %d-digit field at '
                                'column %d of the %s string does not accept '
                                'every digit (position(s) %s): values the '
                                'printer writes there (e.g. a UTC offset of '
                                '900..999 minutes) are rejected when the '
                                'string is parsed back'
                                % (x[1], x[2], kind, narrow))
        if not ok:
            rep.finding(r7, strf.qualname, kind + ' layout', 'layout', TYP,
                        strf.node.lineno,
                        'the %s string is not the 25-character layout its '
                        'own parser pattern expects (printer fields %s, '
                        'total %s; parser widths %s)'
                        % (kind, [(x[1], x[2]) for x in seq], total, widths))


def _regex_field_charsets(pattern):
    """[(kind, [charset per position])] for the top-level items of a
    datetime pattern; a position whose characters are not evident is None"""
    from .. import rx
    p = rx.parse(pattern)
    out = []

    def one(op2, av2):
        s2 = str(op2)
        if s2 == 'LITERAL':
            return [{chr(av2)}]
        if s2 == 'IN':
            c = rx.class_chars(av2)
            return [None if c is rx.ALL else set(c)]
        if s2 == 'MAX_REPEAT' and av2[0] == av2[1]:
            inner = []
            for o3, a3 in av2[2]:
                r_ = one(o3, a3)
                if r_ is None:
                    return None
                inner += r_
            return inner * av2[0]
        return None
    for op, av in p:
        sop = str(op)
        if sop == 'AT':
            continue
        if sop == 'SUBPATTERN':
            cs = []
            for op2, av2 in av[3]:
                r_ = one(op2, av2)
                if r_ is None:
                    return None
                cs += r_
            out.append(('group', cs))
        elif sop == 'LITERAL':
            out.append(('lit', [{chr(av)}]))
        else:
            return None
    return out


def _regex_field_widths(pattern):
    """[(kind, width)] for the top-level items of a datetime pattern:
    capturing groups of fixed width and literals."""
    from .. import rx
    p = rx.parse(pattern)
    out = []
    for op, av in p:
        sop = str(op)
        if sop == 'AT':
            continue
        if sop == 'SUBPATTERN':
            sub = av[3]
            w = 0
            for op2, av2 in sub:
                s2 = str(op2)
                if s2 == 'MAX_REPEAT' and av2[0] == av2[1]:
                    w += av2[0]
                elif s2 in ('LITERAL', 'IN'):
                    w += 1
                else:
                    return None
            out.append(('group', w))
        elif sop == 'LITERAL':
            out.append(('lit', 1))
        else:
            return None
    return out


def _text_pieces(e):
    """the text an expression of CIMDateTime.__str__ produces, as a list of
    ('lit', n) - n literal characters - and ('field', width, begin) - one
    fixed-width number field (begin: the column _to_str() was told, None
    for a format spec) - or None when the expression is not a
    concatenation of such pieces"""
    if isinstance(e, ast.Constant) and isinstance(e.value, str):
        return [('lit', len(e.value))] if e.value else []
    if isinstance(e, ast.JoinedStr):
        out = []
        for v in e.values:
            ps = _text_pieces(v)
            if ps is None:
                return None
            out += ps
        return out
    if isinstance(e, ast.FormattedValue):
        if e.format_spec is None:
            return _text_pieces(e.value) if e.conversion in (-1, 115) \
                else None
        spec = ''.join(str(x.value) for x in e.format_spec.values
                       if isinstance(x, ast.Constant))
        m = re.match(r'^0(\d+)d?$', spec)
        return [('field', int(m.group(1)), None)] if m else None
    if isinstance(e, ast.BinOp) and isinstance(e.op, ast.Add):
        a, b = _text_pieces(e.left), _text_pieces(e.right)
        return None if a is None or b is None else a + b
    if isinstance(e, ast.IfExp):
        a, b = _text_pieces(e.body), _text_pieces(e.orelse)
        if a is None or b is None:
            return None
        if all(x[0] == 'lit' for x in a + b) and \
                sum(x[1] for x in a) == sum(x[1] for x in b):
            # either of two texts of the same length (the sign)
            return [('field', sum(x[1] for x in a), None)]
        return a if a == b else None
    if isinstance(e, ast.Call):
        d = dotted(e.func) or ''
        if d == 'self._to_str' and len(e.args) == 3 and not e.keywords:
            try:
                return [('field', fold_const(e.args[2]),
                         fold_const(e.args[1]))]
            except NotConst:
                return None
        if d == 'str' and len(e.args) == 1:
            return _text_pieces(e.args[0])
        if isinstance(e.func, ast.Attribute) and e.func.attr == 'join' and \
                isinstance(e.func.value, ast.Constant) and \
                isinstance(e.func.value.value, str) and len(e.args) == 1 \
                and isinstance(e.args[0], (ast.List, ast.Tuple)):
            sep = _text_pieces(e.func.value)
            out = []
            for i, el in enumerate(e.args[0].elts):
                ps = _text_pieces(el)
                if ps is None:
                    return None
                out += (sep if i else []) + ps
            return out
    return None


class _Body(ast.AST):
    _fields = ('body',)

    def __init__(self, body):
        self.body = list(body)


def _r10_seconds_with_days(repo, rep):
    """C06.R10: a timedelta is normalised as days (possibly negative) +
    seconds (0..86399) + microseconds.  Code that takes `.seconds` of a
    timedelta without also taking `.days` of the same value (or using
    total_seconds()) is wrong for negative values: a UTC offset of -300
    minutes has days=-1, seconds=68400 and comes out as +1140 minutes, so
    the CIMDateTime represents another point in time and its string form
    gets a 4-digit offset."""
    r10 = rep.rule('C06.R10', 'timedelta.seconds is only used together with '
                   '.days of the same value')
    mod = repo.module(TYP)

    def nonneg_difference(f, node):
        """node.value is `A - B` evaluated where A >= B is known"""
        d = node.value
        if not (isinstance(d, ast.BinOp) and isinstance(d.op, ast.Sub)):
            return False
        a, b = norm(d.left), norm(d.right)
        good = {('%s < %s' % (b, a), True), ('%s <= %s' % (b, a), True),
                ('%s > %s' % (a, b), True), ('%s >= %s' % (a, b), True),
                ('%s < %s' % (a, b), False), ('%s > %s' % (b, a), False)}
        for st, (fs, _t) in stmt_facts(f.node).items():
            if isinstance(st, (ast.If, ast.For, ast.While, ast.Try,
                               ast.With)):
                continue
            if any(x is node for x in ast.walk(st)):
                return any((norm(t), pol) in good for t, pol in fs)
        return False
    for f in mod.all_funcs():
        secs = {}
        days = set()
        for n in walk_no_nested(f.node):
            if isinstance(n, ast.Attribute) and isinstance(n.ctx, ast.Load):
                if n.attr == 'seconds':
                    secs.setdefault(norm(n.value), n)
                elif n.attr == 'days':
                    days.add(norm(n.value))
        for base, node in secs.items():
            r10.sites += 1
            r10.functions.add(f.fq)
            ok = base in days or nonneg_difference(f, node)
            r10.ob(ok, '%s|%s.seconds' % (f.qualname, base))
            if not ok:
                rep.finding(r10, f.qualname, base + '.seconds',
                            'seconds-without-days', TYP, node.lineno,
                            '%s.seconds is used without %s.days: for a '
                            'negative timedelta (e.g. the utcoffset() of a '
                            'zone west of UTC) days is -1 and seconds is '
                            '86400 minus the amount, so the value computed '
                            'from .seconds alone is off by a day (-300 '
                            'minutes becomes +1140)' % (base, base))
    if r10.sites < 2:
        raise AnalysisError('C06.R10: only %d uses of .seconds' % r10.sites)


def _field_text_kind(e, env, params):
    """how an expression of CIMDateTime._to_str() relates to the field
    value: 'padded' (zero padded to the field width), 'piece' (slice of the
    padded text), 'fill' (constant / repeated constant), 'unpadded' (the
    decimal text of the number, variable width), 'bad' (a slice / pad of
    the unpadded text), None (unknown)"""
    import re as _re
    if isinstance(e, ast.Name):
        return env.get(e.id)
    if isinstance(e, ast.Constant) and isinstance(e.value, str):
        return 'fill'
    if isinstance(e, ast.JoinedStr):
        fvs = [v for v in e.values if isinstance(v, ast.FormattedValue)]
        if len(fvs) == 1 and isinstance(fvs[0].value, ast.Name) and \
                fvs[0].value.id in params:
            spec = ''
            if fvs[0].format_spec is not None:
                for v in fvs[0].format_spec.values:
                    spec += str(v.value) if isinstance(v, ast.Constant) \
                        else '<n>'
            return 'padded' if _re.fullmatch(r'0(\d+|<n>)d?', spec) \
                else 'unpadded'
        return None
    if isinstance(e, ast.BinOp) and isinstance(e.op, ast.Mod) and \
            isinstance(e.left, ast.Constant) and \
            isinstance(e.left.value, str):
        return 'padded' if _re.fullmatch(r'%0(\d+|\*)d', e.left.value) \
            else 'unpadded'
    if isinstance(e, ast.BinOp) and isinstance(e.op, ast.Mult):
        a = _field_text_kind(e.left, env, params)
        b = _field_text_kind(e.right, env, params)
        return 'fill' if 'fill' in (a, b) else None
    if isinstance(e, ast.BinOp) and isinstance(e.op, ast.Add):
        a = _field_text_kind(e.left, env, params)
        b = _field_text_kind(e.right, env, params)
        if a is None or b is None:
            return None
        if 'bad' in (a, b) or 'unpadded' in (a, b):
            return 'bad'
        return 'piece' if 'piece' in (a, b) else \
            ('padded' if 'padded' in (a, b) else 'fill')
    if isinstance(e, ast.Subscript):
        a = _field_text_kind(e.value, env, params)
        if a in ('padded', 'piece'):
            return 'piece'
        if a in ('unpadded', 'bad'):
            return 'bad'
        return None
    if isinstance(e, ast.Call):
        d = dotted(e.func) or ''
        if d in ('str', 'repr') and len(e.args) == 1 and \
                isinstance(e.args[0], ast.Name) and e.args[0].id in params:
            return 'unpadded'
        if isinstance(e.func, ast.Attribute):
            a = _field_text_kind(e.func.value, env, params)
            at = e.func.attr
            if at == 'zfill' or (at == 'rjust' and len(e.args) == 2 and
                                 isinstance(e.args[1], ast.Constant) and
                                 e.args[1].value == '0'):
                return 'padded' if a in ('unpadded', 'padded') else a
            if at in ('ljust', 'rjust', 'center'):
                if a in ('padded', 'piece'):
                    return 'piece'
                if a in ('unpadded', 'bad'):
                    return 'bad'
        return None
    if isinstance(e, ast.IfExp):
        a = _field_text_kind(e.body, env, params)
        b = _field_text_kind(e.orelse, env, params)
        if 'bad' in (a, b) or 'unpadded' in (a, b):
            return 'bad'
        return a if a == b else ('piece' if a and b else None)
    return None


def _r11_fixed_width_fields(repo, rep):
    """C06.R11: every field of the 25-character string is the zero-padded
    decimal text of its value; with a precision, digits are replaced by
    asterisks *in that fixed-width text*.  Cutting the unpadded text
    (`str(value)[:n]`) takes the first digits of the number instead of the
    first digits of the field: day 5 of a precision-6 timestamp prints as
    '5*' instead of '0*', which parses to another instant (or is
    rejected)."""
    from ..paths import return_paths
    r11 = rep.rule('C06.R11', 'datetime fields are cut from the zero-padded, '
                   'fixed-width text of the value')
    dt = repo.cls('pywbem/_cim_types.py', 'CIMDateTime')
    f = dt.methods.get('_to_str')
    if f is None:
        raise AnalysisError('CIMDateTime._to_str vanished')
    r11.functions.add(f.fq)
    params = {p_ for p_ in f.params if p_ != 'self'}
    paths = return_paths(f, inline=False)
    if not paths:
        raise AnalysisError('CIMDateTime._to_str: no return paths')
    for pth in paths:
        if pth.value is None:
            continue
        r11.sites += 1
        env = {}
        for st in pth.effects:
            if isinstance(st, ast.Assign) and len(st.targets) == 1 and \
                    isinstance(st.targets[0], ast.Name):
                k = _field_text_kind(st.value, env, params)
                if k is None:
                    env.pop(st.targets[0].id, None)
                else:
                    env[st.targets[0].id] = k
        k = _field_text_kind(pth.value, env, params)
        if k is None:
            r11.undecided.append('_to_str: %s' % norm(pth.value, 60))
            continue
        ok = k in ('padded', 'piece')
        r11.ob(ok, 'return %s' % norm(pth.value, 60), {'kind': k})
        if not ok:
            rep.finding(r11, f.qualname, 'return %s' % norm(pth.value, 70),
                        'unpadded-field', 'pywbem/_cim_types.py',
                        getattr(pth.ret_stmt, 'lineno', f.node.lineno),
                        'the field text is built from the unpadded decimal '
                        'text of the value (%s): leading zeros of the field '
                        'are lost, so with a precision that cuts into the '
                        'field the digits shown are not the leading digits '
                        'of the field (5 -> "5*" instead of "0*")' % k)
    if r11.sites < 2:
        raise AnalysisError('CIMDateTime._to_str: only %d return paths'
                            % r11.sites)


def _r12_no_equality_test_on_reals(repo, rep):
    """C06.R12: the reader does not decide by == / != between two values
    that can be floating point numbers.  NaN is unequal to itself, so a
    check like `if converted != parsed: raise` - meant to catch a lossy
    conversion - rejects the DSP0201 text `NaN`, which the writer produces
    for real32 / real64 NaN values."""
    r12 = rep.rule('C06.R12', 'no == / != between two possibly-real values '
                   'in the numeric reader')
    tp = repo.cls('pywbem/_tupleparse.py', 'TupleParser')
    n = 0
    for name, f in sorted(tp.methods.items()):
        if not any(isinstance(c, ast.Call) and dotted(c.func) == 'float'
                   for c in walk_no_nested(f.node)):
            continue
        n += 1
        r12.functions.add(f.fq)
        real = set()
        for _ in range(3):
            for a in walk_no_nested(f.node):
                if isinstance(a, ast.Assign) and len(a.targets) == 1 and \
                        isinstance(a.targets[0], ast.Name) and \
                        isinstance(a.value, ast.Call):
                    d = dotted(a.value.func) or ''
                    if d == 'float' or (a.value.args and any(
                            isinstance(x, ast.Name) and x.id in real
                            for x in a.value.args)):
                        real.add(a.targets[0].id)
        for c in walk_no_nested(f.node):
            if isinstance(c, ast.Compare) and len(c.ops) == 1 and \
                    isinstance(c.ops[0], (ast.Eq, ast.NotEq)) and \
                    isinstance(c.left, ast.Name) and \
                    isinstance(c.comparators[0], ast.Name) and \
                    c.left.id in real and c.comparators[0].id in real:
                r12.sites += 1
                r12.ob(False, '%s|%s' % (name, norm(c)))
                rep.finding(r12, f.qualname, norm(c), 'nan-unequal',
                            'pywbem/_tupleparse.py', c.lineno,
                            '%s compares two values that are NaN for the '
                            'text "NaN": NaN != NaN, so the decision taken '
                            'here treats a valid real32/real64 NaN as a '
                            'conversion failure' % norm(c))
    r12.sites += 1
    r12.ob(n >= 1, 'numeric-readers', {'functions': n})
    if n < 1:
        raise AnalysisError('C06.R12: no reader calling float() found')
