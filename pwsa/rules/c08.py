"""C08 - MOF produced by tomof() recompiles to the same objects.
Decides writer/lexer/reader escape-table agreement, escape order, slicing of
escaped text, normalisation of quoted tokens, keyword table agreement."""
import ast
import re

from ..model import (AnalysisError, walk_no_nested, dotted, norm, const_str,
                     fold_const, module_env, NotConst, kwarg)
from .. import rx

EXPLANATION = (
    "Table agreement between the MOF writer and the MOF compiler, extracted "
    "from the source: (R1) the writer's escape map (the .replace chain of "
    "_mof_escaped), the lexer's escape classes (simpleEscape/hexEscape, "
    "constants of _mof_compiler) and the reader's escape map (the if-chain "
    "of _fixStringValue) must agree: every escape the writer emits is "
    "admitted by the lexer and mapped back to the original character by the "
    "reader, every escape the lexer admits is handled by the reader, and "
    "every character the lexer's sChar/cChar excludes raw is escaped by the "
    "writer; (R2) backslash is escaped first; (R3) in mofstr the escaped "
    "text is sliced only at positions found by searching for a blank "
    "(rfind(' ')) - an arithmetic position can cut an escape sequence in "
    "two; (R4) every grammar action that takes a raw quoted token "
    "(stringValue, charValue - tokens whose lexer rule returns the text "
    "unchanged) passes it through _fixStringValue; (R5) the flavor, scope "
    "and data type keywords tomof() can emit are in the compiler's reserved "
    "table and among the alternatives of p_flavor/p_scopeElement/p_dataType. "
    "(R6) every slot of the 7 CIM object classes that MOF can express is "
    "read by its tomof() (frozen table of the slots MOF has no syntax for, "
    "one reason each). Does not decide equality of the recompiled object, folding at every "
    "maxline, or numeric literal round trips.")
ASSUMPTIONS = [
    "PLY matches tokens with the patterns given in the t_* docstrings / "
    "@TOKEN decorators",
]

OBJ = 'pywbem/_cim_obj.py'
MOF = 'pywbem/_mof_compiler.py'


MOF_CLASSES = ['CIMInstance', 'CIMClass', 'CIMProperty', 'CIMMethod',
               'CIMParameter', 'CIMQualifier', 'CIMQualifierDeclaration']
# attributes MOF (DSP0004 2.x) has no syntax for - one reason each
NOT_IN_MOF = {
    ('*', 'path'): 'a MOF declaration carries no host/namespace path '
                   '(the namespace comes from #pragma namespace / the '
                   'compile target)',
    ('*', 'class_origin'): 'computed by the server from the hierarchy, not '
                           'declared',
    ('*', 'propagated'): 'computed by the server from the hierarchy, not '
                         'declared',
    ('*', 'embedded_object'): 'expressed through the EmbeddedObject / '
                              'EmbeddedInstance qualifiers',
    ('CIMParameter', 'value'): 'DSP0004 2.x has no parameter default value '
                               'syntax; the attribute is for InvokeMethod',
    ('CIMQualifierDeclaration', 'toinstance'): 'ToInstance is a CIM-XML '
                                               'flavor, not a DSP0004 MOF '
                                               'flavor keyword',
    ('CIMQualifier', 'toinstance'): 'ToInstance is a CIM-XML flavor, not a '
                                    'DSP0004 MOF flavor keyword',
}


class _Blk(ast.AST):
    _fields = ('body',)

    def __init__(self, body):
        self.body = list(body)


def replace_pairs(func):
    """[(old, new)] of all .replace(const, const) calls on the escaped
    string of _mof_escaped, in application (source) order."""
    pairs = []
    for s in func.body:
        if not isinstance(s, ast.Assign):
            continue
        chain = []
        cur = s.value
        while isinstance(cur, ast.Call) and \
                isinstance(cur.func, ast.Attribute) and \
                cur.func.attr == 'replace' and len(cur.args) == 2:
            a, b = const_str(cur.args[0]), const_str(cur.args[1])
            if a is None or b is None:
                raise AnalysisError('_mof_escaped: non-constant replace')
            chain.append((a, b))
            cur = cur.func.value
        pairs.extend(reversed(chain))
    return pairs


def reader_map(func):
    """{escape char: produced text or 'HEX'} from the if-chain on `ch`."""
    out = {}
    # roles, not names: the character variable is the one assigned from a
    # subscript of the input string (ch = s[i]); the result variable is the
    # one the function returns
    params = [p for p in func.params if p not in ('self',)]
    chars = {n.targets[0].id for n in walk_no_nested(func.node)
             if isinstance(n, ast.Assign) and len(n.targets) == 1 and
             isinstance(n.targets[0], ast.Name) and
             isinstance(n.value, ast.Subscript) and
             isinstance(n.value.value, ast.Name) and
             n.value.value.id in params and
             not isinstance(n.value.slice, ast.Slice)}
    results = {norm(n.value) for n in walk_no_nested(func.node)
               if isinstance(n, ast.Return) and
               isinstance(n.value, ast.Name)}
    # table form: `if ch in TABLE: rv += TABLE[ch]` with TABLE a module-level
    # dict constant of single-character escapes
    for n in walk_no_nested(func.node):
        if isinstance(n, ast.If) and isinstance(n.test, ast.Compare) and \
                norm(n.test.left) in chars and len(n.test.ops) == 1 and \
                isinstance(n.test.ops[0], ast.In) and \
                isinstance(n.test.comparators[0], ast.Name):
            tname = n.test.comparators[0].id
            tnode = func.module.consts.get(tname)
            uses = any(isinstance(x, ast.AugAssign) and
                       norm(x.target) in results and
                       isinstance(x.value, ast.Subscript) and
                       norm(x.value.value) == tname and
                       norm(x.value.slice) in chars for x in n.body)
            if isinstance(tnode, ast.Dict) and uses:
                for k, v in zip(tnode.keys, tnode.values):
                    if const_str(k) is not None and const_str(v) is not None:
                        out[const_str(k)] = const_str(v)
    for n in walk_no_nested(func.node):
        if isinstance(n, ast.If) and isinstance(n.test, ast.Compare) and \
                norm(n.test.left) in chars and len(n.test.ops) == 1:
            keys = []
            c = n.test.comparators[0]
            if isinstance(n.test.ops[0], ast.Eq) and const_str(c) is not None:
                keys = [const_str(c)]
            elif isinstance(n.test.ops[0], ast.In) and \
                    isinstance(c, (ast.List, ast.Tuple)):
                keys = [const_str(e) for e in c.elts]
            if not keys or keys == ['\\'] and any(
                    'esc = True' == norm(x) for x in n.body):
                # the `ch == '\\' and not esc` opener is a BoolOp, not here
                pass
            val = None
            for x in n.body:
                if isinstance(x, ast.AugAssign) and \
                        norm(x.target) in results \
                        and const_str(x.value) is not None:
                    val = const_str(x.value)
            for k in keys:
                if k is None:
                    continue
                if val is not None:
                    out[k] = val
                elif k in ('x', 'X'):
                    out[k] = 'HEX'
    return out


def run(repo, rep, tier):
    r1 = rep.rule('C08.R1', 'writer / lexer / reader escape tables agree')
    r2 = rep.rule('C08.R2', 'escape order')
    r3 = rep.rule('C08.R3', 'no arithmetic slicing of escaped text')
    r4 = rep.rule('C08.R4', 'quoted tokens are normalised')
    r5 = rep.rule('C08.R5', 'keyword tables agree')
    r6 = rep.rule('C08.R6', 'every MOF-expressible attribute reaches '
                  'tomof()')
    obj = repo.module(OBJ)
    mof = repo.module(MOF)
    _r7_instance_values(repo, rep)
    _r8_symbols_consumed(repo, rep)
    _r9_array_braces(repo, rep)
    _r10_values_not_defaulted_by_truth(repo, rep)
    _r11_keyword_by_own_attribute(repo, rep)
    _r13_declaration_cache_follows_repository(repo, rep)
    # the class an instance is typed from (MOFWBEMConnection.GetClass with
    # LocalOnly=False) merges inherited elements by name: an override
    # spelled in another lexical case must still win (NocaseDict
    # membership, not `name in d.keys()`)
    from .c09 import _r13_names_compared_caselessly
    _r13_names_compared_caselessly(repo, rep, 'C08.R14')
    _r15_keywords_usable_as_names(repo, rep)
    from .c09 import per_compile_state_rule
    per_compile_state_rule(repo, rep, rep.rule(
        'C08.R12', 'the compiler leaves the embedded-object mode (and other '
        'per-compile parser state) also when a compile fails'))
    # ---- R6 ---------------------------------------------------------------
    for cname in MOF_CLASSES:
        cls = repo.cls(OBJ, cname)
        f = cls.methods.get('tomof')
        if f is None:
            raise AnalysisError('%s.tomof vanished' % cname)
        r6.sites += 1
        r6.functions.add(f.fq)
        # attributes read by tomof() or by the private methods it calls
        seen_m, work_m = [], [f]
        while work_m:
            g = work_m.pop()
            if g in seen_m:
                continue
            seen_m.append(g)
            for c_ in walk_no_nested(g.node):
                if isinstance(c_, ast.Call):
                    d_ = dotted(c_.func) or ''
                    if d_.startswith('self._') and d_.count('.') == 1:
                        h_ = cls.find_method(d_[5:])
                        if h_ is not None:
                            work_m.append(h_)
        used = {n.attr for g in seen_m for n in walk_no_nested(g.node)
                if isinstance(n, ast.Attribute) and
                isinstance(n.value, ast.Name) and n.value.id == 'self'}
        for sl in cls.slots() or []:
            a = sl.lstrip('_')
            why = NOT_IN_MOF.get((cname, a)) or NOT_IN_MOF.get(('*', a))
            if why:
                r6.ob(True, '%s.%s:exempt' % (cname, a),
                      {'class': cname, 'slot': a, 'not_expressible': why})
                continue
            ok = a in used or sl in used
            r6.ob(ok, '%s.%s' % (cname, a), {'class': cname, 'slot': a})
            if not ok:
                rep.finding(r6, f.qualname, a, 'slot-not-written', OBJ,
                            f.node.lineno, 'attribute %r of %s does not take '
                            'part in its MOF representation: tomof() loses '
                            'it and the recompiled object differs'
                            % (a, cname))
    esc = repo.func(OBJ, '_mof_escaped')
    fix = repo.func(MOF, '_fixStringValue')
    r1.functions.update([esc.fq, fix.fq])
    pairs = replace_pairs(esc)
    if len(pairs) < 10:
        raise AnalysisError('_mof_escaped: escape chain not found')
    env = module_env(repo, mof)

    def token_pattern(fname):
        """the constant pattern of a lexer rule (docstring or @TOKEN)"""
        tf = mof.functions.get(fname)
        if tf is None:
            raise AnalysisError('lexer rule %s vanished' % fname)
        node = None
        for d_ in tf.node.decorator_list:
            if isinstance(d_, ast.Call) and \
                    (dotted(d_.func) or '').endswith('TOKEN') and d_.args:
                node = d_.args[0]
        if node is None and tf.node.body and \
                isinstance(tf.node.body[0], ast.Expr) and \
                isinstance(tf.node.body[0].value, ast.Constant):
            node = tf.node.body[0].value
        if node is None:
            raise AnalysisError('lexer rule %s has no pattern' % fname)
        try:
            pat = fold_const(node, env)
        except NotConst:
            raise AnalysisError('pattern of %s is not a constant' % fname)
        if not isinstance(pat, str):
            raise AnalysisError('pattern of %s is not a string' % fname)
        return pat
    # the string / char token patterns are the lexer's word on what may
    # stand between the quotes; what they admit is asked of the patterns
    # themselves (not of how they are assembled from sub-patterns)
    STR_RE = re.compile(token_pattern('t_stringValue'))
    CHR_RE = re.compile(token_pattern('t_charValue'))

    def lexer_admits(text, string=True):
        return bool((STR_RE if string else CHR_RE).fullmatch(
            ('"%s"' if string else "'%s'") % text))
    PROBE = [chr(i) for i in range(32, 127)]
    simple = {c for c in PROBE if lexer_admits('\\' + c) and
              lexer_admits('\\' + c, False)}
    if len(simple) < 4:
        raise AnalysisError('lexer patterns admit only %d simple escapes'
                            % len(simple))

    def hex_bounds(tree):
        """(min, max) digits of the hex escape: a bounded repeat of a hex
        digit class that follows an x/X class"""
        out = []

        def hexclass(av):
            try:
                cs = rx.class_chars(av)
            except Exception:           # pylint: disable=broad-except
                return False
            return cs is not rx.ALL and cs and \
                set(cs) <= set('0123456789abcdefABCDEF') and len(cs) >= 16

        def walk(seq):
            for i, (op, av) in enumerate(seq):
                so = str(op)
                if so in ('MAX_REPEAT', 'MIN_REPEAT'):
                    body = list(av[2])
                    if len(body) == 1 and str(body[0][0]) == 'IN' and \
                            hexclass(body[0][1]) and i > 0 and \
                            str(seq[i - 1][0]) in ('IN', 'LITERAL'):
                        out.append((av[0], av[1]))
                    walk(body)
                elif so == 'SUBPATTERN':
                    walk(list(av[3]))
                elif so == 'BRANCH':
                    for alt in av[1]:
                        walk(list(alt))
        walk(list(tree))
        return out
    rmap = reader_map(fix)
    if len(rmap) < 6:
        raise AnalysisError('_fixStringValue: escape branches not found')
    wmap = {}
    for a, b in pairs:
        wmap[a] = b
    for ch, e in wmap.items():
        r1.sites += 1
        ok = e.startswith('\\') and len(e) >= 2
        lex_ok = ok and lexer_admits(e) and lexer_admits(e, False)
        if ok and len(e) == 2:
            back = rmap.get(e[1])
            read_ok = back == ch
        elif ok:
            back = 'HEX' if rmap.get(e[1]) == 'HEX' else None
            read_ok = back == 'HEX' and chr(int(e[2:], 16)) == ch
        else:
            back, read_ok = None, False
        r1.ob(lex_ok and read_ok, 'writer:%r' % ch,
              {'char': repr(ch), 'written_as': e, 'lexer_admits': lex_ok,
               'reader_maps_back_to': repr(back)})
        if not lex_ok:
            rep.finding(r1, esc.qualname, '%r -> %s' % (ch, e),
                        'not-in-lexer', OBJ, esc.node.lineno,
                        'the writer emits %s for %r but the lexer\'s escape '
                        'classes do not admit it: tomof() output does not '
                        'compile' % (e, ch))
        elif not read_ok:
            rep.finding(r1, fix.qualname, '%s -> %r' % (e, back),
                        'reader-mismatch', MOF, fix.node.lineno,
                        'the writer emits %s for %r but _fixStringValue '
                        'maps it to %r: the character is lost or changed '
                        'when the MOF is compiled' % (e, ch, back))
    # hex escapes: the writer's digit count, the lexer's maximum and the
    # number of digits the reader consumes must be the same number (a reader
    # that goes on past the writer's width swallows following text that
    # happens to be hex digits; DSP0004: 1 to 4 digits)
    widths = {len(e) - 2 for e in wmap.values()
              if len(e) > 2 and e[1] in 'xX'}
    lex_max = None
    hb = hex_bounds(rx.parse(STR_RE.pattern))
    if hb:
        mx = {b for _a, b in hb}
        lex_max = list(mx)[0] if len(mx) == 1 and \
            isinstance(list(mx)[0], int) and list(mx)[0] < 1000 else None
    read_max = None
    hexbranch = None
    for n in walk_no_nested(fix.node):
        if isinstance(n, ast.If) and isinstance(n.test, ast.Compare) and \
                any(const_str(x) in ('x', 'X') for x in ast.walk(n.test)):
            hexbranch = n
    if hexbranch is not None:
        for w in ast.walk(_Blk(hexbranch.body)):
            if isinstance(w, ast.While) and isinstance(w.test, ast.Compare) \
                    and len(w.test.ops) == 1 and \
                    isinstance(w.test.left, ast.Name) and \
                    isinstance(w.test.comparators[0], ast.Constant) and \
                    isinstance(w.test.comparators[0].value, int):
                k = w.test.comparators[0].value
                if isinstance(w.test.ops[0], ast.Lt):
                    read_max = k
                elif isinstance(w.test.ops[0], ast.LtE):
                    read_max = k + 1
            elif isinstance(w, ast.For) and isinstance(w.iter, ast.Call) \
                    and dotted(w.iter.func) == 'range' and w.iter.args and \
                    isinstance(w.iter.args[-1], ast.Constant):
                read_max = w.iter.args[-1].value
    if widths:
        r1.sites += 1
        ok = len(widths) == 1 and lex_max is not None and \
            read_max is not None and \
            list(widths)[0] == read_max == lex_max
        r1.ob(ok, 'hex-width', {'writer_digits': sorted(widths),
                                'lexer_max_digits': lex_max,
                                'reader_max_digits': read_max})
        if not ok:
            rep.finding(r1, fix.qualname, 'hex escape width', 'hex-width',
                        MOF, (hexbranch or fix.node).lineno,
                        'the writer emits hex escapes with %s digits, the '
                        'lexer admits up to %s and the reader consumes up to '
                        '%s: they must agree, otherwise hex digits that '
                        'follow an escape are swallowed into the character '
                        '(or escape digits leak into the text)'
                        % (sorted(widths), lex_max,
                           read_max if read_max is not None else
                           'an unbounded number of'))
    for c in sorted(x for x in simple if x != 'DIGIT*'):
        r1.sites += 1
        ok = c in rmap
        r1.ob(ok, 'lexer:\\%s' % c, {'lexer_escape': '\\' + c,
                                     'reader_handles': ok})
        if not ok:
            rep.finding(r1, fix.qualname, '\\' + c, 'unhandled-escape', MOF,
                        fix.node.lineno,
                        'the lexer admits the escape \\%s but '
                        '_fixStringValue has no branch for it: the character '
                        'silently disappears from the compiled value' % c)
    for tok, const_name in (('sChar', 'sChar'), ('cChar', 'cChar')):
        excluded = {c for c in [chr(i) for i in range(0, 128)]
                    if not lexer_admits(c, tok == 'sChar')}
        if not excluded:
            raise AnalysisError('%s: raw-excluded class not found' % tok)
        quote = '"' if tok == 'sChar' else "'"
        for c in sorted(excluded):
            r1.sites += 1
            ok = c in wmap
            r1.ob(ok, '%s-excludes:%r' % (tok, c),
                  {'lexer_excludes_raw': repr(c), 'writer_escapes': ok})
            if not ok:
                rep.finding(r1, esc.qualname, repr(c), 'raw-forbidden', OBJ,
                            esc.node.lineno,
                            'the lexer (%s) does not accept %r unescaped but '
                            'the writer does not escape it' % (tok, c))
    # ---- R2 ---------------------------------------------------------------
    r2.sites = 1
    intro = [i for i, (a, b) in enumerate(pairs) if '\\' in b and a != '\\']
    bs = [i for i, (a, b) in enumerate(pairs) if a == '\\']
    ok = len(bs) == 1 and (not intro or bs[0] < min(intro))
    r2.ob(ok, 'backslash-first', {'chain_head': pairs[:3]})
    if not ok:
        rep.finding(r2, esc.qualname, 'replace chain', 'order', OBJ,
                    esc.node.lineno, 'backslash is not escaped before the '
                    'replacements that introduce backslashes (they would be '
                    'escaped twice)')
    # ---- R3 ---------------------------------------------------------------
    ms = repo.func(OBJ, 'mofstr')
    r3.functions.add(ms.fq)
    escaped_names = set()
    for n in walk_no_nested(ms.node):
        if isinstance(n, ast.Assign) and isinstance(n.value, ast.Call) and \
                dotted(n.value.func) == '_mof_escaped':
            escaped_names.add(norm(n.targets[0]))
    if not escaped_names:
        raise AnalysisError('mofstr: escaped value not found')
    # index variables and their definitions
    defs = {}
    for n in walk_no_nested(ms.node):
        if isinstance(n, ast.Assign) and isinstance(n.targets[0], ast.Name):
            defs.setdefault(n.targets[0].id, []).append(n)
    for n in walk_no_nested(ms.node):
        if isinstance(n, ast.Subscript) and \
                norm(n.value) in escaped_names and \
                isinstance(n.slice, ast.Slice):
            r3.sites += 1
            idx_names = {x.id for b in (n.slice.lower, n.slice.upper)
                         if b is not None for x in ast.walk(b)
                         if isinstance(x, ast.Name)}
            bad = []
            for nm in idx_names:
                for d in defs.get(nm, []):
                    v = d.value
                    searched = isinstance(v, ast.Call) and \
                        isinstance(v.func, ast.Attribute) and \
                        v.func.attr in ('rfind', 'find', 'index', 'rindex')\
                        and norm(v.func.value) in escaped_names
                    if not searched:
                        bad.append(d)
            r3.ob(not bad, 'mofstr|%s' % norm(n),
                  {'slice': norm(n),
                   'index_definitions': [norm(d) for nm in idx_names
                                         for d in defs.get(nm, [])]})
            for d in bad[:1]:
                rep.finding(r3, ms.qualname, norm(d), 'arithmetic-split',
                            OBJ, d.lineno,
                            'the escaped text is cut at a position that was '
                            'not found by searching for a blank: a word '
                            'longer than the line that contains an escape '
                            '(\\", \\\\, \\x0001) at the cut is split inside '
                            'the escape sequence and the MOF does not '
                            'compile back to the same string')
    if r3.sites == 0:
        raise AnalysisError('mofstr: no slicing of the escaped value found')
    # ---- R4 ---------------------------------------------------------------
    raw_tokens = []
    for n, f in mof.functions.items():
        if n.startswith('t_') and len(f.body) == 1 and \
                isinstance(f.body[0], ast.Return) and \
                norm(f.body[0].value) == 't' and \
                any(isinstance(d, ast.Call) for d in f.node.decorator_list):
            tname = n[2:]
            try:
                pat = fold_const(f.node.decorator_list[0].args[0], env)
            except (NotConst, IndexError):
                continue
            if pat.startswith(('"', "'")):
                raw_tokens.append(tname)
    if sorted(raw_tokens) != ['charValue', 'stringValue']:
        raise AnalysisError('quoted raw tokens: %s' % raw_tokens)
    for n, f in mof.functions.items():
        if not n.startswith('p_'):
            continue
        doc = ast.get_docstring(f.node, clean=False) or ''
        if ':' not in doc:
            continue
        rhs = doc.split(':', 1)[1]
        alts = [a.split() for a in rhs.split('|')]
        for alt in alts:
            for pos, sym in enumerate(alt):
                if sym in raw_tokens:
                    r4.sites += 1
                    r4.functions.add(f.fq)
                    unq = any(isinstance(c, ast.Call) and
                              dotted(c.func) == '_fixStringValue'
                              for c in walk_no_nested(f.node))
                    # when the action has several alternatives the call must
                    # be tied to this token (p.slice[k].type test or the
                    # alternative is the only one using p[k] raw)
                    tied = unq and (len(alts) <= 2 or any(
                        sym in norm(x, 2000) for x in walk_no_nested(f.node)
                        if isinstance(x, ast.Compare)))
                    r4.ob(tied, '%s|%s' % (n, sym),
                          {'action': n, 'token': sym, 'unquoted': tied})
                    if not tied:
                        rep.finding(r4, n, sym, 'raw-token', MOF,
                                    f.node.lineno,
                                    'the %s token reaches the value with its '
                                    'quotes and escape sequences (the lexer '
                                    'returns the raw text): e.g. a char16 '
                                    'value written by tomof() as \'a\' is '
                                    'compiled to the 3-character string '
                                    '"\'a\'"' % sym)
    # ---- R5 ---------------------------------------------------------------
    reserved = mof.consts.get('reserved')
    try:
        rtab = fold_const(reserved, env)
    except NotConst:
        raise AnalysisError('reserved table not constant')

    def alternatives(pname):
        f = mof.functions.get(pname)
        if f is None:
            raise AnalysisError(pname + ' vanished')
        doc = ast.get_docstring(f.node, clean=False) or ''
        return set(doc.split(':', 1)[1].replace('|', ' ').split())
    qd = repo.cls(OBJ, 'CIMQualifierDeclaration').methods.get('tomof')
    # the flavor keywords tomof() can write: the capitalised alphabetic
    # string constants of the function and of the private helpers it calls
    # (however they reach the joined list: appended one by one, taken from a
    # table of (attribute, keyword) tuples, ...)
    qcls = repo.cls(OBJ, 'CIMQualifierDeclaration')
    seen_f, work_f = [], [qd]
    while work_f:
        g = work_f.pop()
        if g in seen_f:
            continue
        seen_f.append(g)
        for c in walk_no_nested(g.node):
            if isinstance(c, ast.Call):
                d_ = dotted(c.func) or ''
                if d_.startswith('self._') and d_.count('.') == 1:
                    h_ = qcls.find_method(d_[5:])
                    if h_ is not None:
                        work_f.append(h_)
    flavors = []
    for g in seen_f:
        doc = ast.get_docstring(g.node, clean=False)
        for c in walk_no_nested(g.node):
            if isinstance(c, ast.Constant) and isinstance(c.value, str) and \
                    c.value != doc and \
                    re.fullmatch(r'[A-Z][a-z]+(?:[A-Z][a-z]+)*', c.value) \
                    and c.value not in flavors:
                flavors.append(c.value)
    if len(flavors) < 5:
        raise AnalysisError('flavor keywords of tomof() not found')
    falts = alternatives('p_flavor')
    for fl in flavors:
        r5.sites += 1
        tok = rtab.get(fl.lower())
        ok = tok is not None and tok in falts
        r5.ob(ok, 'flavor:' + fl, {'keyword': fl, 'token': tok})
        if not ok:
            rep.finding(r5, qd.qualname, fl, 'flavor-keyword', OBJ,
                        qd.node.lineno, 'tomof() emits flavor %s which the '
                        'compiler does not accept' % fl)
    scopes = None
    for c in repo.cls(OBJ, 'CIMQualifierDeclaration').consts.items():
        pass
    osc = repo.cls(OBJ, 'CIMQualifierDeclaration').find_const(
        '_ordered_scopes')
    try:
        scopes = fold_const(osc) if osc is not None else None
    except NotConst:
        scopes = None
    if not scopes:
        raise AnalysisError('CIMQualifierDeclaration._ordered_scopes not '
                            'found')
    salts = alternatives('p_scopeElement')
    for sc in scopes:
        r5.sites += 1
        tok = rtab.get(sc.lower())
        ok = tok is not None and tok in salts
        r5.ob(ok, 'scope:' + sc, {'keyword': sc, 'token': tok})
        if not ok:
            rep.finding(r5, qd.qualname, sc, 'scope-keyword', OBJ,
                        qd.node.lineno, 'tomof() emits scope %s which the '
                        'compiler does not accept' % sc)
    dalts = alternatives('p_dataType')
    all_types = obj.consts.get('ALL_CIMTYPES')
    types = sorted(fold_const(ast.List(elts=all_types.elts, ctx=ast.Load()))) \
        if isinstance(all_types, ast.Set) else None
    if not types:
        raise AnalysisError('ALL_CIMTYPES not found')
    for t in types:
        if t == 'reference':
            continue
        r5.sites += 1
        tok = rtab.get(t)
        ok = tok is not None and tok in dalts
        r5.ob(ok, 'type:' + t, {'type': t, 'token': tok})
        if not ok:
            rep.finding(r5, 'moftype', t, 'type-keyword', OBJ, 0,
                        'data type %s written by tomof() is not a dataType '
                        'alternative of the compiler' % t)


def _r7_instance_values(repo, rep):
    """C08.R7: in the grammar action that builds an instance, an element that
    starts as a copy of the class declaration's element (and therefore holds
    the class default) is stored into the instance only after its value was
    assigned from the instance MOF - on every path, including the NULL
    initializer.  Otherwise `P = NULL;` (which tomof() writes for every
    NULL property) recompiles to the class default."""
    from ..cfg import CFG
    r7 = rep.rule('C08.R7', 'instance property values come from the instance '
                  'MOF, never from the class default')
    f = repo.func(MOF, 'p_instanceDeclaration')
    r7.functions.add(f.fq)
    cfg = CFG(f.node)
    copies = {}
    for st in cfg.stmts():
        if isinstance(st, ast.Assign) and len(st.targets) == 1 and \
                isinstance(st.targets[0], ast.Name) and \
                isinstance(st.value, ast.Call) and \
                isinstance(st.value.func, ast.Attribute) and \
                st.value.func.attr == 'copy':
            copies[st.targets[0].id] = st
    stores = []
    for st in cfg.stmts():
        if isinstance(st, ast.Assign) and len(st.targets) == 1 and \
                isinstance(st.targets[0], ast.Subscript) and \
                norm(st.targets[0].value).endswith('.properties') and \
                isinstance(st.value, ast.Name) and st.value.id in copies:
            stores.append(st)
    if not stores:
        raise AnalysisError('p_instanceDeclaration: the statement storing a '
                            'copied class property into the instance was not '
                            'found')
    for st in stores:
        var = st.value.id
        r7.sites += 1

        def sets_value(n, var=var):
            return isinstance(n, ast.Assign) and any(
                isinstance(t, ast.Attribute) and t.attr == 'value' and
                isinstance(t.value, ast.Name) and t.value.id == var
                for t in n.targets)
        wit = cfg.path_avoiding(copies[var], st, sets_value)
        ok = wit is None
        r7.ob(ok, var, {'copied_from_class': norm(copies[var]),
                        'stored': norm(st), 'value_assigned_on_every_path':
                        ok})
        if not ok:
            conds = [norm(n.test, 50) for n in wit if isinstance(n, ast.If)]
            rep.finding(r7, f.qualname, '%s.value' % var, 'default-kept',
                        MOF, st.lineno,
                        'there is a path from %s to %s on which %s.value is '
                        'not assigned (through: %s): an instance property '
                        'given as NULL keeps the default value of the class '
                        'declaration, so the MOF written by tomof() does not '
                        'recompile to the same instance'
                        % (norm(copies[var]), norm(st), var,
                           ' / '.join(conds[-3:]) or 'straight line'))


def grammar_productions(mof):
    """{action name: (lhs, [alternative symbol lists], Func)} from the
    docstrings of the p_* grammar actions"""
    prods = {}
    for n, f in mof.functions.items():
        if not n.startswith('p_') or n == 'p_error':
            continue
        doc = ast.get_docstring(f.node, clean=False) or ''
        if ':' not in doc:
            continue
        lhs, rhs = doc.split(':', 1)
        prods[n] = (lhs.strip(), [a.split() for a in rhs.split('|')], f)
    return prods


def _r8_symbols_consumed(repo, rep, rid='C08.R8', exempt=None):
    """C08.R8: a grammar action reads the semantic value of every
    value-carrying symbol of each of its alternatives (on a branch that is
    compatible with that alternative's length).  A symbol that is parsed
    but not read is silently dropped from the compiled object - e.g. the
    `array` size of one of the four sibling parameter rules - although
    tomof() writes it."""
    import re as _re
    from ..cfg import stmt_facts, GuardWalker
    r8 = rep.rule(rid, 'every value-carrying grammar symbol is read by '
                  'its action')
    mof = repo.module(MOF)
    prods = grammar_productions(mof)
    if len(prods) < 60:
        raise AnalysisError('only %d grammar actions found' % len(prods))
    by_lhs = {}
    for n, (lhs, alts, f) in prods.items():
        by_lhs.setdefault(lhs, []).append(f)

    def carries(sym):
        if sym.startswith("'"):
            return False
        if sym in by_lhs:
            for f in by_lhs[sym]:
                for a in walk_no_nested(f.node):
                    if isinstance(a, ast.Assign) and \
                            norm(a.targets[0]) == 'p[0]' and \
                            not isinstance(a.value, ast.Constant):
                        return True
            return False
        return sym[0].islower()      # value tokens; keywords are upper case

    kind_memo = {}

    def kind(sym, depth=0):
        """'list' / 'str' / None: python type of the symbol's semantic
        value, as far as the actions make it evident"""
        if sym in kind_memo:
            return kind_memo[sym]
        if sym.startswith("'"):
            return 'str'
        if sym not in by_lhs:
            return 'str'                    # token text
        if depth > 6:
            return None
        kind_memo[sym] = None               # recursion guard
        kinds = set()
        for n_, (lhs_, alts_, f_) in prods.items():
            if lhs_ != sym:
                continue
            for a in walk_no_nested(f_.node):
                if not (isinstance(a, ast.Assign) and
                        norm(a.targets[0]) == 'p[0]'):
                    continue
                v = a.value
                if isinstance(v, (ast.List, ast.ListComp)) or (
                        isinstance(v, ast.BinOp) and
                        isinstance(v.op, ast.Add) and
                        any(isinstance(x, ast.List)
                            for x in (v.left, v.right))):
                    kinds.add('list')
                elif isinstance(v, ast.Subscript) and \
                        norm(v.value) == 'p' and \
                        isinstance(v.slice, ast.Constant):
                    k_ = v.slice.value
                    sub = {kind(alt_[k_ - 1], depth + 1) for alt_ in alts_
                           if 0 < k_ <= len(alt_)}
                    kinds |= sub
                elif isinstance(v, ast.Constant) and \
                        isinstance(v.value, str):
                    kinds.add('str')
                elif isinstance(v, ast.Call) and \
                        isinstance(v.func, ast.Attribute) and \
                        v.func.attr in ('lower', 'upper', 'strip', 'join'):
                    kinds.add('str')
                else:
                    kinds.add(None)
        res = kinds.pop() if len(kinds) == 1 else None
        kind_memo[sym] = res
        return res

    def compat(lens, n1, alt=None):
        for item in lens:
            if item[0] == 'isinstance':
                _x, j, tname, q = item
                if alt is None or not 0 < j <= len(alt):
                    continue
                k_ = kind(alt[j - 1])
                if k_ is None or tname not in ('list', 'str'):
                    continue
                if (k_ == tname) != q:
                    return False
                continue
            op, v, q = item
            r = {'==': n1 == v, '!=': n1 != v, '>': n1 > v, '>=': n1 >= v,
                 '<': n1 < v, '<=': n1 <= v}[op]
            if r != q:
                return False
        return True
    for n, (lhs, alts, f) in sorted(prods.items()):
        r8.functions.add(f.fq)
        reads = {}
        generic = False
        from ..inline import Flat
        from ..cfg import expr_guards
        for st, (facts, _t) in stmt_facts(Flat(f).node).items():
            if isinstance(st, (ast.If, ast.While)):
                exprs = [st.test]
            elif isinstance(st, ast.For):
                exprs = [st.iter]
            elif isinstance(st, (ast.Try, ast.With)):
                exprs = []
            else:
                exprs = [st]
            lens = set()
            for t, pol in facts:
                for a, q in GuardWalker._atoms(t, pol):
                    m = _re.fullmatch(r'len\(p\) (==|!=|>|>=|<|<=) (\d+)',
                                      norm(a))
                    if m:
                        lens.add((m.group(1), int(m.group(2)), q))
                    m2 = _re.fullmatch(r'isinstance\(p\[(\d+)\], (\w+)\)',
                                       norm(a))
                    if m2:
                        lens.add(('isinstance', int(m2.group(1)),
                                  m2.group(2), q))
            def lens_of(fact_list):
                out_ = set()
                for t, pol in fact_list:
                    for a, q in GuardWalker._atoms(t, pol):
                        m = _re.fullmatch(
                            r'len\(p\) (==|!=|>|>=|<|<=) (\d+)', norm(a))
                        if m:
                            out_.add((m.group(1), int(m.group(2)), q))
                        m2 = _re.fullmatch(
                            r'isinstance\(p\[(\d+)\], (\w+)\)', norm(a))
                        if m2:
                            out_.add(('isinstance', int(m2.group(1)),
                                      m2.group(2), q))
                return out_
            for e in exprs:
                # `p[k] == '{'` / isinstance(p[k], str) tell the
                # alternatives apart; they do not use the symbol's value
                discr = set()
                for c_ in ast.walk(e):
                    if isinstance(c_, ast.Compare) and len(c_.ops) == 1 and \
                            isinstance(c_.ops[0], (ast.Eq, ast.NotEq)):
                        a_, b_ = c_.left, c_.comparators[0]
                        for u_, w_ in ((a_, b_), (b_, a_)):
                            if isinstance(w_, ast.Constant) and \
                                    isinstance(w_.value, str) and \
                                    not (w_.value[:1].isalnum() or
                                         w_.value[:1] == '_'):
                                discr.add(id(u_))
                    elif isinstance(c_, ast.Call) and \
                            dotted(c_.func) == 'isinstance' and c_.args:
                        discr.add(id(c_.args[0]))
                for x in ast.walk(e):
                    if id(x) in discr:
                        continue
                    if isinstance(x, ast.Subscript) and \
                            norm(x.value) == 'p' and \
                            isinstance(x.ctx, ast.Load):
                        if isinstance(x.slice, ast.Constant) and \
                                isinstance(x.slice.value, int):
                            # conditions inside the expression (conditional
                            # expressions, and/or) guard the read as well
                            inner = lens_of(expr_guards(e, x))
                            reads.setdefault(x.slice.value, []).append(
                                lens | inner)
                        else:
                            generic = True
                    elif isinstance(x, ast.Call) and any(
                            isinstance(a, ast.Name) and a.id == 'p'
                            for a in x.args) and \
                            (dotted(x.func) or '') in ('list', 'tuple',
                                                       'len') and \
                            dotted(x.func) != 'len':
                        generic = True
        for alt in alts:
            n1 = len(alt) + 1
            for k, sym in enumerate(alt, 1):
                if not carries(sym):
                    continue
                r8.sites += 1
                ok = generic or any(compat(l, n1, alt)
                                    for l in reads.get(k, []))
                if not ok and exempt and (n, sym) in exempt:
                    # one named symbol of one action, with the reason why
                    # dropping it cannot affect this property
                    r8.notes.append('%s %s: not judged here - %s'
                                    % (n, sym, exempt[(n, sym)]))
                    ok = True
                r8.ob(ok, '%s|%s|%d' % (n, ' '.join(alt), k))
                if not ok:
                    rep.finding(r8, n, '%s : %s' % (lhs, ' '.join(alt)),
                                'p[%d] %s' % (k, sym), MOF, f.node.lineno,
                                'the value of symbol %s (p[%d]) of the '
                                'alternative "%s" is never read by the '
                                'action: what the MOF text says there is '
                                'dropped from the compiled object, so MOF '
                                'written by tomof() does not recompile to '
                                'the same object' % (sym, k, ' '.join(alt)))
    if r8.sites < 150:
        raise AnalysisError('C08.R8: only %d value-carrying symbols'
                            % r8.sites)


def _r15_keywords_usable_as_names(repo, rep):
    """C08.R15: tomof() writes element names as they are, and the lexer
    turns every word listed in `reserved` into its keyword token.  A name
    spelled like a keyword (a property called Scope, Flavor, ToInstance ...)
    therefore recompiles only if the `identifier` rule lists that token as
    an alternative - directly, or through a non-terminal whose alternatives
    are single tokens (dataType).  The lexer table and the grammar rule are
    two lists that must agree; the words that stay reserved are the ones
    the grammar cannot tell from a value or a structural keyword in name
    position, frozen here with their reason."""
    r15 = rep.rule('C08.R15', 'every keyword token of the lexer is accepted '
                   'as an element name by the identifier rule')
    STAY_RESERVED = {
        'TRUE': 'boolean literal', 'FALSE': 'boolean literal',
        'NULL': 'null literal',
        'REF': 'follows a class name in a reference declaration',
        'ASSOCIATION': 'qualifier name / scope keyword with its own '
                       'alternative in qualifierName',
        'INDICATION': 'qualifier name / scope keyword with its own '
                      'alternative in qualifierName',
    }
    mof = repo.module(MOF)
    res = mof.consts.get('reserved')
    if not isinstance(res, ast.Dict):
        raise AnalysisError('_mof_compiler.reserved (lexer keyword table) '
                            'not found')
    toks = [v.value for v in res.values if isinstance(v, ast.Constant)]
    prods = grammar_productions(mof)
    by_lhs = {}
    for n, (lhs, alts, f) in prods.items():
        by_lhs.setdefault(lhs, []).extend(alts)
    if 'identifier' not in by_lhs:
        raise AnalysisError('grammar rule `identifier` not found')
    accepted, todo, seen = set(), ['identifier'], set()
    while todo:
        nt = todo.pop()
        if nt in seen:
            continue
        seen.add(nt)
        for alt in by_lhs.get(nt, ()):
            if len(alt) != 1:
                continue
            if alt[0] in by_lhs:
                todo.append(alt[0])
            else:
                accepted.add(alt[0])
    f = prods[[n for n, v in prods.items() if v[0] == 'identifier'][0]][2]
    r15.functions.add(f.fq)
    for t in toks:
        r15.sites += 1
        ok = t in accepted or t in STAY_RESERVED
        r15.ob(ok, 'token:' + t, {'token': t, 'as_identifier': t in accepted,
                                  'reserved_because': STAY_RESERVED.get(t)})
        if not ok:
            rep.finding(r15, f.name, 'identifier : ... | %s' % t,
                        'keyword-not-a-name', MOF, f.node.lineno,
                        'the lexer makes the word %r the token %s, and the '
                        'identifier rule does not list it: an element named '
                        'like that is written by tomof() as it is and the '
                        'MOF does not compile (grammar error)'
                        % ([k.value for k, v in zip(res.keys, res.values)
                            if isinstance(v, ast.Constant) and
                            v.value == t][0], t))
    if len(toks) < 30:
        raise AnalysisError('C08.R15: only %d keyword tokens' % len(toks))


def _r9_array_braces(repo, rep):
    """C08.R9: tomof() writes the `{ ... }` array initialiser only for a
    value that is a list.  Whether the element is *declared* as an array
    (is_array) is a different question: an array-typed property of an
    instance whose whole value is NULL must be written `= NULL`; written as
    `{ NULL }` it recompiles to the one-element array [None]."""
    from ..cfg import stmt_facts, GuardWalker
    r9 = rep.rule('C08.R9', 'the array initialiser braces are written for '
                  'list values only')
    obj = repo.module(OBJ)
    for f in obj.all_funcs():
        if 'tomof' not in f.name:
            continue
        from ..cfg import expr_guards
        braces = []
        for st, (fs, _t) in stmt_facts(f.node).items():
            if isinstance(st, (ast.If, ast.For, ast.While, ast.Try,
                               ast.With)):
                continue
            if isinstance(st, ast.Expr) and \
                    isinstance(st.value, ast.Constant):
                continue                    # docstring
            # an opening brace written as MOF text: appended, put into a
            # list literal, or bound to a local that is written later
            for cn in ast.walk(st):
                if isinstance(cn, ast.Constant) and \
                        isinstance(cn.value, str) and '{' in cn.value and \
                        '\n' not in cn.value and \
                        not any(isinstance(x, ast.Call) and
                                dotted(x.func) in ('_format', 'format') and
                                any(cn is y for y in ast.walk(x))
                                for x in ast.walk(st)):
                    braces.append((st, list(fs) + list(expr_guards(st, cn))))
        for st, fs in braces:
            r9.sites += 1
            r9.functions.add(f.fq)
            ok = False
            for t, p in fs:
                for a, q in GuardWalker._atoms(t, p):
                    if q and isinstance(a, ast.Call) and \
                            dotted(a.func) == 'isinstance' and \
                            len(a.args) == 2 and \
                            set(norm(x) for x in (
                                a.args[1].elts if isinstance(
                                    a.args[1], ast.Tuple) else [a.args[1]])
                                ) <= {'list', 'tuple'}:
                        ok = True
            r9.ob(ok, f.qualname, {'guards': [norm(t, 50) for t, _p in fs]})
            if not ok:
                rep.finding(r9, f.qualname, norm(st, 60), 'braces-not-by-value',
                            OBJ, st.lineno,
                            'the opening brace of the array initialiser is '
                            'written without an isinstance(value, list) test '
                            '(conditions: %s): an array-typed element whose '
                            'value is NULL is written as `{ NULL }`, which '
                            'recompiles to [None] instead of NULL'
                            % ([norm(t, 40) for t, _p in fs] or 'none'))
    if r9.sites < 2:
        raise AnalysisError('C08.R9: only %d array initialiser sites'
                            % r9.sites)


def _r10_values_not_defaulted_by_truth(repo, rep):
    """C08.R10: a value written in the MOF is replaced by a default only
    when it is absent (`is None`), never because it is false.  0, 0.0, ""
    and { } are values tomof() writes and the compiler accepts; a grammar
    action that computes the value of the object it builds as `given or
    default` - or re-binds it under `if not value:` - gives the element the
    default (or NULL) instead of the written value."""
    from ..cfg import stmt_facts
    r10 = rep.rule('C08.R10', 'values handed to CIM object constructors in '
                   'grammar actions are not defaulted by truthiness')
    m = repo.module(MOF)
    CTORS = ('CIMQualifier', 'CIMProperty', 'CIMParameter',
             'CIMQualifierDeclaration', 'CIMMethod')
    n = 0
    for name, f in sorted(m.functions.items()):
        if not name.startswith('p_'):
            continue
        for c in walk_no_nested(f.node):
            if not (isinstance(c, ast.Call) and dotted(c.func) in CTORS):
                continue
            cls = repo.find_class(dotted(c.func))
            init = cls.find_method('__init__') if cls else None
            if init is None:
                continue
            ps = [p_ for p_ in init.params if p_ != 'self']
            if 'value' not in ps:
                continue
            vi = ps.index('value')
            v = c.args[vi] if len(c.args) > vi else kwarg(c, 'value')
            if v is None:
                continue
            n += 1
            r10.sites += 1
            r10.functions.add(f.fq)
            bad = []

            def value_ors(e):
                """`a or b` in value position of e"""
                if isinstance(e, ast.BoolOp) and isinstance(e.op, ast.Or):
                    return [e]
                if isinstance(e, ast.IfExp):
                    return value_ors(e.body) + value_ors(e.orelse)
                return []
            bad += [(x, 'or') for x in value_ors(v)]
            if isinstance(v, ast.Name):
                for st, (facts, _t) in stmt_facts(f.node).items():
                    if not (isinstance(st, ast.Assign) and
                            any(isinstance(t, ast.Name) and t.id == v.id
                                for t in st.targets)):
                        continue
                    bad += [(x, 'or') for x in value_ors(st.value)]
                    for t, pol in facts:
                        if isinstance(t, ast.Name) and t.id == v.id:
                            bad.append((st, 'if %s%s' % (
                                '' if pol else 'not ', v.id)))
            r10.ob(not bad, '%s|%s' % (name, norm(c, 50)),
                   {'value': norm(v, 40)})
            for x, how in bad[:1]:
                rep.finding(r10, name, norm(x, 70), 'truthiness-default',
                            MOF, x.lineno,
                            'the value of the %s built here is decided by '
                            'the truth of the written value (%s): a written '
                            '0, 0.0, "" or { } is replaced by the default / '
                            'NULL, so the element tomof() printed does not '
                            'come back with its value'
                            % (dotted(c.func), how))
    if n < 4:
        raise AnalysisError('C08.R10: only %d constructor calls with a value '
                            'in the grammar actions' % n)


def _r13_declaration_cache_follows_repository(repo, rep):
    """C08.R13: the parser types every qualifier *value* (cimvalue(value,
    decl.type)) and takes its flavors from the qualifier declaration in
    parser.qualcache, not from the repository.  A grammar action that
    stores a declaration in the repository (handle.SetQualifier(decl))
    therefore stores the same declaration in the cache on every way out -
    unconditionally: a cache entry that survives a re-declaration
    (`setdefault`, `if name not in cache`) makes all later elements that
    use the qualifier get the old type and flavors, so text produced by
    tomof() (declarations followed by their uses) no longer recompiles to
    equal objects."""
    from ..paths import return_paths
    from ..inline import Flat
    r13 = rep.rule('C08.R13', 'a qualifier declaration written to the '
                   'repository replaces the cached declaration')
    n = 0
    for f in repo.module(MOF).all_funcs():
        # the grammar actions (p_...), with their private helpers inlined
        if f.cls is not None or not f.name.startswith('p_'):
            continue
        sets = [c for c in walk_no_nested(Flat(f).node)
                if isinstance(c, ast.Call) and
                isinstance(c.func, ast.Attribute) and
                c.func.attr == 'SetQualifier' and c.args and
                'handle' in norm(c.func.value)]
        if not sets:
            continue
        decls = {norm(c.args[0]) for c in sets}
        n += 1
        r13.sites += 1
        r13.functions.add(f.fq)
        paths = return_paths(Flat(f), max_paths=200)
        if not paths:
            raise AnalysisError('%s: paths not enumerable' % f.qualname)
        for p_ in paths:
            if not any(isinstance(c, ast.Call) and
                       isinstance(c.func, ast.Attribute) and
                       c.func.attr == 'SetQualifier'
                       for st in p_.effects for c in ast.walk(st)):
                continue
            stores = [st for st in p_.effects
                      if isinstance(st, ast.Assign) and
                      len(st.targets) == 1 and
                      isinstance(st.targets[0], ast.Subscript) and
                      'qualcache' in norm(p_.resolve(
                          st.targets[0].value)) and
                      norm(p_.resolve(st.value)) in decls | {
                          norm(p_.resolve(ast.parse(d, mode='eval').body))
                          for d in decls}]
            # a store that only runs when the name is not cached yet is not
            # a replacement
            cond = [t for t, pol in p_.facts
                    if isinstance(t, ast.Compare) and len(t.ops) == 1 and
                    isinstance(t.ops[0], (ast.In, ast.NotIn)) and
                    'qualcache' in norm(t.comparators[0])]
            ok = bool(stores) and not cond
            r13.ob(ok, '%s|path' % f.qualname)
            if not ok:
                rep.finding(r13, f.qualname, 'qualcache[ns][%s]' % sorted(
                    decls)[0], 'cache-not-replaced', MOF, f.node.lineno,
                    'after handle.SetQualifier(%s) the declaration is not '
                    'stored in parser.qualcache unconditionally (%s): a '
                    're-declared qualifier keeps its old type and flavors '
                    'for every element compiled afterwards'
                    % (sorted(decls)[0],
                       'conditional on ' + norm(cond[0], 50) if cond
                       else 'no item store on this path'))
                break
    if n < 1:
        raise AnalysisError('C08.R13: no grammar action calls '
                            'handle.SetQualifier()')


def _r11_keyword_by_own_attribute(repo, rep):
    """C08.R11: whether tomof() writes a MOF keyword (a flavor name, Scope,
    Flavor, ...) depends on one attribute of the object only.  Each keyword
    stands for the state of one attribute (Translatable for translatable,
    EnableOverride / DisableOverride for overridable, ...); a second
    attribute in the condition (`self.translatable and self.type ==
    'string'`) makes the generator drop the keyword for objects that carry
    the attribute, and the compiled element comes back without it."""
    from ..cfg import stmt_facts
    r11 = rep.rule('C08.R11', 'a keyword written by tomof() is decided by '
                   'one attribute of the object')
    m = repo.module(OBJ)
    for c in sorted(m.classes.values(), key=lambda c_: c_.name):
        f = c.methods.get('tomof')
        if f is None:
            continue
        for st, (fs, _t) in stmt_facts(f.node).items():
            if not (isinstance(st, ast.Expr) and
                    isinstance(st.value, ast.Call) and
                    isinstance(st.value.func, ast.Attribute) and
                    st.value.func.attr in ('append', 'extend') and
                    st.value.args):
                continue
            lit = const_str(st.value.args[0])
            if lit is None or not re.fullmatch(r'\s*[A-Za-z][A-Za-z ]*\(?\s*',
                                               lit):
                continue
            attrs = set()
            for t, _pol in fs:
                for x in ast.walk(t):
                    if isinstance(x, ast.Attribute) and \
                            isinstance(x.value, ast.Name) and \
                            x.value.id == 'self':
                        attrs.add(x.attr)
            r11.sites += 1
            r11.functions.add(f.fq)
            ok = len(attrs) <= 1
            r11.ob(ok, '%s|%s' % (c.name, lit.strip()),
                   {'decided_by': sorted(attrs)})
            if not ok:
                rep.finding(r11, f.qualname, norm(st, 60),
                            'keyword-by-several-attributes', OBJ, st.lineno,
                            'the keyword %r is written only under a '
                            'condition on several attributes %s: an object '
                            'that has the attribute the keyword stands for '
                            'is printed without it (and compiles back '
                            'without it) depending on an unrelated '
                            'attribute' % (lit.strip(), sorted(attrs)))
    if r11.sites < 3:
        raise AnalysisError('C08.R11: only %d keyword literals in the '
                            'tomof() methods' % r11.sites)
