"""C10 - the mock server's instance store is a faithful keyed map.
Decides the ownership / copy discipline of the object stores."""
import ast

from ..stores import store_kind
from ..model import AnalysisError, walk_no_nested, dotted, norm, kwarg
from ..cfg import CFG, stmt_facts

EXPLANATION = (
    "Ownership/copy discipline of the mock repository, decided on the AST: "
    "(R1) every assignment into InMemoryObjectStore._data stores "
    "deepcopy(<argument>); (R2) every return/yield of an element of _data "
    "is deepcopy(...) except on the explicit copy=False branch, iter_names "
    "copies mutable names; (R3) at each of the copy=False call sites in "
    "pywbem_mock the borrowed object is only read: not returned, yielded, "
    "put into a result container, assigned to, or passed to a mutator; a "
    "function whose `copy` parameter is passed through is judged at its own "
    "call sites; (R4) every store write uses as key the name/path of the "
    "very object it writes; (R5) ProviderDispatcher.CreateInstance/"
    "ModifyInstance and MainProvider.CreateClass/ModifyClass deep-copy the "
    "caller's object before any mutation (the copy dominates every store of "
    "the mutated name on the CFG), and objects handed out by GetInstance/"
    "Enumerate* come from copying reads; (R6) the instance store is keyed by "
    "CIMInstanceName objects (case/order-insensitive hash and eq, see C05), "
    "membership tests use those objects; (R7) error messages of the "
    "instance providers can be built; (R8) in the instance operations of "
    "the providers and the store, CIM names (class names, property names of "
    "PropertyList, key names) are compared and looked up case-insensitively "
    "(case-kind abstract interpretation, same engine as C12/C13). Does not "
    "decide that results and "
    "status codes equal a reference map for every history.")
ASSUMPTIONS = [
    "copy.deepcopy yields an independent object graph",
    "functions the borrowed object is passed to as an argument only read it "
    "(is_association, from_instance, ...; listed in evidence)",
]

STORE = 'pywbem_mock/_inmemoryrepository.py'
MOCK_FILES = ['pywbem_mock/_mainprovider.py',
              'pywbem_mock/_instancewriteprovider.py',
              'pywbem_mock/_providerdispatcher.py',
              'pywbem_mock/_baseprovider.py',
              'pywbem_mock/_wbemconnection_mock.py',
              'pywbem_mock/_namespaceprovider.py',
              'pywbem_mock/_subscriptionproviders.py',
              'pywbem_mock/_methodprovider.py',
              'pywbem_mock/_mockmofwbemconnection.py',
              'pywbem_mock/_resolvermixin.py']
MUTATORS = {'update', 'append', 'extend', 'pop', 'clear', 'setdefault',
            'remove', 'insert', 'update_existing', '__setitem__',
            '__delitem__'}


def is_deepcopy(v):
    return isinstance(v, ast.Call) and dotted(v.func) in ('deepcopy',
                                                          'copy.deepcopy')


def run(repo, rep, tier):
    from .c12 import namespace_validated_first
    typed_property_transfer(repo, rep)
    swallowed_error_does_not_cut_a_loop(repo, rep)
    # the operation acts on the namespace the caller named: an explicit
    # namespace= is not replaced by the namespace of the object argument
    # (CreateInstance / ModifyInstance / DeleteInstance run through the
    # WBEMConnection methods also on the mock connection)
    from .c04 import explicit_namespace_wins
    explicit_namespace_wins(repo, rep, 'C10.R18')
    already_exists_means_key_exists(repo, rep)
    modified_instance_keeps_its_path(repo, rep)
    from ..argorder import argument_order_rule
    argument_order_rule(repo, rep, 'C10.R14', tuple(
        m.relpath for m in repo.modules.values()
        if m.relpath.startswith('pywbem_mock/') and m.relpath not in (
            'pywbem_mock/_mainprovider.py',
            'pywbem_mock/_wbemconnection_mock.py')), 60)
    namespace_validated_first(repo, rep, 'C10.R12', lambda n: n in ('EnumerateInstances', 'EnumerateInstanceNames'))
    r1 = rep.rule('C10.R1', 'stores copy on the way in')
    r2 = rep.rule('C10.R2', 'stores copy on the way out')
    r3 = rep.rule('C10.R3', 'borrowed references are only read')
    r4 = rep.rule('C10.R4', 'store writes are keyed by the written object')
    r5 = rep.rule('C10.R5', 'arguments are copied before providers mutate '
                  'them')
    r6 = rep.rule('C10.R6', 'instance store keyed by path objects')
    r7 = rep.rule('C10.R7', 'error messages of the instance providers can be '
                  'built')
    r8 = rep.rule('C10.R8', 'class, property and key names in the instance '
                  'operations are compared case-insensitively')
    r8b = rep.rule('C10.R8b', 'no uncalled string method in a comparison')
    st = repo.cls(STORE, 'InMemoryObjectStore')
    # ---- R1 ---------------------------------------------------------------
    from ..inline import Flat

    def through_locals(fnode, e):
        """the expression a local that is assigned once stands for"""
        for _ in range(3):
            if not isinstance(e, ast.Name):
                break
            ds = [x.value for x in walk_no_nested(fnode)
                  if isinstance(x, ast.Assign) and len(x.targets) == 1 and
                  isinstance(x.targets[0], ast.Name) and
                  x.targets[0].id == e.id]
            if len(ds) != 1:
                break
            e = ds[0]
        return e
    for m in st.methods.values():
        mflat = Flat(m)
        for n in walk_no_nested(mflat.node):
            if isinstance(n, ast.Assign):
                for t in n.targets:
                    if isinstance(t, ast.Subscript) and \
                            dotted(t.value) == 'self._data':
                        r1.sites += 1
                        r1.functions.add(m.fq)
                        val = through_locals(mflat.node, n.value)
                        ok = is_deepcopy(val) and val.args and \
                            isinstance(val.args[0], ast.Name) and \
                            val.args[0].id in m.params
                        r1.ob(ok, m.qualname, {'method': m.qualname,
                                               'stores': norm(n)})
                        if not ok:
                            rep.finding(r1, m.qualname, norm(n), 'no-copy',
                                        STORE, n.lineno,
                                        'the store keeps the caller\'s '
                                        'object: changing it afterwards '
                                        'changes the repository')
    if r1.sites < 2:
        raise AnalysisError('InMemoryObjectStore: writes to _data not found')
    # R1b: a NEW key is owned by the store (the caller keeps the name object
    # it passed - CreateInstance returns it to the client); assigning to an
    # existing key keeps the dict's own key object
    for m in st.methods.values():
        mflat = Flat(m)
        facts = stmt_facts(mflat.node)
        for n, (fs, _) in facts.items():
            if not isinstance(n, ast.Assign):
                continue
            for t in n.targets:
                if not (isinstance(t, ast.Subscript) and
                        dotted(t.value) == 'self._data'):
                    continue
                r1.sites += 1
                key = through_locals(mflat.node, t.slice)
                kname = norm(t.slice)
                existing = any(
                    (not pol and norm(c) == '%s not in self._data' % kname) or
                    (pol and norm(c) == '%s in self._data' % kname)
                    for c, pol in fs)
                fresh = is_deepcopy(key)
                ok = existing or fresh
                r1.ob(ok, m.qualname + ':key',
                      {'method': m.qualname, 'key': kname,
                       'key_exists_already': existing, 'key_copied': fresh})
                if not ok:
                    rep.finding(r1, m.qualname, 'self._data[%s]' % kname,
                                'key-not-copied', STORE, n.lineno,
                                'a new entry is keyed by the caller\'s name '
                                'object: CreateInstance returns that same '
                                'path to the client, and changing it '
                                'afterwards changes the key inside the '
                                'repository (stale hash: the instance can no '
                                'longer be found)')
    # ---- R2 ---------------------------------------------------------------
    for m in st.methods.values():
        facts = stmt_facts(m.node)
        for s, (fs, _) in facts.items():
            vals = []
            if isinstance(s, ast.Return) and s.value is not None:
                vals.append(s.value)
            if isinstance(s, ast.Expr) and isinstance(s.value, (ast.Yield,)) \
                    and s.value.value is not None:
                vals.append(s.value.value)
            for v in vals:
                data_elem = (isinstance(v, ast.Subscript) and
                             dotted(v.value) == 'self._data') or \
                    (isinstance(v, ast.Name) and v.id in ('value', 'name'))
                if not data_elem:
                    continue
                r2.sites += 1
                r2.functions.add(m.fq)
                nocopy = any((not pol and norm(t) == 'copy') or
                             (not pol and norm(t) == 'self._copy_names')
                             for t, pol in fs)
                ok = nocopy
                r2.ob(ok, '%s|%s' % (m.qualname, norm(s)),
                      {'method': m.qualname, 'hands_out': norm(s),
                       'under_copy_False': nocopy})
                if not ok:
                    rep.finding(r2, m.qualname, norm(s), 'uncopied', STORE,
                                s.lineno, 'an object of the repository is '
                                'handed out without deepcopy outside the '
                                'explicit copy=False branch')
            for v in vals:
                if is_deepcopy(v) or (isinstance(v, ast.Call) and
                                      isinstance(v.func, ast.Attribute) and
                                      v.func.attr == 'copy'):
                    r2.sites += 1
                    r2.ob(True, '%s|%s' % (m.qualname, norm(s)),
                          {'method': m.qualname, 'hands_out': norm(s)})
    for mn in ('get', 'iter_values'):
        m = st.methods.get(mn)
        if m is None:
            raise AnalysisError('InMemoryObjectStore.%s vanished' % mn)
        d = m.param_defaults().get('copy')
        ok = d is not None and norm(d) == 'True'
        r2.ob(ok, mn + ':default-copy')
        if not ok:
            rep.finding(r2, m.qualname, 'copy=%s' % norm(d), 'default',
                        STORE, m.node.lineno, 'copy does not default to True')
    # R2b: names from iter_names() are only middle-deep copies
    # (CIMInstanceName.copy() shares reference-typed key values with the
    # store's key): they must not be handed to the client
    shallow_out = any(
        isinstance(n, ast.Expr) and isinstance(n.value, ast.Yield) and
        isinstance(n.value.value, ast.Call) and
        isinstance(n.value.value.func, ast.Attribute) and
        n.value.value.func.attr == 'copy'
        for n in ast.walk(st.methods['iter_names'].node)) \
        if 'iter_names' in st.methods else False
    if 'iter_names' not in st.methods:
        raise AnalysisError('InMemoryObjectStore.iter_names vanished')
    nn = 0
    for path in MOCK_FILES:
        for f in repo.module(path).all_funcs():
            mids = {}
            for n in ast.walk(f.node):
                it = tgt = None
                if isinstance(n, (ast.For, ast.comprehension)):
                    it, tgt = n.iter, n.target
                if it is None or not (isinstance(it, ast.Call) and
                                      isinstance(it.func, ast.Attribute) and
                                      it.func.attr == 'iter_names'):
                    continue
                recv = norm(it.func.value)
                if 'inst' not in recv.lower():
                    continue        # class / qualifier stores: str names
                if isinstance(tgt, ast.Name):
                    mids[tgt.id] = n
            if not mids:
                continue
            nn += 1
            r2.sites += 1
            r2.functions.add(f.fq)

            def tainted(e, mids=mids):
                if is_deepcopy(e):
                    return False
                if isinstance(e, ast.Name):
                    return e.id in mids
                if isinstance(e, ast.Call) and \
                        isinstance(e.func, ast.Attribute) and \
                        e.func.attr == 'copy':
                    return tainted(e.func.value)
                if isinstance(e, (ast.ListComp, ast.GeneratorExp,
                                  ast.SetComp)):
                    return tainted(e.elt)
                if isinstance(e, (ast.List, ast.Tuple)):
                    return any(tainted(x) for x in e.elts)
                return False
            # propagate through simple assignments / appends
            changed = True
            while changed:
                changed = False
                for n in ast.walk(f.node):
                    if isinstance(n, ast.Assign) and tainted(n.value):
                        for t in n.targets:
                            if isinstance(t, ast.Name) and t.id not in mids:
                                mids[t.id] = n
                                changed = True
                    if isinstance(n, ast.Call) and \
                            isinstance(n.func, ast.Attribute) and \
                            n.func.attr in ('append', 'extend') and n.args \
                            and tainted(n.args[0]) and \
                            isinstance(n.func.value, ast.Name) and \
                            n.func.value.id not in mids:
                        mids[n.func.value.id] = n
                        changed = True
            for n in walk_no_nested(f.node):
                v = None
                if isinstance(n, ast.Return):
                    v = n.value
                elif isinstance(n, ast.Expr) and \
                        isinstance(n.value, (ast.Yield, ast.YieldFrom)):
                    v = n.value.value
                if v is None:
                    continue
                ok = not (shallow_out and tainted(v))
                r2.ob(ok, '%s|%s' % (f.qualname, norm(n, 60)),
                      {'function': f.qualname, 'returns': norm(n, 80),
                       'iter_names_is_middle_deep': shallow_out})
                if not ok:
                    rep.finding(r2, f.qualname, norm(n, 80),
                                'shallow-name-returned', path, n.lineno,
                                'instance names from iter_names() are '
                                'name.copy() - a middle-deep copy that shares '
                                'reference-typed key values with the key '
                                'object inside the repository; returning '
                                'them lets the client change a stored key '
                                '(deepcopy needed)')
    r2.notes.append('functions iterating iter_names() of an instance store: '
                    '%d' % nn)
    # ---- R9: an empty PropertyList is a filter, not 'no filter' ------------
    from ..sentinel import truthiness_uses
    r9 = rep.rule('C10.R9', 'PropertyList is tested with `is None`: the empty '
                  'list selects no properties, None selects all')
    PL = ('property_list', 'PropertyList', 'propertylist')
    for path in MOCK_FILES:
        for f in repo.module(path).all_funcs():
            uses_pl = [n for n in walk_no_nested(f.node)
                       if isinstance(n, ast.Name) and n.id in PL]
            if not uses_pl:
                continue
            r9.sites += 1
            r9.functions.add(f.fq)
            bad = truthiness_uses(f, lambda n: isinstance(n, ast.Name) and
                                  n.id in PL)
            r9.ob(not bad, f.qualname, {'function': f.qualname})
            for u in bad[:1]:
                rep.finding(r9, f.qualname, u.id, 'truthiness-of-propertylist',
                            path, u.lineno,
                            'PropertyList is tested by truthiness: an empty '
                            'list (return / modify no properties) is handled '
                            'like None (all properties)')
    if r9.sites < 8:
        raise AnalysisError('only %d functions using PropertyList found'
                            % r9.sites)
    # ---- R10: a fetched value is tested with `is None`, not by truthiness ---
    r10 = rep.rule('C10.R10', 'values fetched with .get() are tested for '
                   'presence with `is None` / membership, not by truthiness')
    OBJ_CONTAINERS = {'qualifiers': 'CIMQualifier', 'properties': 'CIMProperty',
                      'methods': 'CIMMethod', 'parameters': 'CIMParameter'}
    always_true = {}
    for attr, cn in OBJ_CONTAINERS.items():
        c = repo.find_class(cn)
        always_true[attr] = c is not None and \
            c.find_method('__bool__') is None and \
            c.find_method('__len__') is None
    for path in list(MOCK_FILES) + ['pywbem/_cim_obj.py']:
        for f in repo.module(path).all_funcs():
            gets = {}
            for n in walk_no_nested(f.node):
                if isinstance(n, ast.Assign) and len(n.targets) == 1 and \
                        isinstance(n.targets[0], ast.Name) and \
                        isinstance(n.value, ast.Call) and \
                        isinstance(n.value.func, ast.Attribute) and \
                        n.value.func.attr == 'get' and \
                        len(n.value.args) in (1, 2) and \
                        not n.value.keywords:
                    if len(n.value.args) == 2 and not (
                            isinstance(n.value.args[1], ast.Constant) and
                            n.value.args[1].value is None):
                        continue
                    recv = n.value.func.value
                    if isinstance(recv, ast.Attribute) and \
                            always_true.get(recv.attr):
                        continue    # items are objects that are never falsy
                    gets[n.targets[0].id] = n.value
            if not gets:
                continue
            r10.sites += 1
            r10.functions.add(f.fq)
            bad = truthiness_uses(f, lambda n: isinstance(n, ast.Name) and
                                  n.id in gets)
            r10.ob(not bad, f.qualname, {'fetched': sorted(gets)})
            for u in bad[:1]:
                rep.finding(r10, f.qualname, '%s = %s' % (
                    u.id, norm(gets[u.id], 60)), 'truthiness-of-value', path,
                    u.lineno,
                    '%s comes from %s and is tested by truthiness: a value '
                    'that is present but falsy (0, False, the empty string, '
                    'an empty array) is handled as missing - e.g. a key '
                    'property with value 0 is dropped from the instance '
                    'path, so CreateInstance of a valid instance fails and '
                    'the repository disagrees with the sequential history'
                    % (u.id, norm(gets[u.id], 60)))
    if r10.sites < 3:
        raise AnalysisError('C10.R10: only %d functions fetch values with '
                            '.get()' % r10.sites)
    validation_implies_agreement(repo, rep)
    status_follows_existence(repo, rep, 'C10.R13', lambda f: 'Class' not in f.name
                             and 'Qualifier' not in f.name)
    # ---- R3 ---------------------------------------------------------------
    passthrough = {}      # function name -> param index of `copy`
    for path in MOCK_FILES:
        for f in repo.module(path).all_funcs():
            for n in walk_no_nested(f.node):
                if isinstance(n, ast.Call) and \
                        isinstance(n.func, ast.Attribute) and \
                        n.func.attr in ('get', 'iter_values'):
                    k = kwarg(n, 'copy')
                    if isinstance(k, ast.Name) and k.id in f.params:
                        passthrough[f.name] = f

    def borrowed_sites(f):
        """[(name, node)] names bound to borrowed objects in f"""
        out = []
        for n in ast.walk(f.node):
            call = None
            tgt = None
            if isinstance(n, ast.Assign) and isinstance(n.value, ast.Call):
                call, tgt = n.value, n.targets[0]
            elif isinstance(n, (ast.For, ast.comprehension)) and \
                    isinstance(n.iter, ast.Call):
                call, tgt = n.iter, n.target
            if call is None or not isinstance(call.func, ast.Attribute):
                continue
            k = kwarg(call, 'copy')
            borrowed = False
            if call.func.attr in ('get', 'iter_values') and k is not None \
                    and norm(k) in ('False', 'None'):
                borrowed = True
            if call.func.attr in passthrough:
                pf = passthrough[call.func.attr]
                ps = [p for p in pf.params if p != 'self']
                kk = kwarg(call, 'copy')
                if kk is None and 'copy' in ps and \
                        ps.index('copy') < len(call.args):
                    kk = call.args[ps.index('copy')]
                if kk is None:
                    dflt = pf.param_defaults().get('copy')
                    borrowed = dflt is None or norm(dflt) in ('None',
                                                              'False')
                else:
                    borrowed = norm(kk) in ('False', 'None')
            if borrowed and isinstance(tgt, ast.Name):
                out.append((tgt.id, n, call))
        return out

    def is_borrowing_call(call):
        if not (isinstance(call, ast.Call) and
                isinstance(call.func, ast.Attribute)):
            return False
        k = kwarg(call, 'copy')
        if call.func.attr in ('get', 'iter_values') and k is not None and \
                norm(k) in ('False', 'None'):
            return True
        if call.func.attr in passthrough:
            pf = passthrough[call.func.attr]
            ps = [p_ for p_ in pf.params if p_ != 'self']
            kk = k
            if kk is None and 'copy' in ps and \
                    ps.index('copy') < len(call.args):
                kk = call.args[ps.index('copy')]
            if kk is None:
                dflt = pf.param_defaults().get('copy')
                return dflt is None or norm(dflt) in ('None', 'False')
            return norm(kk) in ('False', 'None')
        return False

    for path in MOCK_FILES:
        for f in repo.module(path).all_funcs():
            if f.name in passthrough:
                continue
            # borrowed objects handed on without ever being bound to a name
            for x in ast.walk(f.node):
                direct = None
                if isinstance(x, (ast.ListComp, ast.SetComp,
                                  ast.GeneratorExp)) and \
                        is_borrowing_call(x.elt):
                    direct = (x.elt, 'collected into a result list')
                elif isinstance(x, ast.Return) and \
                        is_borrowing_call(x.value):
                    direct = (x.value, 'returned')
                elif isinstance(x, ast.Call) and \
                        isinstance(x.func, ast.Attribute) and \
                        x.func.attr in ('append', 'add') and x.args and \
                        is_borrowing_call(x.args[0]):
                    direct = (x.args[0], 'stored')
                if direct is not None:
                    r3.sites += 1
                    r3.ob(False, '%s|%s' % (f.qualname, norm(direct[0], 70)))
                    rep.finding(r3, f.qualname, norm(direct[0], 70),
                                direct[1].split(' ')[0], f.file,
                                direct[0].lineno,
                                'an object obtained with copy=False/None '
                                '(the repository\'s own object) is %s: the '
                                'caller can change the repository'
                                % direct[1])
            for name, node, call in borrowed_sites(f):
                r3.sites += 1
                r3.functions.add(f.fq)
                problems = []
                scope = f.node if not isinstance(node, ast.comprehension) \
                    else None
                roots = [f.node]
                if isinstance(node, ast.comprehension):
                    # the comprehension expression that owns this generator
                    for x in ast.walk(f.node):
                        if isinstance(x, (ast.ListComp, ast.SetComp,
                                          ast.GeneratorExp, ast.DictComp)) \
                                and node in x.generators:
                            roots = [x]
                for root in roots:
                    for x in ast.walk(root):
                        if isinstance(x, ast.Return) and x.value is not None \
                                and any(isinstance(y, ast.Name) and
                                        y.id == name and
                                        _direct(x.value, y)
                                        for y in ast.walk(x.value)):
                            problems.append((x, 'returned'))
                        if isinstance(x, (ast.Yield, ast.YieldFrom)) and \
                                x.value is not None and \
                                isinstance(x.value, ast.Name) and \
                                x.value.id == name:
                            problems.append((x, 'yielded'))
                        if isinstance(x, (ast.ListComp, ast.SetComp,
                                          ast.GeneratorExp)) and \
                                isinstance(x.elt, ast.Name) and \
                                x.elt.id == name and x is root:
                            problems.append((x, 'collected'))
                        if isinstance(x, (ast.Assign, ast.AugAssign)):
                            tg = x.targets if isinstance(x, ast.Assign) \
                                else [x.target]
                            for t in tg:
                                b = t
                                while isinstance(b, (ast.Attribute,
                                                     ast.Subscript)):
                                    b = b.value
                                if isinstance(b, ast.Name) and b.id == name \
                                        and t is not b:
                                    problems.append((x, 'assigned to'))
                        if isinstance(x, ast.Delete):
                            for t in x.targets:
                                b = t
                                while isinstance(b, (ast.Attribute,
                                                     ast.Subscript)):
                                    b = b.value
                                if isinstance(b, ast.Name) and b.id == name \
                                        and t is not b:
                                    problems.append((x, 'deleted from'))
                        if isinstance(x, ast.Call) and \
                                isinstance(x.func, ast.Attribute):
                            b = x.func.value
                            while isinstance(b, (ast.Attribute,
                                                 ast.Subscript)):
                                b = b.value
                            if isinstance(b, ast.Name) and b.id == name and \
                                    x.func.attr in MUTATORS:
                                problems.append((x, 'mutated by .%s()'
                                                 % x.func.attr))
                            if x.func.attr in ('append', 'add', 'create',
                                               'update') and any(
                                    isinstance(a, ast.Name) and a.id == name
                                    for a in x.args):
                                problems.append((x, 'stored by .%s()'
                                                 % x.func.attr))
                r3.ob(not problems, '%s|%s' % (f.qualname, norm(call, 70)),
                      {'function': f.qualname, 'borrowed': name,
                       'from': norm(call, 80), 'only_read': not problems})
                for x, how in problems[:2]:
                    rep.finding(r3, f.qualname, '%s <- %s' % (name,
                                                              norm(call, 60)),
                                how.split(' ')[0], f.file, x.lineno,
                                'an object obtained with copy=False (the '
                                'repository\'s own object) is %s: the '
                                'caller can change the repository' % how)
    if r3.sites < 5:
        raise AnalysisError('only %d copy=False sites found' % r3.sites)
    store_writes_keyed_by_object(repo, rep, r4)
    # ---- R5 ---------------------------------------------------------------
    targets = [('pywbem_mock/_providerdispatcher.py', 'ProviderDispatcher',
                'CreateInstance', 'NewInstance'),
               ('pywbem_mock/_providerdispatcher.py', 'ProviderDispatcher',
                'ModifyInstance', 'ModifiedInstance'),
               ('pywbem_mock/_mainprovider.py', 'MainProvider',
                'CreateClass', 'NewClass'),
               ('pywbem_mock/_mainprovider.py', 'MainProvider',
                'ModifyClass', 'ModifiedClass')]
    for path, cn, mn, param in targets:
        f = repo.cls(path, cn).methods.get(mn)
        if f is None:
            raise AnalysisError('%s.%s vanished' % (cn, mn))
        r5.sites += 1
        r5.functions.add(f.fq)
        from ..inline import Flat
        cfg = CFG(Flat(f, keep=('_resolve_class',)).node)
        copies = [s for s in cfg.stmts() if isinstance(s, ast.Assign) and
                  is_deepcopy(s.value) and norm(s.value.args[0]) == param]
        ok = len(copies) == 1
        local = norm(copies[0].targets[0]) if copies else None
        bad = []
        for s in cfg.stmts():
            # any mutation of the caller's object
            for x in ([s] if isinstance(s, (ast.Assign, ast.AugAssign,
                                            ast.Delete)) else []):
                tg = x.targets if isinstance(x, (ast.Assign, ast.Delete)) \
                    else [x.target]
                for t in tg:
                    b = t
                    while isinstance(b, (ast.Attribute, ast.Subscript)):
                        b = b.value
                    if isinstance(b, ast.Name) and b.id == param and \
                            t is not b:
                        bad.append(s)
            if isinstance(s, ast.Expr) and isinstance(s.value, ast.Call):
                c = s.value
                # the caller's object handed on (provider / store / resolver)
                if any(isinstance(a, ast.Name) and a.id == param
                       for a in c.args) and isinstance(c.func,
                                                       ast.Attribute) and \
                        c.func.attr in ('create', 'update', 'CreateInstance',
                                        'ModifyInstance', '_resolve_class'):
                    bad.append(s)
        ok = ok and not bad
        r5.ob(ok, '%s.%s' % (cn, mn), {'method': '%s.%s' % (cn, mn),
                                       'copy': norm(copies[0]) if copies
                                       else None})
        if not ok:
            rep.finding(r5, f.qualname, param, 'caller-object-used', path,
                        (bad[0] if bad else f.node).lineno,
                        'the caller\'s %s is mutated or handed on instead of '
                        'a deep copy' % param)
    # objects handed out by the read operations come from copying reads
    mp = repo.cls('pywbem_mock/_mainprovider.py', 'MainProvider')
    gi = mp.methods.get('_get_instance')
    ok = gi is not None and any(
        isinstance(c, ast.Call) and
        dotted(c.func) == 'self._get_bare_instance' and
        norm(kwarg(c, 'copy')) == 'True' for c in walk_no_nested(gi.node))
    r5.ob(ok, '_get_instance:copy')
    if not ok:
        rep.finding(r5, 'MainProvider._get_instance', '_get_bare_instance('
                    '..., copy=True)', 'read-not-copied',
                    'pywbem_mock/_mainprovider.py',
                    gi.node.lineno if gi else 0, 'GetInstance/Enumerate'
                    'Instances hand out the repository\'s own object')
    # ---- R6 ---------------------------------------------------------------
    init = st.methods.get('__init__')
    txt = norm(init.node, 3000)
    ok = "self._data = {}" in txt and "self._copy_names = True" in txt and \
        "'CIMInstance'" in txt
    r6.sites += 1
    r6.ob(ok, 'instance-store-dict')
    if not ok:
        rep.finding(r6, init.qualname, '_data for CIMInstance', 'store-kind',
                    STORE, init.node.lineno, 'the instance store is not a '
                    'dict keyed by (copied) CIMInstanceName objects')
    for path in MOCK_FILES:
        for f in repo.module(path).all_funcs():
            for n in walk_no_nested(f.node):
                if isinstance(n, ast.Call) and \
                        isinstance(n.func, ast.Attribute) and \
                        store_kind(n.func.value, f) == 'instance' and \
                        n.func.attr in ('get', 'object_exists', 'delete',
                                        'update', 'create') and n.args:
                    r6.sites += 1
                    k = n.args[0]
                    bad = isinstance(k, ast.Call) and \
                        isinstance(k.func, ast.Attribute) and \
                        k.func.attr in ('to_wbem_uri', '__str__', 'lower') \
                        or (isinstance(k, ast.Call) and
                            dotted(k.func) == 'str')
                    r6.ob(not bad, '%s|%s' % (f.qualname, norm(n, 70)))
                    if bad:
                        rep.finding(r6, f.qualname, norm(n, 80), 'string-key',
                                    f.file, n.lineno, 'the instance store is '
                                    'accessed with a string rendering of the '
                                    'path instead of the path object')
    # ---- R7 ---------------------------------------------------------------
    from ..guards import run_format_rule
    run_format_rule(repo, rep, r7, lambda f: f.file in (
        'pywbem_mock/_instancewriteprovider.py',
        'pywbem_mock/_providerdispatcher.py',
        'pywbem_mock/_namespaceprovider.py',
        'pywbem_mock/_providerregistry.py',
        'pywbem_mock/_inmemoryrepository.py',
        'pywbem_mock/_methodprovider.py') or (
        f.file == 'pywbem_mock/_mainprovider.py' and f.name in (
            'GetInstance', '_get_instance', 'EnumerateInstances',
            'EnumerateInstanceNames', '_validate_instancename_namespace')))

    # ---- R8: names in the instance operations are case-insensitive --------
    from .. import names

    def scope(f):
        root = f
        while root.parent is not None:
            root = root.parent
        if f.file in ('pywbem_mock/_instancewriteprovider.py',
                      'pywbem_mock/_providerdispatcher.py', STORE):
            return True
        return f.file in ('pywbem_mock/_mainprovider.py',
                          'pywbem_mock/_baseprovider.py') and \
            'nstance' in root.name and \
            root.name not in names.ASSOC_FUNCS and \
            not root.name.startswith(('Open', 'Pull', '_open', '_pull'))
    names.run_name_rules(repo, rep, r8, r8b, scope)


def _direct(root, name_node):
    """name_node is returned itself or as a direct element of a returned
    list/tuple (not as receiver of an attribute access / argument)."""
    if root is name_node:
        return True
    if isinstance(root, (ast.List, ast.Tuple, ast.Set)):
        return any(e is name_node for e in root.elts)
    return False


def validation_implies_agreement(repo, rep):
    """C10.R11: ProviderDispatcher._validate_property accepts a property
    only if it agrees with the class declaration in every attribute the
    function compares (type, is_array, ...): on every path that returns
    normally, `inst.A != cls.A` is known to be false.  A comparison that is
    and-ed with another condition (e.g. skipped for NULL values) lets
    mis-typed properties into the store, which then disagrees with the
    reference map."""
    from ..paths import return_paths
    from ..relfacts import split
    r11 = rep.rule('C10.R11', 'a validated property agrees with its '
                   'declaration in every compared attribute')
    PD = 'pywbem_mock/_providerdispatcher.py'
    f = repo.cls(PD, 'ProviderDispatcher').methods.get('_validate_property')
    if f is None:
        raise AnalysisError('ProviderDispatcher._validate_property vanished')
    r11.functions.add(f.fq)
    attrs = {}
    for c in ast.walk(f.node):
        if isinstance(c, ast.Compare) and len(c.ops) == 1 and \
                isinstance(c.ops[0], (ast.NotEq, ast.Eq)) and \
                isinstance(c.left, ast.Attribute) and \
                isinstance(c.comparators[0], ast.Attribute) and \
                c.left.attr == c.comparators[0].attr and \
                norm(c.left.value) != norm(c.comparators[0].value):
            attrs[c.left.attr] = (norm(c.left), norm(c.comparators[0]))
    if len(attrs) < 2:
        raise AnalysisError('_validate_property: attribute comparisons not '
                            'found (%s)' % sorted(attrs))
    paths = return_paths(f, max_paths=2000, inline=False)
    if paths is None:
        raise AnalysisError('_validate_property: too many paths')
    for a, (l, r) in sorted(attrs.items()):
        r11.sites += 1
        bad = None
        for p in paths:
            ok = False
            for t, pol in p.facts:
                for t2, p2 in split(t, pol):
                    s = norm(t2)
                    if (s in ('%s != %s' % (l, r), '%s != %s' % (r, l))
                            and not p2) or \
                            (s in ('%s == %s' % (l, r), '%s == %s' % (r, l))
                             and p2):
                        ok = True
            if not ok:
                bad = p
                break
        r11.ob(bad is None, '_validate_property|' + a,
               {'attribute': a, 'paths': len(paths)})
        if bad is not None:
            conds = ' / '.join(('' if pol else 'not ') + norm(t, 50)
                               for t, pol in bad.facts[:5])
            rep.finding(r11, f.qualname, '%s != %s' % (l, r),
                        'conditional-validation', PD, f.node.lineno,
                        'a path accepts the property without having '
                        'established %s == %s (conditions on the path: %s): '
                        'CreateInstance / ModifyInstance store a property '
                        'that disagrees with the class declaration instead '
                        'of rejecting it with CIM_ERR_INVALID_PARAMETER'
                        % (l, r, conds))


# the CIM status code that goes with a failed existence test (DSP0200):
# (store kind, the object exists?) -> code; exceptions by function
STATUS_BY_EXISTENCE = {
    ('instance', True): 'CIM_ERR_ALREADY_EXISTS',
    ('class', True): 'CIM_ERR_ALREADY_EXISTS',
    ('qualifier', True): 'CIM_ERR_ALREADY_EXISTS',
    ('instance', False): 'CIM_ERR_NOT_FOUND',
    ('qualifier', False): 'CIM_ERR_NOT_FOUND',
    ('class', False): 'CIM_ERR_INVALID_CLASS',
}
STATUS_EXCEPTIONS = {
    # the class itself is the target of the operation: NOT_FOUND (DSP0200
    # ModifyClass / DeleteClass), not INVALID_CLASS
    ('MainProvider.ModifyClass', 'class', False): 'CIM_ERR_NOT_FOUND',
    ('MainProvider.DeleteClass', 'class', False): 'CIM_ERR_NOT_FOUND',
}


def status_follows_existence(repo, rep, rid, select):
    """A CIMError raised because an existence test on a repository store
    failed carries the status code of that situation: the object exists ->
    CIM_ERR_ALREADY_EXISTS; an instance / qualifier declaration does not
    exist -> CIM_ERR_NOT_FOUND; a class does not exist ->
    CIM_ERR_INVALID_CLASS (NOT_FOUND where the class is the target itself).
    The reference map of the property distinguishes these codes."""
    from ..cfg import stmt_facts, GuardWalker
    from ..stores import store_kind
    r = rep.rule(rid, 'the status code of a refusal follows the existence '
                 'test that failed')
    for rel in MOCK_FILES:
        m = repo.module(rel)
        for f in m.all_funcs():
            if not select(f) or not f.name[:1].isupper():
                continue          # public operations: the key is the target
            fx_ = stmt_facts(f.node)
            from ..flow import value_of as _vo
            parent_ = {}
            for n_ in ast.walk(f.node):
                for c_ in ast.iter_child_nodes(n_):
                    parent_[c_] = n_
            for st, (facts_, _tr) in fx_.items():
                if not (isinstance(st, ast.Raise) and
                        isinstance(st.exc, ast.Call) and
                        dotted(st.exc.func) == 'CIMError' and st.exc.args):
                    continue
                # the existence test that decided this refusal: the
                # innermost object_exists() fact on the way to the raise
                # (only the conditions of the enclosing `if` statements
                # count - closest first -, not what earlier guards that
                # raised have left behind as facts)
                t = exists = None
                cur = st
                governed = False
                while cur in parent_ and not governed:
                    up = parent_[cur]
                    if isinstance(up, ast.If) and (cur in up.body or
                                                   cur in up.orelse):
                        governed = True     # the condition the raise is under
                        pol0 = cur in up.body
                        for t_, pol_ in GuardWalker._atoms(up.test, pol0):
                            if isinstance(t_, ast.Call) and \
                                    isinstance(t_.func, ast.Attribute) and \
                                    t_.func.attr == 'object_exists' and \
                                    t_.args:
                                t, exists = t_, bool(pol_)
                    cur = up
                if t is None:
                    continue
                # the key is a parameter of the operation (or an attribute
                # of one, possibly through a local): the operation's own
                # target
                root = _vo(f, t.args[0])
                key0 = root
                while isinstance(root, ast.Attribute):
                    root = root.value
                if not (isinstance(root, ast.Name) and root.id in f.params):
                    continue
                kind = store_kind(t.func.value, f) or (
                    'instance' if 'instance' in norm(t.func.value)
                    else 'class' if 'class' in norm(t.func.value)
                    else 'qualifier' if 'qual' in norm(t.func.value)
                    else None)
                if kind not in ('instance', 'class', 'qualifier'):
                    continue
                code = norm(st.exc.args[0])
                r.sites += 1
                r.functions.add(f.fq)
                want = STATUS_EXCEPTIONS.get(
                    (f.qualname, kind, exists),
                    STATUS_BY_EXISTENCE.get((kind, exists)))
                if isinstance(key0, ast.Attribute) and \
                        key0.attr == 'superclass' and not exists:
                    want = 'CIM_ERR_INVALID_SUPERCLASS'
                ok = code == want
                r.ob(ok, '%s|%s' % (f.qualname, norm(t, 50)),
                     {'code': code, 'store': kind, 'exists': exists})
                if not ok:
                    rep.finding(r, f.qualname, '%s when %s%s' % (
                        code, '' if exists else 'not ', norm(t, 50)),
                        'status-code', rel, st.lineno,
                        'the refusal raised when %s is %s uses %s; for '
                        'the target of the operation the situation "%s %s" '
                        'is %s (DSP0200) - clients and the subscription '
                        'manager branch on this code'
                        % (norm(t, 50), exists, code, kind,
                           'exists' if exists else 'does not exist', want))
    if r.sites < 3:
        raise AnalysisError('%s: only %d existence-guarded refusals'
                            % (rid, r.sites))


def _property_object_names(func):
    """locals evidently bound to CIMProperty objects: loop variables over
    `<x>.properties.values()` and names assigned `<x>.properties[...]` /
    `<x>.properties.get(...)`"""
    out = set()

    def is_props(e):
        return isinstance(e, ast.Attribute) and e.attr == 'properties'
    for n in walk_no_nested(func.node):
        if isinstance(n, (ast.For, ast.comprehension)) and \
                isinstance(n.target, ast.Name) and \
                isinstance(n.iter, ast.Call) and \
                isinstance(n.iter.func, ast.Attribute) and \
                n.iter.func.attr in ('values', 'itervalues') and \
                is_props(n.iter.func.value):
            out.add(n.target.id)
        elif isinstance(n, ast.Assign) and len(n.targets) == 1 and \
                isinstance(n.targets[0], ast.Name):
            v = n.value
            if isinstance(v, ast.Subscript) and is_props(v.value):
                out.add(n.targets[0].id)
            elif isinstance(v, ast.Call) and \
                    isinstance(v.func, ast.Attribute) and \
                    v.func.attr == 'get' and is_props(v.func.value):
                out.add(n.targets[0].id)
    return out


def untyped_transfers(func):
    """assignments `inst[k] = <property object>.value`: the value of a
    declared property is stored without its declaration"""
    pnames = _property_object_names(func)
    out = []
    for n in walk_no_nested(func.node):
        if not (isinstance(n, ast.Assign) and len(n.targets) == 1 and
                isinstance(n.targets[0], ast.Subscript)):
            continue
        v = n.value
        if not (isinstance(v, ast.Attribute) and v.attr == 'value'):
            continue
        b = v.value
        if (isinstance(b, ast.Name) and b.id in pnames) or \
                (isinstance(b, ast.Subscript) and
                 isinstance(b.value, ast.Attribute) and
                 b.value.attr == 'properties'):
            out.append(n)
    return out


def store_writes_keyed_by_object(repo, rep, r4, files=None, floor=8):
    """C10.R4 (also C13.R14 for the association copies): every
    store.create(key, obj) / store.update(key, obj) of the mock server
    files an object under its own name / path.  An association instance
    stored in namespace B under the right key but still carrying the path
    of namespace A makes ReferenceNames in B return paths of A (the
    traversal helpers read inst.path of the stored instances), so Names no
    longer equals the paths of the full result and the traversal is no
    longer symmetric."""
    for path in (files or MOCK_FILES):
        for f in repo.module(path).all_funcs():
            for n in walk_no_nested(f.node):
                if isinstance(n, ast.Call) and \
                        isinstance(n.func, ast.Attribute) and \
                        n.func.attr in ('create', 'update') and \
                        store_kind(n.func.value, f) is not None and \
                        len(n.args) == 2:
                    r4.sites += 1
                    r4.functions.add(f.fq)
                    key, obj = n.args
                    ob = norm(obj)
                    if isinstance(obj, ast.Call) and \
                            isinstance(obj.func, ast.Attribute) and \
                            obj.func.attr == 'copy':
                        ob = norm(obj.func.value)
                    if isinstance(key, ast.Call) and not key.args and \
                            isinstance(key.func, ast.Attribute) and \
                            key.func.attr == 'copy':
                        key = key.func.value
                    from ..flow import value_of as _vo4
                    kt = norm(key)
                    if isinstance(key, ast.Name):
                        # a local that holds the object's path
                        kt = norm(_vo4(f, key))
                    ok = kt in (ob + '.path', ob + '.classname', ob + '.name')
                    # key derived from a sibling copy of the same source
                    if not ok and isinstance(key, ast.Attribute) and \
                            key.attr in ('path', 'classname', 'name'):
                        src = {}
                        for a in walk_no_nested(f.node):
                            if isinstance(a, ast.Assign) and \
                                    isinstance(a.targets[0], ast.Name):
                                src[a.targets[0].id] = norm(a.value)
                        kb = norm(key.value)
                        if src.get(ob) and src.get(kb) and \
                                src[ob].split('(')[-1] == \
                                src[kb].split('(')[-1]:
                            ok = True
                        # obj = f(key_base, ...): derived from the key's
                        # object (e.g. the resolved form of the same class)
                        for a in walk_no_nested(f.node):
                            if isinstance(a, ast.Assign) and \
                                    norm(a.targets[0]) == ob and \
                                    isinstance(a.value, ast.Call) and \
                                    a.value.args and \
                                    norm(a.value.args[0]) == kb:
                                ok = True
                    r4.ob(ok, '%s|%s' % (f.qualname, norm(n, 80)),
                          {'function': f.qualname, 'write': norm(n, 90)})
                    if not ok:
                        rep.finding(r4, f.qualname, norm(n, 90), 'key', f.file,
                                    n.lineno, 'the object is stored under a '
                                    'key that is not its own name/path')
    if r4.sites < floor:
        raise AnalysisError('only %d store writes found' % r4.sites)


def already_exists_means_key_exists(repo, rep):
    """C10.R19: the mock server answers CIM_ERR_ALREADY_EXISTS exactly when
    the key of the new entry is in the store (the reference map: create
    fails iff (namespace, class, keybindings) is present).  Every `raise
    CIMError(CIM_ERR_ALREADY_EXISTS, ...)` is therefore either the handler
    of the store's own refusal (`except ValueError` around store.create() /
    add_namespace()) or runs under a positive `<store>.object_exists(key)`
    (or, for the Interop namespace, find_interop_namespace()) fact.  An
    additional uniqueness test (e.g. equal keybindings in a superclass)
    refuses creations the map accepts, and the instance is then missing
    from every later read."""
    from ..cfg import GuardWalker
    r19 = rep.rule('C10.R19', 'CIM_ERR_ALREADY_EXISTS is raised only when '
                   'the store says the key exists')
    n = 0
    for m in repo.modules.values():
        if not m.relpath.startswith('pywbem_mock/'):
            continue
        for f in m.all_funcs():
            raises = [x for x in walk_no_nested(f.node)
                      if isinstance(x, ast.Raise) and x.exc is not None and
                      isinstance(x.exc, ast.Call) and
                      dotted(x.exc.func) == 'CIMError' and x.exc.args and
                      norm(x.exc.args[0]) == 'CIM_ERR_ALREADY_EXISTS']
            if not raises:
                continue
            fx = stmt_facts(f.node)
            handlers = {}
            for t in walk_no_nested(f.node):
                if isinstance(t, ast.Try):
                    for h in t.handlers:
                        for x in ast.walk(h):
                            handlers[id(x)] = (t, h)
            for rz in raises:
                n += 1
                r19.sites += 1
                r19.functions.add(f.fq)
                atoms = [a for t0, p0 in fx.get(rz, ((), ()))[0]
                         for a in GuardWalker._atoms(t0, p0)]
                from ..flow import value_of as _vo19

                def membership(t):
                    # the store's own answer, directly or through a private
                    # helper that returns it
                    if isinstance(t, ast.Call) and \
                            (dotted(t.func) or '').startswith('self._'):
                        t = _vo19(f, t)
                    return isinstance(t, ast.Call) and \
                        isinstance(t.func, ast.Attribute) and \
                        t.func.attr in ('object_exists',
                                        'find_interop_namespace')
                by_fact = any(pol and membership(t) for t, pol in atoms)
                by_handler = False
                if id(rz) in handlers:
                    t, h = handlers[id(rz)]
                    names_ = {norm(e).split('.')[-1] for e in (
                        h.type.elts if isinstance(h.type, ast.Tuple)
                        else [h.type])} if h.type is not None else set()
                    by_handler = 'ValueError' in names_ and any(
                        isinstance(c, ast.Call) and
                        isinstance(c.func, ast.Attribute) and
                        c.func.attr in ('create', 'add_namespace')
                        for b in t.body for c in ast.walk(b))
                ok = by_fact or by_handler
                r19.ob(ok, '%s|%s' % (f.qualname, rz.lineno),
                       {'by': 'object_exists fact' if by_fact else
                        'store refusal' if by_handler else None})
                if not ok:
                    conds = ', '.join(
                        '%s%s' % ('' if pol else 'not ', norm(t, 50))
                        for t, pol in fx.get(rz, ((), ()))[0][:2])
                    rep.finding(r19, f.qualname, 'raise CIMError('
                                'CIM_ERR_ALREADY_EXISTS)', 'not-store-'
                                'membership', m.relpath, rz.lineno,
                                'CIM_ERR_ALREADY_EXISTS is raised under [%s] '
                                '- not because the store has the key: a '
                                'creation the reference map accepts is '
                                'refused' % (conds or 'no condition'))
    if n < 4:
        raise AnalysisError('C10.R19: only %d ALREADY_EXISTS sites found'
                            % n)


def loops_cut_short(func_node):
    """(try, loop, handler) where a handler that swallows a lookup error
    (no raise in it) belongs to a try whose body contains a loop in which
    that error can arise (a subscript read, .pop(), .remove(), .index(),
    next()): the first failing item silently ends the whole loop"""
    out = []
    LOOKUP = ('KeyError', 'IndexError', 'LookupError', 'Exception',
              'BaseException', 'ValueError', 'StopIteration')
    for t in walk_no_nested(func_node):
        if not isinstance(t, ast.Try):
            continue
        for h in t.handlers:
            names = []
            if h.type is None:
                names = ['BaseException']
            else:
                els = h.type.elts if isinstance(h.type, ast.Tuple) \
                    else [h.type]
                names = [norm(e).split('.')[-1] for e in els]
            if not any(nm in LOOKUP for nm in names):
                continue
            if any(isinstance(x, ast.Raise)
                   for b in h.body for x in ast.walk(b)):
                continue
            for b in t.body:
                for lp in ast.walk(b):
                    if not isinstance(lp, (ast.For, ast.While)):
                        continue
                    # an inner try of the loop body that catches it itself
                    # protects the items one by one
                    inner = [x for s_ in lp.body for x in ast.walk(s_)
                             if isinstance(x, ast.Try)]
                    risky = []
                    for s_ in lp.body:
                        for x in ast.walk(s_):
                            if any(x in list(ast.walk(i)) for i in inner):
                                continue
                            if isinstance(x, ast.Subscript) and \
                                    isinstance(x.ctx, ast.Load) and \
                                    not isinstance(x.slice, ast.Slice):
                                risky.append(x)
                            elif isinstance(x, ast.Call) and (
                                    (isinstance(x.func, ast.Attribute) and
                                     x.func.attr in ('pop', 'remove',
                                                     'index')) or
                                    dotted(x.func) == 'next'):
                                risky.append(x)
                    if risky:
                        out.append((t, lp, h, risky[0]))
    return out


def swallowed_error_does_not_cut_a_loop(repo, rep):
    """C10.R17: in the mock server a lookup error of one item is never
    swallowed by a handler that sits *outside* the loop over the items.
    `try: for name in names: x = d[name] ... except KeyError: pass` stops
    at the first name that is missing: a read with PropertyList=['Absent',
    'Present'] returns neither, although the stored instance has 'Present'
    (the reference map returns exactly the requested properties the object
    has); the same shape in a delete / enumerate loop leaves the remaining
    items untouched.  Tolerating a missing item needs the try inside the
    loop."""
    r17 = rep.rule('C10.R17', 'no swallowing handler encloses a loop whose '
                   'items can raise the swallowed lookup error')
    nfun = 0
    for m in repo.modules.values():
        if not m.relpath.startswith('pywbem_mock/'):
            continue
        for f in m.all_funcs():
            nfun += 1
            for t, lp, h, x in loops_cut_short(f.node):
                r17.ob(False, '%s|%s' % (f.qualname, norm(lp, 40)))
                rep.finding(r17, f.qualname, norm(x, 50), 'loop-cut-short',
                            m.relpath, lp.lineno,
                            'the loop `%s` runs inside a try whose handler '
                            '(%s) swallows the error %s can raise: the '
                            'first item that fails ends the loop silently '
                            'and the remaining items are not processed'
                            % (norm(lp, 50).split(':')[0],
                               norm(h.type, 30) if h.type is not None
                               else 'bare except', norm(x, 40)))
    r17.sites += 1
    r17.ob(nfun > 200, 'functions-scanned', {'functions': nfun})
    if nfun < 200:
        raise AnalysisError('C10.R17: only %d functions scanned' % nfun)
    probe = ast.parse(
        'def f(d, names):\n'
        '    out = {}\n'
        '    try:\n'
        '        for n in names:\n'
        '            out[n] = d[n]\n'
        '    except KeyError:\n'
        '        pass\n'
        '    return out\n').body[0]
    safe = ast.parse(
        'def f(d, names):\n'
        '    out = {}\n'
        '    for n in names:\n'
        '        try:\n'
        '            out[n] = d[n]\n'
        '        except KeyError:\n'
        '            pass\n'
        '    return out\n').body[0]
    if len(loops_cut_short(probe)) != 1 or loops_cut_short(safe):
        raise AnalysisError('C10.R17 recogniser broken')


def typed_property_transfer(repo, rep):
    """C10.R15: a property moves between class / instance objects as a
    CIMProperty, not as its bare value.  `inst[name] = prop.value` builds a
    new CIMProperty whose CIM type is inferred from the Python value: for
    NULL and for an empty array that raises ValueError (the operation fails
    with a non-CIM error although the reference map succeeds), and a char16
    value is silently stored as string.  The declared type is only kept
    when the property object itself (or an explicitly typed CIMProperty) is
    stored."""
    r15 = rep.rule('C10.R15', 'property values are transferred together with '
                   'their declared type')
    n_funcs = 0
    for m in repo.modules.values():
        if not m.relpath.startswith('pywbem_mock/'):
            continue
        for f in m.all_funcs():
            stores = [n for n in walk_no_nested(f.node)
                      if isinstance(n, ast.Assign) and len(n.targets) == 1
                      and isinstance(n.targets[0], ast.Subscript)]
            if not stores:
                continue
            n_funcs += 1
            r15.sites += len(stores)
            r15.functions.add(f.fq)
            bad = untyped_transfers(f)
            r15.ob(not bad, f.qualname, {'item_stores': len(stores)})
            for st in bad:
                rep.finding(r15, f.qualname, norm(st, 80), 'type-dropped',
                            m.relpath, st.lineno,
                            'the value of a declared property is stored '
                            'without its declaration: CIMInstance.__setitem__ '
                            'infers the CIM type from the Python value - '
                            'ValueError for NULL and for an empty array, '
                            'string instead of char16 - so the operation '
                            'fails (or stores another type) where the '
                            'reference map succeeds')
    if n_funcs < 10:
        raise AnalysisError('C10.R15: only %d functions with item stores'
                            % n_funcs)
    probe = ast.parse('def f(a, b):\n    for p in b.properties.values():\n'
                      '        a[p.name] = p.value\n').body[0]

    class _F:
        node = probe
    if len(untyped_transfers(_F)) != 1:
        raise AnalysisError('C10.R15 recogniser broken')


def modified_instance_keeps_its_path(repo, rep):
    """C10.R20: ProviderDispatcher.ModifyInstance validates the instance
    named by ModifiedInstance.path and then hands a working copy to the
    write provider, which updates the store entry under `copy.path`.
    CIMInstance.__setitem__ propagates a value into path.keybindings when
    the name is a key (premise, checked in _cim_obj.py): a store
    `copy[pn] = <value from the class>` for a key property - a key named in
    PropertyList but not given in the instance is filled with its class
    default - silently re-targets the copy, and ModifyInstance succeeds on
    *another* instance.  So every item store on the working copy is
    governed by a test of the Key qualifier, or takes its value from the
    stored instance itself."""
    from ..inline import Flat
    from ..cfg import stmt_facts
    r20 = rep.rule('C10.R20', 'the working copy of ModifyInstance is not '
                   're-targeted by an item store for a key property')
    obj = repo.cls('pywbem/_cim_obj.py', 'CIMInstance')
    si = obj.methods.get('__setitem__')
    premise = si is not None and any(
        isinstance(a, ast.Assign) and
        isinstance(a.targets[0], ast.Subscript) and
        norm(a.targets[0].value) == 'self.path'
        for a in walk_no_nested(si.node))
    if not premise:
        r20.notes.append('CIMInstance.__setitem__ no longer updates '
                         'self.path: nothing to check')
        return
    disp = repo.cls('pywbem_mock/_providerdispatcher.py',
                    'ProviderDispatcher')
    f0 = disp.methods.get('ModifyInstance')
    if f0 is None:
        raise AnalysisError('ProviderDispatcher.ModifyInstance vanished')
    f = Flat(f0)
    r20.functions.add(f0.fq)
    handed = set()
    for c in walk_no_nested(f.node):
        if isinstance(c, ast.Call) and isinstance(c.func, ast.Attribute) and \
                c.func.attr == 'ModifyInstance' and c.args and \
                isinstance(c.args[0], ast.Name):
            handed.add(c.args[0].id)
    if not handed:
        raise AnalysisError('ProviderDispatcher.ModifyInstance: call of the '
                            'provider not found')
    sf = stmt_facts(f.node)
    n = 0
    for st, (facts, _t) in sf.items():
        if not (isinstance(st, ast.Assign) and len(st.targets) == 1 and
                isinstance(st.targets[0], ast.Subscript) and
                isinstance(st.targets[0].value, ast.Name) and
                st.targets[0].value.id in handed):
            continue
        n += 1
        r20.sites += 1
        key_tested = any("'key'" in norm(t, 300).lower() or
                         '"key"' in norm(t, 300).lower() or
                         'is_key' in norm(t, 300).lower()
                         for t, _pol in facts)
        ok = key_tested
        r20.ob(ok, '%s|%s' % (f0.qualname, norm(st, 60)))
        if not ok:
            rep.finding(r20, f0.qualname, norm(st, 70), 'copy-retargeted',
                        'pywbem_mock/_providerdispatcher.py', st.lineno,
                        'an item store on the working copy can be for a key '
                        'property (no test of the Key qualifier governs '
                        'it): CIMInstance.__setitem__ then rewrites '
                        'path.keybindings, and the provider modifies the '
                        'instance with the class default as its key')
    r20.notes.append('%d item stores on the working copy' % n)
