"""C11 - a failed mock-repository operation changes nothing."""
import ast

from ..stores import store_kind

from ..model import AnalysisError, walk_no_nested, dotted, norm
from ..cfg import CFG
from ..escape import EscapeAnalysis
from ..resolve import Resolver

EXPLANATION = (
    "Ordering check of the repository-changing mock operations: (R1) in "
    "each single-object mutator (CreateClass, ModifyClass, SetQualifier, "
    "DeleteQualifier, Create/Modify/DeleteInstance incl. the "
    "multi-namespace variants, namespace provider create/delete, "
    "add_namespace/remove_namespace, the dispatcher methods) no statement "
    "that can raise (exception-escape analysis: explicit raises reachable "
    "through resolved calls; store precondition errors excluded) is "
    "reachable on the CFG after the first repository write - "
    "validate-everything-then-write; a write inside a loop whose later "
    "iterations can still be refused is reported as a multi-write loop; "
    "(R2) the batch APIs (compile_mof_string, compile_mof_file, "
    "compile_schema_classes, add_cimobjects) must contain a "
    "snapshot/rollback around the batch (a try whose handler restores the "
    "repository and re-raises) - they write through immediately, so "
    "without it the documented 'repository remains unchanged' cannot hold "
    "for an invalid k-th element. Does not decide equality of repository "
    "dumps or user-defined providers.")
ASSUMPTIONS = [
    "store-level precondition errors (KeyError/ValueError raised inside "
    "InMemoryObjectStore) cannot occur after the provider validated "
    "existence (single-threaded mock)",
    "user-defined providers are out of scope",
]

MAIN = 'pywbem_mock/_mainprovider.py'
IWP = 'pywbem_mock/_instancewriteprovider.py'
DISP = 'pywbem_mock/_providerdispatcher.py'
NSP = 'pywbem_mock/_namespaceprovider.py'
MOCK = 'pywbem_mock/_wbemconnection_mock.py'
STORE = 'pywbem_mock/_inmemoryrepository.py'
SUBP = 'pywbem_mock/_subscriptionproviders.py'

MUTATORS = [
    (MAIN, 'MainProvider', 'CreateClass'), (MAIN, 'MainProvider',
                                            'ModifyClass'),
    (MAIN, 'MainProvider', 'DeleteClass'), (MAIN, 'MainProvider',
                                            'SetQualifier'),
    (MAIN, 'MainProvider', 'DeleteQualifier'),
    (IWP, 'InstanceWriteProvider', 'CreateInstance'),
    (IWP, 'InstanceWriteProvider', 'ModifyInstance'),
    (IWP, 'InstanceWriteProvider', 'DeleteInstance'),
    (IWP, 'InstanceWriteProvider', 'create_multi_namespace_instance'),
    (IWP, 'InstanceWriteProvider', 'modify_multi_namespace_instance'),
    (DISP, 'ProviderDispatcher', 'CreateInstance'),
    (DISP, 'ProviderDispatcher', 'ModifyInstance'),
    (DISP, 'ProviderDispatcher', 'DeleteInstance'),
    (NSP, 'CIMNamespaceProvider', 'CreateInstance'),
    (NSP, 'CIMNamespaceProvider', 'DeleteInstance'),
    (SUBP, 'CIMIndicationFilterProvider', 'CreateInstance'),
    (SUBP, 'CIMIndicationFilterProvider', 'ModifyInstance'),
    (SUBP, 'CIMIndicationFilterProvider', 'DeleteInstance'),
    (SUBP, 'CIMListenerDestinationProvider', 'CreateInstance'),
    (SUBP, 'CIMListenerDestinationProvider', 'ModifyInstance'),
    (SUBP, 'CIMListenerDestinationProvider', 'DeleteInstance'),
    (SUBP, 'CIMIndicationSubscriptionProvider', 'CreateInstance'),
    (SUBP, 'CIMIndicationSubscriptionProvider', 'ModifyInstance'),
    (SUBP, 'CIMIndicationSubscriptionProvider', 'DeleteInstance'),
    (MOCK, 'FakedWBEMConnection', 'add_namespace'),
    (MOCK, 'FakedWBEMConnection', 'remove_namespace'),
]
BATCH = [(MOCK, 'FakedWBEMConnection', n) for n in (
    'compile_mof_string', 'compile_mof_file', 'compile_schema_classes',
    'add_cimobjects')]
WRITE_ATTRS = ('create', 'update', 'delete')


def is_write_call(c, func=None):
    if not isinstance(c, ast.Call) or not isinstance(c.func, ast.Attribute):
        return False
    recv = norm(c.func.value)
    if c.func.attr in WRITE_ATTRS and (
            recv.endswith('_store') or
            (func is not None and
             store_kind(c.func.value, func) is not None)):
        return True
    if c.func.attr in ('add_namespace', 'remove_namespace') and \
            recv.endswith('cimrepository'):
        return True
    return False


def run(repo, rep, tier):
    r1 = rep.rule('C11.R1', 'validate before the first write')
    r2 = rep.rule('C11.R2', 'batch APIs roll back or validate the whole '
                  'batch first')
    write_loops_are_duplicate_free(repo, rep)
    validated_entry_is_deleted_last(repo, rep)
    rollback_undoes_own_work(repo, rep)
    settings_used_after_the_write_are_validated(repo, rep)
    res = Resolver(repo)
    def warn_escapes(call, func):
        # warnings.warn() is a raise point: pywbem's warning classes are
        # exceptions, and a category filtered as 'error' (-W error,
        # simplefilter('error', ...)) makes the call raise
        if dotted(call.func) == 'warnings.warn':
            from ..escape import Esc
            return [Esc('Warning', 'stdlib', func.file, func.qualname,
                        'warnings.warn(...)', call.lineno)]
        return None
    ea = EscapeAnalysis(repo, res, model_none=False,
                        call_escapes=warn_escapes)
    funcs = []
    for path, cn, mn in MUTATORS:
        f = repo.cls(path, cn).methods.get(mn)
        if f is None:
            raise AnalysisError('%s.%s vanished' % (cn, mn))
        funcs.append(f)
    ea.solve(funcs)

    # which repo functions write (transitively, through self.* calls)
    writes_memo = {}

    mainprov = repo.cls(MAIN, 'MainProvider')

    def super_method(f, d, call=None):
        fn = call.func if call is not None else None
        if isinstance(fn, ast.Attribute) and isinstance(fn.value, ast.Call) \
                and isinstance(fn.value.func, ast.Name) and \
                fn.value.func.id == 'super' and f.cls is not None:
            for c in f.cls.mro()[1:]:
                if fn.attr in c.methods:
                    return c.methods[fn.attr]
        if d.startswith('self._mainprovider.') and d.count('.') == 2:
            return mainprov.find_method(d.split('.')[2])
        return None

    def writes(f, depth=0):
        if f.fq in writes_memo:
            return writes_memo[f.fq]
        writes_memo[f.fq] = False
        w = False
        for n in walk_no_nested(f.node):
            if isinstance(n, ast.Call):
                if is_write_call(n, f):
                    w = True
                elif depth < 3:
                    d = dotted(n.func) or ''
                    if d.startswith('self.') and d.count('.') == 1 and \
                            f.cls is not None:
                        m = f.cls.find_method(d[5:])
                        if m is not None and m is not f and \
                                writes(m, depth + 1):
                            w = True
                    sm = super_method(f, d, n)
                    if sm is not None and writes(sm, depth + 1):
                        w = True
        writes_memo[f.fq] = w
        return w

    MUTATORS_OF_OBJECTS = ('update', 'update_existing', 'pop', 'clear',
                           'setdefault', 'append', 'extend', 'remove',
                           'insert', 'popitem', '__setitem__', '__delitem__')

    def borrowed_names(f):
        """local names bound to the repository's own object
        (get/iter_values with copy=False): mutating them IS a repository
        write"""
        out = set()
        for n in ast.walk(f.node):
            call = tgt = None
            if isinstance(n, ast.Assign) and isinstance(n.value, ast.Call):
                call, tgt = n.value, n.targets[0]
            elif isinstance(n, (ast.For, ast.comprehension)) and \
                    isinstance(n.iter, ast.Call):
                call, tgt = n.iter, n.target
            if call is None or not isinstance(call.func, ast.Attribute) or \
                    call.func.attr not in ('get', 'iter_values'):
                continue
            k = [kw.value for kw in call.keywords if kw.arg == 'copy']
            if k and norm(k[0]) in ('False', 'None') and \
                    isinstance(tgt, ast.Name):
                out.add(tgt.id)
        return out

    def mutates_borrowed(f, st):
        names = borrowed_names(f)
        if not names:
            return False
        tg = []
        if isinstance(st, ast.Assign):
            tg = st.targets
        elif isinstance(st, (ast.AugAssign, ast.AnnAssign)):
            tg = [st.target]
        elif isinstance(st, ast.Delete):
            tg = st.targets
        for t in tg:
            base = t
            while isinstance(base, (ast.Attribute, ast.Subscript)):
                base = base.value
            if base is not t and isinstance(base, ast.Name) and \
                    base.id in names:
                return True
        for c in ast.walk(st):
            if isinstance(c, ast.Call) and \
                    isinstance(c.func, ast.Attribute) and \
                    c.func.attr in MUTATORS_OF_OBJECTS:
                base = c.func.value
                while isinstance(base, (ast.Attribute, ast.Subscript)):
                    base = base.value
                if isinstance(base, ast.Name) and base.id in names:
                    return True
        return False

    def stmt_writes(f, st):
        if mutates_borrowed(f, st):
            return True
        for c in ast.walk(st):
            if isinstance(c, ast.Call):
                if is_write_call(c, f):
                    return True
                d = dotted(c.func) or ''
                if d.startswith('self.') and d.count('.') == 1 and \
                        f.cls is not None:
                    m = f.cls.find_method(d[5:])
                    if m is not None and m is not f and writes(m):
                        return True
                sm = super_method(f, d, c)
                if sm is not None and writes(sm):
                    return True
                # dispatcher -> provider, mainprovider -> dispatcher
                if d.split('.')[-1] in ('CreateInstance', 'ModifyInstance',
                                        'DeleteInstance') and \
                        ('provider' in d or 'dispatcher' in d):
                    return True
        return False

    def judged(e):
        if e.kind == 'stdlib' and e.construct == 'warnings.warn(...)':
            return True         # raises when the category is an error
        if e.kind not in ('raise',):
            return False
        if e.file == STORE:
            return False
        if e.exc in ('AssertionError', 'NotImplementedError'):
            return False
        return True

    def loops_around(f, st):
        out = []

        def rec(body, stack):
            for x in body:
                if x is st:
                    out.extend(stack)
                    return True
                for fld in ('body', 'orelse', 'finalbody', 'handlers'):
                    sub = getattr(x, fld, None)
                    if not isinstance(sub, list):
                        continue
                    if fld == 'handlers':
                        for h in sub:
                            if rec(h.body, stack):
                                return True
                        continue
                    nst = stack + [x] if isinstance(
                        x, (ast.For, ast.While)) and fld == 'body' else stack
                    if rec(sub, nst):
                        return True
            return False
        rec(f.node.body, [])
        return out

    def validated_before(f, cfg, w, esc):
        loops = [l for l in loops_around(f, w) if isinstance(l, ast.For)]
        if not loops:
            return False
        lw = loops[-1]
        roots = {x.id for x in ast.walk(lw.iter) if isinstance(x, ast.Name)}
        excs = {e.exc for e in esc}
        for lv in walk_no_nested(f.node):
            if not isinstance(lv, ast.For) or lv is lw:
                continue
            if not roots & {x.id for x in ast.walk(lv.iter)
                            if isinstance(x, ast.Name)}:
                continue
            if not cfg.dominates(lv, lw):
                continue
            body_stmts = [x for b in lv.body for x in ast.walk(b)
                          if isinstance(x, ast.stmt)]
            if any(stmt_writes(f, x) for x in body_stmts
                   if not isinstance(x, (ast.If, ast.For, ast.While,
                                         ast.Try, ast.With))):
                continue
            raised = set()
            for x in body_stmts:
                if isinstance(x, ast.Raise) and x.exc is not None:
                    c = x.exc.func if isinstance(x.exc, ast.Call) else x.exc
                    raised.add((dotted(c) or '').split('.')[-1])
                elif not isinstance(x, (ast.If, ast.For, ast.While, ast.Try,
                                        ast.With)):
                    # a validating helper called in the loop raises it
                    raised |= {e_.exc for e_ in
                               ea.esc_stmt(f, x, None).values()
                               if judged(e_)}
            if raised & excs:
                return True
        return False

    for f in funcs:
        r1.sites += 1
        r1.functions.add(f.fq)
        cfg = CFG(f.node)
        simple = [s for s in cfg.stmts() if not isinstance(
            s, (ast.If, ast.For, ast.While, ast.Try, ast.With))]
        wstmts = [s for s in simple if stmt_writes(f, s)]
        if not wstmts:
            r1.notes.append('%s: no repository write found' % f.qualname)
            r1.ob(True, f.qualname + ':no-write')
            continue
        bad = []
        fin_bad = set()
        for w in wstmts:
            reach = cfg.reachable(w)
            for s in simple:
                if s not in reach:
                    continue
                if s is w and w not in _succ_closure(cfg, w):
                    continue          # the write itself, not in a loop
                esc = [e for e in ea.esc_stmt(f, s, None).values()
                       if judged(e)]
                if s is w:
                    # the write call itself, repeated in a loop: its own
                    # refusals (already exists / not found) are what a
                    # preceding validation loop checks - the accepted shape
                    # is 'validate everything, then only write'.  The
                    # validation loop must be there: a loop over the same
                    # collection that dominates the writing loop, raises the
                    # same exception class and does not write.
                    if esc and not validated_before(f, cfg, w, esc):
                        bad.append((w, s, esc[0]))
                    continue
                if esc:
                    bad.append((w, s, esc[0]))
        # a write in a `finally` block also runs when the protected
        # statements refuse the operation: the failed call changes the
        # repository although nothing comes 'after' the write
        for t in walk_no_nested(f.node):
            if not (isinstance(t, ast.Try) and t.finalbody):
                continue
            fin = [x for b in t.finalbody for x in ast.walk(b)
                   if isinstance(x, ast.stmt) and x in wstmts]
            if not fin:
                continue
            prot = [x for b in t.body + t.orelse +
                    [y for h in t.handlers for y in h.body]
                    for x in ast.walk(b) if isinstance(x, ast.stmt) and
                    x in simple]
            for s in prot:
                esc = [e for e in ea.esc_stmt(f, s, None).values()
                       if judged(e)]
                if esc:
                    bad.append((fin[0], s, esc[0]))
                    fin_bad.add(id(s))
                    break
        r1.ob(not bad, f.qualname,
              {'function': f.qualname,
               'writes': [norm(w, 70) for w in wstmts][:4],
               'raise_after_write': [norm(s, 70) for _, s, _ in bad][:3]})
        seen = set()
        for w, s, e in bad:
            key = norm(s, 70)
            if key in seen:
                continue
            seen.add(key)
            loop = s is w
            if id(s) in fin_bad:
                rep.finding(r1, f.qualname, norm(w, 70),
                            'write-in-finally', f.file, w.lineno,
                            'this repository write is in a finally block: '
                            'it is also carried out when the protected '
                            'statement %s refuses the operation (%s from '
                            '%s), so the failed call changes the repository'
                            % (norm(s, 50), e.exc, e.func),
                            path=list(e.chain) + [e.func])
                continue
            rep.finding(r1, f.qualname, norm(s, 70),
                        'loop' if loop else 'raise-after-write', f.file,
                        s.lineno,
                        ('the write is inside a loop and a later iteration '
                         'can still be refused (%s from %s): earlier '
                         'iterations are not undone' if loop else
                         'after the repository was changed, this statement '
                         'can still raise %s (from %s): the operation fails '
                         'but the change stays') % (e.exc, e.func),
                        path=list(e.chain) + [e.func],
                        alt='origin:%s from %s' % (e.exc, e.func))
    # ---- R2 ---------------------------------------------------------------
    for path, cn, mn in BATCH:
        f = repo.cls(path, cn).methods.get(mn)
        if f is None:
            raise AnalysisError('%s.%s vanished' % (cn, mn))
        r2.sites += 1
        r2.functions.add(f.fq)
        rollback = False
        for n in walk_no_nested(f.node):
            if isinstance(n, ast.Try):
                for h in n.handlers:
                    calls = [dotted(c.func) or '' for b in h.body
                             for c in ast.walk(b) if isinstance(c, ast.Call)]
                    assigns = [norm(b) for b in h.body
                               if isinstance(b, ast.Assign)]
                    restores = any('rollback' in c or 'restore' in c or
                                   c.endswith('.load') for c in calls) or \
                        any('cimrepository' in a or '_repository' in a
                            for a in assigns)
                    reraises = any(isinstance(b, ast.Raise) for b in h.body)
                    if restores and reraises:
                        rollback = True
        r2.ob(rollback, f.qualname, {'function': f.qualname,
                                     'has_rollback': rollback})
        if not rollback:
            rep.finding(r2, f.qualname, mn, 'no-rollback', path,
                        f.node.lineno,
                        '%s writes each object through to the repository '
                        'as it goes and has no snapshot/rollback: when the '
                        'k-th element is rejected, elements 1..k-1 stay in '
                        'the repository although the documentation says it '
                        'remains unchanged' % mn)


def _succ_closure(cfg, n):
    seen = set()
    st = list(cfg.succ[n])
    while st:
        x = st.pop()
        if x in seen:
            continue
        seen.add(x)
        st.extend(cfg.succ[x])
    return seen


def list_composition(func, name, before, depth=0):
    """what the list `name` consists of when the statement `before` is
    reached, in order, as far as the statements of the function that build
    it show: [('elem', expr) | ('call', call node) | ('unknown', node)].
    Handles `name = <list expr>`, name.append(x), name.extend(e),
    name.insert(0, x), `name += e`; list expressions are literals, calls,
    `a + b`, list(x) and other local lists (followed)."""
    def tokens(e, d):
        if isinstance(e, (ast.List, ast.Tuple)):
            return [('elem', x) for x in e.elts]
        if isinstance(e, ast.BinOp) and isinstance(e.op, ast.Add):
            return tokens(e.left, d) + tokens(e.right, d)
        if isinstance(e, ast.Call) and dotted(e.func) in ('list', 'tuple') \
                and len(e.args) == 1:
            return tokens(e.args[0], d)
        if isinstance(e, ast.Call) and dotted(e.func) in ('list', 'tuple') \
                and not e.args:
            return []
        if isinstance(e, ast.Call):
            return [('call', e)]
        if isinstance(e, ast.Name) and d < 2 and e.id != name:
            return list_composition(func, e.id, before, d + 1)
        return [('unknown', e)]
    out = []
    # statements in execution (pre-)order of the tree, up to `before` - not
    # by line number: inlined helper bodies keep the line numbers of the
    # helper
    seq = []

    def dfs(n):
        for fld in ('body', 'orelse', 'handlers', 'finalbody'):
            for c in getattr(n, fld, None) or []:
                if isinstance(c, (ast.FunctionDef, ast.AsyncFunctionDef,
                                  ast.ClassDef)):
                    continue
                if isinstance(c, ast.stmt):
                    seq.append(c)
                dfs(c)
    dfs(func.node)
    stmts = []
    for n in seq:
        if n is before:
            break
        stmts.append(n)
    enclosing = {}
    for lp_ in walk_no_nested(func.node):
        if isinstance(lp_, ast.For):
            for x in ast.walk(lp_):
                if x is not lp_ and isinstance(x, ast.stmt):
                    enclosing[x] = lp_          # innermost wins (visited last)
    derived_from = set()
    for n in stmts:
        lp_ = enclosing.get(n)
        if lp_ is not None and lp_ is not before and depth < 2 and \
                isinstance(n, ast.Expr) and isinstance(n.value, ast.Call) and \
                isinstance(n.value.func, ast.Attribute) and \
                norm(n.value.func.value) == name and \
                n.value.func.attr == 'append' and id(lp_) not in derived_from:
            # one element per element of what the enclosing loop iterates
            derived_from.add(id(lp_))
            out = out + iter_composition(func, lp_, depth + 1)
            continue
        if lp_ is not None and id(lp_) in derived_from and \
                isinstance(n, ast.Expr) and isinstance(n.value, ast.Call) and \
                isinstance(n.value.func, ast.Attribute) and \
                norm(n.value.func.value) == name:
            continue
        if isinstance(n, ast.Assign) and len(n.targets) == 1 and \
                norm(n.targets[0]) == name:
            out = tokens(n.value, depth)
        elif isinstance(n, ast.AugAssign) and norm(n.target) == name and \
                isinstance(n.op, ast.Add):
            out = out + tokens(n.value, depth)
        elif isinstance(n, ast.Expr) and isinstance(n.value, ast.Call) and \
                isinstance(n.value.func, ast.Attribute) and \
                norm(n.value.func.value) == name:
            c = n.value
            if c.func.attr == 'append' and len(c.args) == 1:
                out = out + [('elem', c.args[0])]
            elif c.func.attr == 'extend' and len(c.args) == 1:
                out = out + tokens(c.args[0], depth)
            elif c.func.attr == 'insert' and len(c.args) == 2 and \
                    isinstance(c.args[0], ast.Constant) and \
                    c.args[0].value == 0:
                out = [('elem', c.args[1])] + out
            elif c.func.attr in ('sort', 'reverse', 'insert', 'remove',
                                 'pop', 'clear'):
                out = out + [('unknown', c)]
    return out


def iter_composition(func, lp, depth=0):
    """list_composition() of what a for loop iterates: a local list, or an
    expression made of local lists, literals and calls joined by `+`"""
    it = lp.iter
    if isinstance(it, ast.Name):
        return list_composition(func, it.id, lp, depth)
    toks, work, parts = [], [it], []
    while work:
        e = work.pop()
        if isinstance(e, ast.BinOp) and isinstance(e.op, ast.Add):
            work += [e.right, e.left]
        else:
            parts.append(e)
    for e in parts:
        if isinstance(e, (ast.List, ast.Tuple)):
            toks += [('elem', x) for x in e.elts]
        elif isinstance(e, ast.Name):
            toks += list_composition(func, e.id, lp)
        elif isinstance(e, ast.Call) and dotted(e.func) in (
                'list', 'tuple') and len(e.args) == 1 and \
                isinstance(e.args[0], ast.Name):
            toks += list_composition(func, e.args[0].id, lp)
        elif isinstance(e, ast.Call):
            toks += [('call', e)]
        else:
            toks += [('unknown', e)]
    return toks


def validated_entry_is_deleted_last(repo, rep):
    """C11.R5: DeleteInstance of a multi-namespace association removes one
    copy of the instance per namespace, and store.delete() raises for a
    copy that is missing.  Only the copy in the namespace of the request is
    known to exist (the dispatcher checked it).  The operation changes
    nothing when it fails only if every delete is of an entry whose
    existence was established *before the first delete*:
      (a) the delete of the request's own instance name, or
      (b) a delete under the fact `<store>.object_exists(<name>)`, or
      (c) a delete in a loop over (store, name) pairs all of which were
          collected under that fact;
    and a loop that deletes does nothing else with the repository (a store
    lookup for the next namespace could fail after an earlier iteration has
    already deleted).  Before the repair (8e2cb84) the same rule read "the
    request namespace is deleted last", which made the operation atomic only
    for a single other namespace."""
    from ..cfg import stmt_facts, GuardWalker
    from ..inline import Flat
    r5 = rep.rule('C11.R5', 'in a multi-namespace delete every removal is '
                  'of an entry validated before the first removal')
    IWPF = 'pywbem_mock/_instancewriteprovider.py'
    f0 = repo.cls(IWPF, 'InstanceWriteProvider').methods.get(
        'DeleteInstance')
    if f0 is None:
        raise AnalysisError('InstanceWriteProvider.DeleteInstance vanished')
    f = Flat(f0)
    pname = [p_ for p_ in f0.params if p_ != 'self'][0]
    fx = stmt_facts(f.node)
    r5.functions.add(f0.fq)

    def atoms_at(st):
        return [a for t0, p0 in fx.get(st, ((), ()))[0]
                for a in GuardWalker._atoms(t0, p0)]

    def exists_fact(st, s_txt, x_txt):
        return any(pol and isinstance(t, ast.Call) and
                   isinstance(t.func, ast.Attribute) and
                   t.func.attr == 'object_exists' and
                   norm(t.func.value) == s_txt and len(t.args) == 1 and
                   norm(t.args[0]) == x_txt for t, pol in atoms_at(st))

    def is_delete(c):
        return isinstance(c, ast.Call) and \
            isinstance(c.func, ast.Attribute) and \
            c.func.attr == 'delete' and len(c.args) == 1 and \
            'store' in norm(c.func.value)

    parent = {}
    for n in ast.walk(f.node):
        for c in ast.iter_child_nodes(n):
            parent[c] = n
    sites = [(st, c) for st in fx
             if not isinstance(st, (ast.If, ast.For, ast.While, ast.Try,
                                    ast.With))
             for c in ast.walk(st) if is_delete(c)]
    if not sites:
        raise AnalysisError('DeleteInstance: no store.delete() found')
    for st, c in sites:
        r5.sites += 1
        s_txt, x_txt = norm(c.func.value), norm(c.args[0])
        why = None
        if x_txt == pname:
            why = 'the instance of the request (checked by the dispatcher)'
        elif exists_fact(st, s_txt, x_txt):
            why = 'under %s.object_exists(%s)' % (s_txt, x_txt)
        else:
            # a loop over collected (store, name) pairs
            lp = st
            while lp in parent and not isinstance(lp, ast.For):
                lp = parent[lp]
            if isinstance(lp, ast.For) and \
                    isinstance(lp.target, ast.Tuple) and \
                    [norm(e) for e in lp.target.elts] == [s_txt, x_txt] and \
                    isinstance(lp.iter, ast.Name):
                lst = lp.iter.id
                for _ in range(3):
                    # through locals that only rename the list (the result
                    # temporary of an inlined helper)
                    ds_ = [n_.value for n_ in walk_no_nested(f.node)
                           if isinstance(n_, ast.Assign) and
                           len(n_.targets) == 1 and
                           norm(n_.targets[0]) == lst]
                    if len(ds_) == 1 and isinstance(ds_[0], ast.Name):
                        lst = ds_[0].id
                    else:
                        break
                fills = [(s2, c2) for s2 in fx
                         if not isinstance(s2, (ast.If, ast.For, ast.While,
                                                ast.Try, ast.With))
                         for c2 in ast.walk(s2)
                         if isinstance(c2, ast.Call) and
                         isinstance(c2.func, ast.Attribute) and
                         norm(c2.func.value) == lst and
                         c2.func.attr in ('append', 'extend', 'insert')]
                others = [n for n in walk_no_nested(f.node)
                          if isinstance(n, (ast.Assign, ast.AugAssign)) and
                          any(norm(t) == lst for t in (
                              n.targets if isinstance(n, ast.Assign)
                              else [n.target])) and
                          not (isinstance(n, ast.Assign) and
                               isinstance(n.value, (ast.List, ast.Tuple))
                               and not n.value.elts)]
                good = bool(fills) and not others and all(
                    c2.func.attr == 'append' and len(c2.args) == 1 and
                    isinstance(c2.args[0], ast.Tuple) and
                    len(c2.args[0].elts) == 2 and
                    exists_fact(s2, norm(c2.args[0].elts[0]),
                                norm(c2.args[0].elts[1]))
                    for s2, c2 in fills)
                if good:
                    why = 'pairs collected under object_exists()'
        ok = why is not None
        r5.ob(ok, '%s|%s' % (f0.qualname, norm(c, 50)), {'validated': why})
        if not ok:
            rep.finding(r5, f0.qualname, norm(c, 60), 'unvalidated-delete',
                        IWPF, c.lineno,
                        '%s removes an entry whose existence has not been '
                        'established before the first removal: when that '
                        'copy is missing, store.delete() raises after other '
                        'copies have already been removed - the failed '
                        'operation has changed the repository' % norm(c, 50))
        # nothing else touches the repository inside a deleting loop
        lp = st
        while lp in parent and not isinstance(lp, (ast.For, ast.While)):
            lp = parent[lp]
        if isinstance(lp, (ast.For, ast.While)):
            other = [x for x in ast.walk(lp) if isinstance(x, ast.Call) and
                     not is_delete(x) and
                     isinstance(x.func, ast.Attribute) and
                     ('cimrepository' in norm(x.func.value) or
                      'store' in norm(x.func.value) or
                      x.func.attr.startswith('get_'))]
            ok2 = not other
            r5.ob(ok2, '%s|loop of %s' % (f0.qualname, norm(c, 40)))
            if not ok2:
                rep.finding(r5, f0.qualname, norm(other[0], 60),
                            'lookup-between-deletes', IWPF, other[0].lineno,
                            'the loop that deletes also calls %s: when it '
                            'fails for a later element (a namespace that '
                            'does not exist), earlier iterations have '
                            'already deleted - the failed operation has '
                            'changed the repository' % norm(other[0], 50))


def write_loops_are_duplicate_free(repo, rep, rid='C11.R3'):
    """C11.R3: a loop that deletes / creates one store entry per element of
    a collection must iterate a duplicate-free collection.  The second
    delete of the same entry is refused by the store (KeyError) after the
    first one already removed it: the operation raises although the
    repository was changed.  The collection comes from a helper; the helper
    must build it as a set (and return the set or list(set))."""
    r3 = rep.rule(rid, 'collections driving per-element store writes '
                  'are duplicate-free')
    IWPF = 'pywbem_mock/_instancewriteprovider.py'
    cls = repo.cls(IWPF, 'InstanceWriteProvider')

    def folded(e, f):
        """the expression is a case-folded name: x.lower() / .casefold(),
        or a local whose every definition is one"""
        if isinstance(e, ast.Call) and not e.args and \
                isinstance(e.func, ast.Attribute) and \
                e.func.attr in ('lower', 'casefold'):
            return True
        if isinstance(e, ast.Name):
            defs = [a.value for a in walk_no_nested(f.node)
                    if isinstance(a, ast.Assign) and any(
                        isinstance(t, ast.Name) and t.id == e.id
                        for t in a.targets)]
            return bool(defs) and all(folded(d, f) for d in defs
                                      if not isinstance(d, ast.Name) or
                                      d.id != e.id)
        return False

    def is_ns_name(e, f):
        """the expression is a namespace name as somebody spelled it"""
        if isinstance(e, ast.Attribute) and e.attr == 'namespace':
            return True
        if isinstance(e, ast.Name):
            return any(isinstance(a, ast.Assign) and any(
                isinstance(t, ast.Name) and t.id == e.id
                for t in a.targets) and is_ns_name(a.value, f)
                for a in walk_no_nested(f.node))
        return False

    def set_built(f):
        """every return of f is a set variable or list()/sorted() of one (or
        the values of a dict used as a keyed set), and what is collected is
        distinct *as names*: namespace names are case-insensitive, so a set
        of namespace names as spelled can hold the same namespace twice"""
        sets = set()
        for n in walk_no_nested(f.node):
            if isinstance(n, ast.Assign) and \
                    isinstance(n.targets[0], ast.Name) and (
                        (isinstance(n.value, ast.Call) and
                         dotted(n.value.func) in ('set', 'frozenset')) or
                        isinstance(n.value, (ast.Set, ast.SetComp))):
                sets.add(n.targets[0].id)
            elif isinstance(n, ast.Assign) and \
                    isinstance(n.targets[0], ast.Name) and (
                        (isinstance(n.value, ast.Dict) and
                         not n.value.keys) or
                        (isinstance(n.value, ast.Call) and
                         dotted(n.value.func) in ('dict', 'OrderedDict',
                                                  'NocaseDict') and
                         not n.value.args)):
                sets.add(n.targets[0].id)       # dict used as keyed set
        for n in walk_no_nested(f.node):
            if isinstance(n, ast.Call) and \
                    isinstance(n.func, ast.Attribute) and \
                    isinstance(n.func.value, ast.Name) and \
                    n.func.value.id in sets and n.args:
                if n.func.attr in ('add', 'setdefault'):
                    k = n.args[0]
                    if is_ns_name(k, f) and not folded(k, f):
                        return False
            if isinstance(n, ast.Assign) and \
                    isinstance(n.targets[0], ast.Subscript) and \
                    isinstance(n.targets[0].value, ast.Name) and \
                    n.targets[0].value.id in sets:
                k = n.targets[0].slice
                if is_ns_name(k, f) and not folded(k, f):
                    return False
        rets = [r for r in walk_no_nested(f.node)
                if isinstance(r, ast.Return) and r.value is not None]
        if not rets:
            return False
        for r in rets:
            v = r.value
            if isinstance(v, ast.Call) and dotted(v.func) in (
                    'list', 'sorted', 'tuple') and v.args:
                v = v.args[0]
            if isinstance(v, ast.Call) and not v.args and \
                    isinstance(v.func, ast.Attribute) and \
                    v.func.attr in ('values', 'keys') and \
                    isinstance(v.func.value, ast.Name) and \
                    v.func.value.id in sets:
                continue
            if isinstance(v, ast.Name) and v.id in sets:
                continue
            if isinstance(v, (ast.Set, ast.SetComp)):
                continue
            if isinstance(v, ast.Call) and dotted(v.func) in ('set',
                                                              'frozenset'):
                continue
            if isinstance(v, (ast.List, ast.Tuple)) and not v.elts:
                continue
            return False
        return True
    from ..inline import Flat
    set_helpers = tuple(n_ for n_, h_ in cls.methods.items()
                        if n_.startswith('_') is False and False) + tuple(
        n_ for n_, h_ in cls.methods.items() if set_built(h_))
    for f0 in cls.methods.values():
        # with private helpers inlined - except those that build a set,
        # which are what the rule looks for
        f = Flat(f0, keep=set_helpers)
        for lp in walk_no_nested(f.node):
            if not isinstance(lp, ast.For):
                continue
            writes_ = [c for c in ast.walk(lp) if isinstance(c, ast.Call) and
                       isinstance(c.func, ast.Attribute) and
                       c.func.attr in ('delete', 'create') and
                       norm(c.func.value).endswith('_store')]
            if not writes_:
                continue
            toks = iter_composition(f, lp)
            helpers = [cls.find_method((dotted(v.func) or '')[5:])
                       for k_, v in toks if k_ == 'call' and
                       (dotted(v.func) or '').startswith('self.')]
            if not helpers or any(h is None for h in helpers):
                continue
            r3.sites += 1
            r3.functions.add(f.fq)
            ok = all(set_built(h) for h in helpers)
            r3.ob(ok, '%s|for %s' % (f.qualname, norm(lp.iter, 40)),
                  {'helpers': [h.qualname for h in helpers]})
            if not ok:
                rep.finding(r3, f.qualname, 'for %s in %s' % (
                    norm(lp.target), norm(lp.iter, 40)), 'duplicates-possible',
                    IWPF, lp.lineno,
                    'one store entry is written per element of %s, which '
                    'comes from %s; that helper does not build its result '
                    'as a set, so a value can occur twice (two reference '
                    'properties into the same namespace): the second '
                    'delete of the same entry is refused after the first '
                    'one removed it - the operation raises but the '
                    'repository has changed'
                    % (norm(lp.iter, 40),
                       ', '.join(h.qualname for h in helpers)))
    if r3.sites < 1:
        raise AnalysisError('C11.R3: no per-element store write loop found')


UNDO_OF = {'remove_namespace': 'add_namespace', 'delete': 'create'}


def rollbacks(func):
    """(statement, call, undo name) for repository removals that run inside
    an exception handler"""
    out = []
    for t in walk_no_nested(func.node):
        if not isinstance(t, ast.Try):
            continue
        for h in t.handlers:
            for st in h.body:
                for c in ast.walk(st):
                    if isinstance(c, ast.Call) and \
                            isinstance(c.func, ast.Attribute) and \
                            c.func.attr in UNDO_OF:
                        out.append((st, c, c.func.attr))
    return out


def rollback_undoes_own_work(repo, rep):
    """C11.R4: a provider that cleans up in an exception handler removes
    only what the same call added.  `except CIMError: remove_namespace(ns);
    raise` after a step that fails is a rollback only on the paths on which
    this call ran add_namespace(ns); on a path that found the namespace
    already present the handler removes something that existed before the
    call - the rejected operation has changed the repository."""
    from ..cfg import CFG
    r4 = rep.rule('C11.R4', 'a removal in an exception handler is dominated '
                  'by the matching addition of the same call')
    nfun = 0
    for m in repo.modules.values():
        if not m.relpath.startswith('pywbem_mock/'):
            continue
        for f in m.all_funcs():
            nfun += 1
            rb = rollbacks(f)
            if not rb:
                continue
            cfg = CFG(f.node)
            for st, c, undo in rb:
                r4.sites += 1
                r4.functions.add(f.fq)
                adds = [s_ for s_ in cfg.stmts()
                        if not isinstance(s_, (ast.If, ast.For, ast.While,
                                               ast.Try, ast.With)) and
                        any(isinstance(x, ast.Call) and
                            isinstance(x.func, ast.Attribute) and
                            x.func.attr == UNDO_OF[undo] and
                            [norm(a_) for a_ in x.args[:1]] ==
                            [norm(a_) for a_ in c.args[:1]]
                            for x in ast.walk(s_))]
                ok = bool(adds) and cfg.path_avoiding(
                    cfg.ENTRY, st, lambda n_: n_ in adds) is None
                r4.ob(ok, '%s|%s' % (f.qualname, norm(c, 50)))
                if not ok:
                    rep.finding(r4, f.qualname, norm(c, 60),
                                'rollback-of-foreign-state', m.relpath,
                                c.lineno,
                                'the handler calls %s on a path on which '
                                'this call has not run the matching %s(): '
                                'what existed before the (rejected) '
                                'operation is removed'
                                % (norm(c, 50), UNDO_OF[undo]))
    r4.sites += 1
    r4.ob(nfun > 200, 'functions-scanned', {'functions': nfun})
    if nfun < 200:
        raise AnalysisError('C11.R4: only %d functions scanned' % nfun)
    probe = ast.parse('def f(self, ns):\n    try:\n        self.g()\n'
                      '    except E:\n        self.remove_namespace(ns)\n'
                      '        raise\n').body[0]

    class _F:
        node = probe
    if len(rollbacks(_F)) != 1:
        raise AnalysisError('C11.R4 recogniser broken')


def settings_used_after_the_write_are_validated(repo, rep):
    """C11.R7: _mock_imethodcall() / _mock_methodcall() carry out the
    operation and then sleep for `response_delay`.  time.sleep() raises
    ValueError for a negative number - after the repository was changed.
    The property setter of response_delay refuses such values; the
    constructor must not go around it (`self._response_delay =
    response_delay` stores anything): a FakedWBEMConnection(response_delay=
    -1) makes every CreateClass / SetQualifier / CreateInstance raise
    ValueError with the object already in the repository.  Generally: a
    slot that a validating setter of FakedWBEMConnection guards is not
    assigned from a constructor parameter directly."""
    r7 = rep.rule('C11.R7', 'constructor parameters guarded by a validating '
                  'setter are stored through it')
    cls = repo.cls(MOCK, 'FakedWBEMConnection')
    init = cls.methods.get('__init__')
    if init is None:
        raise AnalysisError('FakedWBEMConnection.__init__ vanished')
    guarded = {}
    for name, st in cls.setters.items():
        raises = any(isinstance(x, ast.Raise) for x in ast.walk(st.node))
        if not raises:
            continue
        for a in walk_no_nested(st.node):
            if isinstance(a, ast.Assign) and \
                    isinstance(a.targets[0], ast.Attribute) and \
                    isinstance(a.targets[0].value, ast.Name) and \
                    a.targets[0].value.id == 'self':
                guarded[a.targets[0].attr] = name
    if not guarded:
        raise AnalysisError('C11.R7: no validating setter found in '
                            'FakedWBEMConnection')
    params = set(init.params)
    for slot, prop in sorted(guarded.items()):
        r7.sites += 1
        r7.functions.add(init.fq)
        bad = [a for a in walk_no_nested(init.node)
               if isinstance(a, ast.Assign) and
               isinstance(a.targets[0], ast.Attribute) and
               isinstance(a.targets[0].value, ast.Name) and
               a.targets[0].value.id == 'self' and
               a.targets[0].attr == slot and
               isinstance(a.value, ast.Name) and a.value.id in params]
        # (a provisional store is fine when the same parameter also goes
        # through the setter later in the constructor)
        bad = [a for a in bad if not any(
            isinstance(b, ast.Assign) and
            isinstance(b.targets[0], ast.Attribute) and
            isinstance(b.targets[0].value, ast.Name) and
            b.targets[0].value.id == 'self' and
            b.targets[0].attr == prop and norm(b.value) == norm(a.value)
            for b in walk_no_nested(init.node))]
        r7.ob(not bad, 'init:' + slot, {'setter': prop})
        for a in bad:
            rep.finding(r7, init.qualname, norm(a, 60), 'setter-bypassed',
                        MOCK, a.lineno,
                        'the constructor stores its parameter in self.%s '
                        'without the check that the %s setter makes: an '
                        'invalid value is only noticed when it is used - '
                        'after the operation has changed the repository'
                        % (slot, prop))
