"""C19 - logging, recorders, statistics and debug never change what an
operation returns."""
import ast

from ..model import (AnalysisError, walk_no_nested, dotted, norm, const_str)
from ..cfg import CFG, stmt_facts
from ..escape import EscapeAnalysis, Esc
from ..resolve import Resolver
from ..ops import operations, OPS
from ..flow import possibly_unbound

EXPLANATION = (
    "Static check of the observer machinery: (R1) exception-escape analysis "
    "of every recorder/statistics entry point called from the operations "
    "(operation_recorder_reset/stage_pywbem_args/stage_result, "
    "stage_http_request/response1/response2, record_staged, record, "
    "start_timer/stop_timer): strict decoding of server bytes, fixed-arity "
    "unpacking, conversions and explicit raises must not be able to "
    "propagate (an observer that raises changes the outcome); (R2) a byte "
    "string sliced by a length must not flow into a strict decode; (R3) a "
    "conversion whose failure is swallowed must not leave the unconverted "
    "value in the variable; (R4) each of the 34 operations calls "
    "start_timer(<its own name>) exactly once directly before its try, "
    "stop_timer exactly once in the finally with the exc variable both "
    "handlers assign, and hands the recorders a result variable that is "
    "bound on every path (definite assignment on the CFG); (R5) every "
    "recorder call in an operation and in wbem_request is under the "
    "`operation recorders present` test; (R6) the password (creds[1], auth, "
    "auth64, the Authorization header) does not flow to recorder calls, "
    "loggers, warnings, print or exception constructors, and __str__/"
    "__repr__ show creds[0] only, for every non-None creds. Outcome "
    "equality across configurations is not decided.")
ASSUMPTIONS = [
    "logging.Logger methods and file writes of an opened recorder file do "
    "not raise",
    "request payloads are pywbem's own UTF-8 output (strict decode of "
    "request data is safe); response payloads are arbitrary server bytes",
    "stop_timer's RuntimeError (stop without start) is excluded when R4 "
    "holds for all operations",
]

REC = 'pywbem/_recorder.py'
STAT = 'pywbem/_statistics.py'
HTTP = 'pywbem/_cim_http.py'
RECORDER_ENTRY = ('reset', 'stage_wbem_connection', 'stage_pywbem_args',
                  'stage_pywbem_result', 'stage_http_request',
                  'stage_http_response1', 'stage_http_response2',
                  'record_staged', 'record')


def _only_stages(func, call, depth=0):
    """the call is part of the recorder staging (or the open check) that
    legitimately precedes start_timer(): directly, or a private helper of
    the connection all of whose calls are"""
    from ..paths import _helper_of
    d = dotted(call.func) or ''
    if d.startswith('self.operation_recorder_') or d == 'self._verify_open':
        return True
    if d == 'dict' and not call.args and all(
            k.arg is not None and isinstance(k.value, (ast.Name,
                                                       ast.Constant))
            for k in call.keywords):
        return True     # builds a dictionary of names: cannot raise
    h = _helper_of(func, call) if depth < 2 else None
    if h is None:
        return False
    return all(_only_stages(h, c, depth + 1)
               for c in walk_no_nested(h.node) if isinstance(c, ast.Call))


def run(repo, rep, tier):
    r1 = rep.rule('C19.R1', 'observers cannot raise on data')
    r2 = rep.rule('C19.R2', 'no strict decode after truncation')
    r3 = rep.rule('C19.R3', 'failed conversions do not leak their input '
                  'type')
    r4 = rep.rule('C19.R4', 'statistics/recorder bookkeeping per operation')
    r5 = rep.rule('C19.R5', 'recorders are optional')
    r6 = rep.rule('C19.R6', 'the password does not flow to observers')
    statistics_reentry_rule(repo, rep)
    staged_args_rule(repo, rep)
    record_staged_is_read_only(repo, rep)
    staging_keywords_cannot_collide(repo, rep)
    toyaml_returns_plain_values(repo, rep)
    maxlen_is_an_int(repo, rep)
    message_data_is_used_type_agnostically(repo, rep)
    from .c02 import operation_envelopes_agree
    operation_envelopes_agree(repo, rep, 'C19.R10', 'finally')
    ops = operations(repo)
    conn = repo.cls(OPS, 'WBEMConnection')

    # ---- R4 ---------------------------------------------------------------
    r4_ok_all = True
    for op in ops:
        f = op.func
        r4.sites += 1
        r4.functions.add(f.fq)
        body = f.body
        ok = len(op.start_timer) == 1 and len(op.stop_timer) == 1
        idx = None
        for i, s in enumerate(body):
            if isinstance(s, ast.Assign) and op.start_timer and \
                    s.value is op.start_timer[0]:
                idx = i
        ok = ok and idx is not None and idx + 1 < len(body) and \
            body[idx + 1] is op.main_try
        nm = None
        if op.start_timer and op.start_timer[0].args:
            a = op.start_timer[0].args[0]
            nm = const_str(a) or (op.method_name if isinstance(a, ast.Name)
                                  and a.id == op.method_name_var else None)
        ok = ok and nm == f.name
        r4.ob(ok, f.name + ':start', {'operation': f.name,
                                      'start_timer_name': nm})
        if not ok:
            r4_ok_all = False
            rep.finding(r4, f.qualname, 'start_timer', 'start', OPS,
                        f.node.lineno, 'start_timer(<own name>) is not '
                        'called exactly once directly before the try')
        # nothing that can fail runs before the timer is started and the
        # call is staged for the recorders: a failure there (argument
        # validation) would be missing from the statistics and from the
        # recorders although the caller sees the exception
        if idx is not None:
            early = []
            for s in body[:idx]:
                if isinstance(s, (ast.FunctionDef, ast.AsyncFunctionDef,
                                  ast.ClassDef)):
                    continue          # a definition does not run its body
                for c in walk_no_nested(s):
                    if isinstance(c, ast.Call) and not _only_stages(f, c):
                        early.append(c)
            r4.ob(not early, f.name + ':nothing-before-start',
                  {'calls_before_start_timer': [norm(c, 50) for c in early]})
            if early:
                r4_ok_all = False
                rep.finding(r4, f.qualname, norm(early[0], 60),
                            'before-start', OPS, early[0].lineno,
                            '%s runs before start_timer() and before the '
                            'recorders stage the call: when it raises (e.g. '
                            'argument validation), the failed operation is '
                            'not counted in the statistics and not seen by '
                            'the recorders, while the sibling operations '
                            'count such failures' % norm(early[0], 50))
        t = op.main_try
        in_fin = t is not None and op.stop_timer and any(
            x is op.stop_timer[0] for s in t.finalbody for x in ast.walk(s))
        evars = []
        # the exception variable is identified by its role: the last
        # argument of stop_timer()
        ev = norm(op.stop_timer[0].args[-1]) if op.stop_timer and \
            op.stop_timer[0].args and \
            isinstance(op.stop_timer[0].args[-1], ast.Name) else None
        if t is not None and ev:
            for h in t.handlers:
                if h.name and any(isinstance(s, ast.Assign) and
                                  norm(s) == '%s = %s' % (ev, h.name)
                                  for s in h.body):
                    evars.append(h.name)
        ok = bool(in_fin and t is not None and ev and len(evars) >= 1 and
                  len(t.handlers) == len(evars))
        r4.ob(ok, f.name + ':stop')
        if not ok:
            r4_ok_all = False
            rep.finding(r4, f.qualname, 'stop_timer', 'stop', OPS,
                        f.node.lineno, 'stop_timer(..., exc) is not called '
                        'exactly once in the finally clause with the '
                        'exception recorded by every handler: failed '
                        'operations are not counted (or counted as '
                        'successful)')
        # the result variable handed to the recorders is definitely bound
        ub = [(n, nm_) for n, st, nm_ in possibly_unbound(f)
              if t is not None and any(nm_ is x for s in t.finalbody
                                       for x in ast.walk(s))]
        r4.ob(not ub, f.name + ':finally-bound')
        for n, nm_ in ub:
            rep.finding(r4, f.qualname, n, 'unbound-in-finally', OPS,
                        nm_.lineno, 'local %r may be unbound in the finally '
                        'clause (when the request fails early): with a '
                        'recorder enabled the original exception is replaced '
                        'by UnboundLocalError' % n)
        # ---- R5 (operation part) ----------------------------------------
        facts = stmt_facts(f.node)
        for st, (fs, _) in facts.items():
            if isinstance(st, (ast.If, ast.Try, ast.For, ast.While,
                               ast.With)):
                continue
            for c in ast.walk(st):
                if isinstance(c, ast.Call) and \
                        (dotted(c.func) or '').startswith(
                            'self.operation_recorder_'):
                    r5.sites += 1
                    ok = any(pol and norm(t_) == 'self._operation_recorders'
                             for t_, pol in fs)
                    r5.ob(ok, '%s:%s' % (f.name, dotted(c.func)))
                    if not ok:
                        rep.finding(r5, f.qualname, dotted(c.func),
                                    'unguarded', OPS, c.lineno,
                                    'recorder call is not under `if '
                                    'self._operation_recorders`')
    # ---- R5 in wbem_request ------------------------------------------------
    wreq = repo.func(HTTP, 'wbem_request')
    facts = stmt_facts(wreq.node)
    rec_vars = {n.target.id for n in walk_no_nested(wreq.node)
                if isinstance(n, ast.For) and isinstance(n.target, ast.Name)
                and norm(n.iter).endswith('operation_recorders')}
    for st, (fs, _) in facts.items():
        if isinstance(st, (ast.If, ast.Try, ast.For, ast.While, ast.With)):
            continue
        for c in ast.walk(st):
            if isinstance(c, ast.Call) and \
                    (dotted(c.func) or '').split('.')[0] in rec_vars and \
                    (dotted(c.func) or '').count('.') == 1:
                r5.sites += 1
                ok = any(pol and norm(t_) == 'conn.operation_recorders'
                         for t_, pol in fs)
                r5.ob(ok, 'wbem_request:' + dotted(c.func))
                if not ok:
                    rep.finding(r5, wreq.qualname, dotted(c.func),
                                'unguarded', HTTP, c.lineno,
                                'recorder call is not under `if '
                                'conn.operation_recorders`')
    # ---- R1 / R2 -----------------------------------------------------------
    rec_mod = repo.module(REC)
    entries = []
    for c in rec_mod.classes.values():
        if c.is_subclass_of('BaseOperationRecorder'):
            for n in RECORDER_ENTRY + ('toyaml',):
                m = c.methods.get(n)
                if m is not None:
                    entries.append(m)
    for n in ('operation_recorder_reset',
              'operation_recorder_stage_pywbem_args',
              'operation_recorder_stage_result'):
        m = conn.methods.get(n)
        if m is None:
            raise AnalysisError('WBEMConnection.%s vanished' % n)
        entries.append(m)
    stat_mod = repo.module(STAT)
    for c in stat_mod.classes.values():
        for n in ('start_timer', 'stop_timer'):
            if n in c.methods:
                entries.append(c.methods[n])
    if len(entries) < 20:
        raise AnalysisError('only %d observer entry points found'
                            % len(entries))
    res = Resolver(repo)

    def dyn(call, func):
        d = dotted(call.func)
        if d and d.startswith('recorder.') and d.count('.') == 1:
            out = []
            for c in rec_mod.classes.values():
                m = c.methods.get(d.split('.')[1])
                if m is not None:
                    out.append(m)
            return out
        return None
    res.dynamic.append(dyn)

    class EA(EscapeAnalysis):
        def _call(self, func, call, stmt, out):
            d = dotted(call.func)
            if d in ('_ensure_unicode', '_to_unicode') and call.args:
                from ..escape import _put
                _put(out, Esc('UnicodeError', 'decode', func.file,
                              func.qualname, norm(call), call.lineno))
            EscapeAnalysis._call(self, func, call, stmt, out)
    def conv_guard(call, func, facts):
        # int(x)/float(x) on a value the enclosing isinstance test proves
        # numeric
        a = call.args[0]
        for t, pol in facts:
            if pol and isinstance(t, ast.Call) and \
                    dotted(t.func) == 'isinstance' and \
                    norm(t.args[0]) == norm(a):
                tt = t.args[1]
                names = [norm(e) for e in (tt.elts if isinstance(
                    tt, ast.Tuple) else [tt])]
                if all(n in ('CIMInt', 'CIMFloat', 'int', 'float', 'bool')
                       for n in names):
                    return True
        return False

    def esc_filter(call, func, target, e):
        # CIMDateTime(obj) under isinstance(obj, (datetime, timedelta))
        if target.cls is not None and target.cls.name == 'CIMDateTime' and \
                call.args and isinstance(call.args[0], ast.Name):
            for st, (fs, _) in ea.facts(func).items():
                if any(x is call for x in ast.walk(st)) and not isinstance(
                        st, (ast.If, ast.Try, ast.For, ast.While)):
                    for t, pol in fs:
                        if pol and isinstance(t, ast.Call) and \
                                dotted(t.func) == 'isinstance' and \
                                norm(t.args[0]) == call.args[0].id and \
                                norm(t.args[1]) in ('datetime', 'timedelta',
                                                    '(datetime, timedelta)'):
                            return False
        return True

    ea = EA(repo, res, model_decode=True, model_unpack=True,
            conv_guard=conv_guard, esc_filter=esc_filter)
    ea.solve(entries)
    seen = set()

    def response_data(e):
        """strict decodes of *request* data (pywbem's own output) are not
        judged"""
        txt = e.construct
        return 'request' not in txt.lower() or 'response' in txt.lower()

    for f in entries:
        r1.sites += 1
        r1.functions.add(f.fq)
        for e in ea.summ.get(f.fq, {}).values():
            if e.kind == 'assert' or e.key in seen:
                continue
            if e.exc == 'NotImplementedError':
                continue       # abstract base recorder
            if e.exc == 'RuntimeError' and e.func.endswith('stop_timer') \
                    and r4_ok_all:
                continue       # start/stop pairing holds (R4)
            if e.kind == 'raise' and e.exc == 'TypeError' and \
                    e.func.endswith('.toyaml'):
                continue       # documented: unsupported user argument type
            if e.kind == 'decode':
                if '.encode(' in e.construct:
                    continue
                if not response_data(e):
                    continue
                # request payload decodes in functions handling the request
                of = e.func.lower()
                if 'request' in of and 'response' not in of:
                    continue
            seen.add(e.key)
            sliced = e.kind == 'decode' and '[:' in e.construct
            rr = r2 if sliced else r1
            rr.ob(False, '%s|%s|%s' % (e.func, e.construct, e.exc))
            why = ('a byte string cut at a length is decoded strictly: a '
                   'multi-byte character split by the cut raises '
                   'UnicodeDecodeError') if sliced else (
                '%s can propagate out of the observer %s'
                % (e.exc, f.qualname))
            rep.finding(rr, e.func, e.construct, e.exc, e.file, e.line,
                        why + ': enabling the observer turns a working '
                        'operation (or the documented pywbem error) into '
                        'this exception', path=list(e.chain) + [e.func],
                        alt=e.construct, alt_func='*')
    # ---- R8: the envelope siblings reset the same bookkeeping -------------
    # _imethodcall, _methodcall and _iexportcall record the request and reset
    # the reply attributes before the transport call, so that a failed
    # request does not leave the previous operation's reply visible.
    r8 = rep.rule('C19.R8', 'the three envelope functions reset the same '
                  'last_* attributes before sending')
    resets = {}
    for en in ('_imethodcall', '_methodcall', '_iexportcall'):
        ef = conn.methods.get(en)
        if ef is None:
            raise AnalysisError(en + ' vanished')
        r8.functions.add(ef.fq)
        send_line = min([c.lineno for c in walk_no_nested(ef.node)
                         if isinstance(c, ast.Call) and
                         dotted(c.func) == 'wbem_request'] or [0])
        if not send_line:
            raise AnalysisError(en + ': wbem_request call not found')
        st = {}
        for n in ef.body:
            if isinstance(n, ast.Assign) and n.lineno < send_line and \
                    len(n.targets) == 1 and \
                    norm(n.targets[0]).startswith('self._last_'):
                v = n.value
                st[norm(n.targets[0])] = norm(v) if isinstance(
                    v, ast.Constant) else '<request>'
        resets[en] = st
    ref = resets['_imethodcall']
    if len(ref) < 4:
        raise AnalysisError('_imethodcall: bookkeeping resets not found')
    for en, st in resets.items():
        r8.sites += 1
        ok = st == ref
        r8.ob(ok, en, {'function': en, 'resets': st})
        if not ok:
            diff = sorted(set(st.items()) ^ set(ref.items()))
            rep.finding(r8, 'WBEMConnection.' + en, 'last_* resets',
                        'sibling-differs', OPS,
                        conn.methods[en].node.lineno,
                        '%s resets %s before sending, its siblings reset %s: '
                        'after a request that fails before a reply is '
                        'received the connection still shows the previous '
                        'operation\'s data' % (en, sorted(st), sorted(ref)))
    # ---- R7: the recorder's serialiser is total over what results hold ---
    # Results handed to stage_result() contain values produced by the
    # CIM-XML parser; every Python type the parser's unpack_* functions can
    # produce must have a branch in TestClientRecorder.toyaml(), else the
    # recorder turns a successful operation into TypeError.
    r7 = rep.rule('C19.R7', 'TestClientRecorder.toyaml() has a branch for '
                  'every value type the reply parser produces')
    tpc = repo.cls('pywbem/_tupleparse.py', 'TupleParser')
    produced = {}
    for name, f in tpc.methods.items():
        if not name.startswith('unpack_'):
            continue
        for n in walk_no_nested(f.node):
            if isinstance(n, ast.Assign) and isinstance(n.value, ast.Call) \
                    and dotted(n.value.func) in ('int', 'float', 'str',
                                                 'bool'):
                produced.setdefault(dotted(n.value.func), f.qualname)
            if isinstance(n, ast.Return) and \
                    isinstance(n.value, ast.Constant) and \
                    isinstance(n.value.value, bool):
                produced.setdefault('bool', f.qualname)
            if isinstance(n, ast.Return) and isinstance(n.value, ast.Call) \
                    and dotted(n.value.func) in ('int', 'float', 'str'):
                produced.setdefault(dotted(n.value.func), f.qualname)
    ty = None
    for c in rec_mod.classes.values():
        if 'toyaml' in c.methods and c.name == 'TestClientRecorder':
            ty = c.methods['toyaml']
    if ty is None:
        raise AnalysisError('TestClientRecorder.toyaml vanished')
    handled = set()
    for n in walk_no_nested(ty.node):
        if isinstance(n, ast.Call) and dotted(n.func) == 'isinstance' and \
                len(n.args) == 2:
            t = n.args[1]
            for x in (t.elts if isinstance(t, ast.Tuple) else [t]):
                handled.add(norm(x))
    if len(produced) < 2 or len(handled) < 8:
        raise AnalysisError('toyaml / unpack_* type tables not recognised '
                            '(%s / %s)' % (sorted(produced), len(handled)))
    r7.functions.add(ty.fq)
    for tname, where in sorted(produced.items()):
        r7.sites += 1
        ok = tname in handled or (tname == 'bool' and 'int' in handled)
        r7.ob(ok, 'toyaml:' + tname, {'type': tname, 'produced_by': where,
                                      'handled': ok})
        if not ok:
            rep.finding(r7, ty.qualname, 'isinstance(obj, %s)' % tname,
                        'unhandled-type', REC, ty.node.lineno,
                        '%s produces a plain Python %s (e.g. an untyped '
                        'numeric KEYVALUE such as 1.5 in a returned instance '
                        'path) but toyaml() has no branch for it and raises '
                        'TypeError: with the TestClientRecorder enabled a '
                        'successful operation fails' % (where, tname))
    r1.ob(True, 'entries', {'observer_entry_points': len(entries),
                            'functions_analysed': len(ea.analysed)})
    r1.notes.append('calls %s' % ea.call_stats)
    # R2 positive evidence: every decode-ish call in the recorder module
    for f in rec_mod.all_funcs():
        for c in walk_no_nested(f.node):
            if isinstance(c, ast.Call) and c.args and (
                    dotted(c.func) in ('_ensure_unicode', '_to_unicode',
                                       '_decode_lenient') or
                    (isinstance(c.func, ast.Attribute) and
                     c.func.attr == 'decode')):
                r2.sites += 1
                arg = c.args[0] if dotted(c.func) and \
                    not isinstance(c.func, ast.Attribute) else c.func.value
                sl = isinstance(arg, ast.Subscript) and \
                    isinstance(arg.slice, ast.Slice)
                strict = dotted(c.func) in ('_ensure_unicode',
                                            '_to_unicode') or (
                    isinstance(c.func, ast.Attribute) and
                    not any(k.arg == 'errors' for k in c.keywords) and
                    len(c.args) < 2)
                r2.ob(not (sl and strict), '%s|%s' % (f.qualname, norm(c)),
                      {'function': f.qualname, 'decode': norm(c, 80),
                       'sliced': sl, 'strict': strict})
    # ---- R3 ---------------------------------------------------------------
    for path in (HTTP, OPS, REC, STAT):
        for f in repo.module(path).all_funcs():
            for n in walk_no_nested(f.node):
                if not isinstance(n, ast.Try):
                    continue
                for s in n.body:
                    if isinstance(s, ast.Assign) and len(s.targets) == 1 and \
                            isinstance(s.targets[0], ast.Name):
                        v = s.targets[0].id
                        convs = [c for c in ast.walk(s.value)
                                 if isinstance(c, ast.Call) and
                                 dotted(c.func) in ('int', 'float') and
                                 c.args and norm(c.args[0]) == v]
                        if not convs:
                            continue
                        r3.sites += 1
                        r3.functions.add(f.fq)
                        bad = any(all(isinstance(x, ast.Pass)
                                      for x in h.body) for h in n.handlers)
                        r3.ob(not bad, '%s|%s' % (f.qualname, norm(s)),
                              {'function': f.qualname, 'conversion': norm(s),
                               'handler_keeps_input': bad})
                        if bad:
                            rep.finding(r3, f.qualname, norm(s),
                                        'keeps-input', path, s.lineno,
                                        'when the conversion fails the '
                                        'handler passes and %r keeps its '
                                        'unconverted value, which later code '
                                        '(statistics) uses as a number' % v)
    if r3.sites == 0:
        raise AnalysisError('no try-guarded self-conversion found (R3 '
                            'anchor svr_resp_time vanished)')
    # ---- R6 ---------------------------------------------------------------
    r6.functions.add(wreq.fq)
    # with the private helpers of the module inlined, so that it does not
    # matter where the Authorization header is put together
    from ..inline import Flat as _Flat6
    wreq6 = _Flat6(wreq)
    # a module-level helper that wraps the transport call counts as the
    # transport call
    senders = {n_ for n_, g_ in wreq.module.functions.items() if any(
        isinstance(c_, ast.Call) and
        (dotted(c_.func) or '').endswith('session.post')
        for c_ in ast.walk(g_.node)) and g_ is not wreq}

    def is_post(c_):
        d_ = dotted(c_.func) or ''
        return d_.endswith('session.post') or d_ in senders
    tainted = set()
    for _round in range(3):
      for n in walk_no_nested(wreq6.node):
        if isinstance(n, ast.Assign):
            txt = norm(n.value, 400)
            tgt = n.targets[0]
            if isinstance(n.value, ast.Call) and is_post(n.value):
                continue       # the transport itself is the legitimate sink
            if 'conn.creds[1]' in txt or any(t in tainted and
                                             t in [x.id for x in
                                                   ast.walk(n.value)
                                                   if isinstance(x, ast.Name)]
                                             for t in list(tainted)):
                if isinstance(tgt, ast.Name):
                    tainted.add(tgt.id)
                elif isinstance(tgt, ast.Subscript) and \
                        isinstance(tgt.value, ast.Name):
                    tainted.add(tgt.value.id)
    # the credential must be seen to flow into the headers handed to the
    # transport (otherwise the taint analysis lost track of it)
    post_args = set()
    for c in walk_no_nested(wreq6.node):
        if isinstance(c, ast.Call) and is_post(c):
            for a in list(c.args) + [k.value for k in c.keywords]:
                post_args |= {x.id for x in ast.walk(a)
                              if isinstance(x, ast.Name)}
    if len(tainted) < 2 or not (tainted & post_args):
        raise AnalysisError('wbem_request: credential flow not recognised '
                            '(tainted=%s)' % sorted(tainted))
    sinks = 0
    for c in walk_no_nested(wreq6.node):
        if not isinstance(c, ast.Call):
            continue
        d = dotted(c.func) or ''
        is_sink = d.split('.')[0] in rec_vars or d.startswith('warnings.') or \
            d == 'print' or d.startswith('logger.') or \
            d.split('.')[-1] in ('AuthError', 'HTTPError', 'ConnectionError',
                                 'TimeoutError', 'HeaderParseError')
        if not is_sink:
            continue
        sinks += 1
        r6.sites += 1
        used = [x.id for a in list(c.args) + [k.value for k in c.keywords]
                for x in ast.walk(a) if isinstance(x, ast.Name) and
                x.id in tainted]
        ok = not used
        r6.ob(ok, 'wbem_request:%s' % norm(c.func),
              {'sink': norm(c.func), 'tainted_args': used})
        if not ok:
            rep.finding(r6, wreq.qualname, norm(c, 80), 'password-flow',
                        HTTP, c.lineno, 'credential-derived value %s is '
                        'passed to an observer/exception' % used)
    if sinks < 4:
        raise AnalysisError('wbem_request: observer sinks not found')
    for mn in ('__str__', '__repr__'):
        f = conn.methods.get(mn)
        if f is None:
            raise AnalysisError('WBEMConnection.%s vanished' % mn)
        r6.sites += 1
        r6.functions.add(f.fq)
        facts = stmt_facts(f.node)
        bad = []
        for st, (fs, _) in facts.items():
            if isinstance(st, (ast.If, ast.Try, ast.For, ast.While)):
                continue
            for x in ast.walk(st):
                if isinstance(x, ast.Attribute) and dotted(x) in (
                        'self.creds', 'self._creds', 's.creds'):
                    # allowed: self.creds[0], tests on self.creds, and use
                    # under the fact that creds is None
                    parent_ok = False
                    for y in ast.walk(st):
                        if isinstance(y, ast.Subscript) and y.value is x and \
                                isinstance(y.slice, ast.Constant) and \
                                y.slice.value == 0:
                            parent_ok = True
                    none_fact = any(
                        (norm(t_) in ('self.creds is not None',) and not pol)
                        or (norm(t_) == 'self.creds is None' and pol)
                        for t_, pol in fs)
                    if not (parent_ok or none_fact):
                        bad.append(st)
        for n in walk_no_nested(f.node):
            s = const_str(n) if isinstance(n, ast.Constant) else None
            if s and ('{s.creds' in s or '{s._creds' in s):
                bad.append(n)
        r6.ob(not bad, 'WBEMConnection.%s' % mn)
        for st in bad[:1]:
            rep.finding(r6, f.qualname, norm(st, 80), 'creds-shown', OPS,
                        st.lineno, 'the credentials object is formatted as '
                        'a whole on a path where it is not None: the '
                        'password appears in %s() and in the connection log '
                        'record' % mn.strip('_'))


def _stat_name_template(expr, func):
    """constant prefix of the statistics name (up to the first formatted
    value), resolving a local assigned once; None if not evident"""
    if isinstance(expr, ast.Name):
        defs = [n.value for n in walk_no_nested(func.node)
                if isinstance(n, ast.Assign) and len(n.targets) == 1 and
                isinstance(n.targets[0], ast.Name) and
                n.targets[0].id == expr.id]
        if len(defs) != 1:
            return None
        expr = defs[0]
    if isinstance(expr, ast.Constant) and isinstance(expr.value, str):
        return expr.value + '\0'
    if isinstance(expr, ast.JoinedStr):
        pre = ''
        for v in expr.values:
            if isinstance(v, ast.Constant):
                pre += v.value
            else:
                return pre
        return pre + '\0'
    return None


def statistics_reentry_rule(repo, rep):
    """C19.R9: an operation statistic has one timer.  A block
    `with self.statistics(name)` that (directly or through methods of the
    same class) opens another statistics context whose name can be the same
    - e.g. a function that calls itself for each list item - stops that
    timer in the inner exit and raises RuntimeError in the outer one, but
    only when statistics are enabled.  Allowed when Statistics.__enter__
    recognises a name that is already on its context stack."""
    r9 = rep.rule('C19.R9', 'statistics contexts are not re-entered with the '
                  'same name (or the context manager is re-entrant)')
    st = repo.cls(STAT, 'Statistics')
    ent = st.methods.get('__enter__')
    if ent is None:
        raise AnalysisError('Statistics.__enter__ vanished')
    reentrant = False
    for n in walk_no_nested(ent.node):
        if isinstance(n, ast.If) and '_cm_stack' in norm(n.test, 400):
            calls = [dotted(c.func) or '' for b in n.body
                     for c in ast.walk(b) if isinstance(c, ast.Call)]
            if not any(c.endswith('start_timer') for c in calls) and \
                    any(isinstance(b, ast.Return) for b in n.body):
                reentrant = True
    r9.functions.add(ent.fq)
    opens = {}       # func fq -> [(with node, template)]
    funcs = {}
    for m in repo.modules.values():
        for f in m.all_funcs():
            for w in walk_no_nested(f.node):
                if not isinstance(w, ast.With):
                    continue
                for it in w.items:
                    c = it.context_expr
                    if isinstance(c, ast.Call) and \
                            (dotted(c.func) or '').endswith('.statistics') \
                            and c.args:
                        opens.setdefault(f.fq, []).append(
                            (w, _stat_name_template(c.args[0], f)))
                        funcs[f.fq] = f
    if len(opens) < 3:
        raise AnalysisError('only %d statistics contexts found' % len(opens))

    def callees(f, body, depth=0, seen=None):
        seen = seen if seen is not None else set()
        out = []
        for b in body:
            for c in ast.walk(b):
                if not isinstance(c, ast.Call):
                    continue
                d = dotted(c.func) or ''
                if d.startswith('self.') and d.count('.') == 1 and \
                        f.cls is not None:
                    g = f.cls.find_method(d[5:])
                    if g is None or g.fq in seen:
                        continue
                    seen.add(g.fq)
                    out.append((g, c))
                    if depth < 2 and g.fq not in opens:
                        out += callees(g, g.body, depth + 1, seen)
        return out
    for fq, lst in sorted(opens.items()):
        f = funcs[fq]
        for w, tpl in lst:
            r9.sites += 1
            r9.functions.add(f.fq)
            clash = []
            for g, c in callees(f, w.body):
                for _w2, tpl2 in opens.get(g.fq, []):
                    if tpl is None or tpl2 is None or tpl == tpl2 or \
                            (not tpl.endswith('\0') and
                             tpl2.startswith(tpl)) or \
                            (not tpl2.endswith('\0') and
                             tpl.startswith(tpl2)):
                        clash.append((g, c))
            ok = reentrant or not clash
            r9.ob(ok, f.qualname, {'name': tpl, 'nested_same_name': [
                g.qualname for g, _ in clash], 'reentrant': reentrant})
            if not ok:
                g, c = clash[0]
                rep.finding(r9, f.qualname, norm(c, 70), 'timer-reentered',
                            f.file, c.lineno,
                            'inside `with self.statistics(%r...)` the call '
                            '%s opens a statistics context whose name can '
                            'be the same: the inner exit stops the only '
                            'timer of that operation statistic and the '
                            'outer exit raises RuntimeError(stop_timer() '
                            'called without preceding start_timer()) - '
                            'with stats_enabled=True only, so enabling '
                            'statistics changes the outcome of the call'
                            % ((tpl or '').rstrip('\0'), norm(c, 60)))


def staged_args_rule(repo, rep):
    """C19.R11: the call handed to the recorders is the call that was made:
    operation_recorder_stage_pywbem_args() receives every parameter of the
    operation under its own name (plus method=).  A parameter that is left
    out, or staged under another name / with another variable, makes the
    recorded operation (log line, test-client YAML) differ from the real
    one."""
    r11 = rep.rule('C19.R11', 'every parameter of an operation is staged for '
                   'the recorders under its own name')
    for op in operations(repo):
        f = op.func
        ps = [p for p in f.params if p != 'self']
        from ..inline import Flat
        calls = [c for c in walk_no_nested(Flat(f).node)
                 if isinstance(c, ast.Call) and
                 (dotted(c.func) or '').endswith(
                     'operation_recorder_stage_pywbem_args')]
        r11.sites += 1
        r11.functions.add(f.fq)
        if len(calls) != 1:
            r11.ob(False, f.name)
            rep.finding(r11, f.qualname, 'operation_recorder_stage_pywbem_'
                        'args', 'stage-count', OPS, f.node.lineno,
                        '%d staging calls (expected 1)' % len(calls))
            continue
        c = calls[0]
        star = [norm(k.value) for k in c.keywords if k.arg is None]
        kws = {k.arg: norm(k.value) for k in c.keywords if k.arg}
        # `**args` of a local dictionary that is built once (dict(k=v, ...)
        # or a literal with constant keys) and only used here
        fnode = Flat(f).node
        for k in c.keywords:
            if k.arg is not None or not isinstance(k.value, ast.Name):
                continue
            nm = k.value.id
            uses = [n for n in walk_no_nested(fnode)
                    if isinstance(n, ast.Name) and n.id == nm]
            defs = [n for n in walk_no_nested(fnode)
                    if isinstance(n, ast.Assign) and len(n.targets) == 1 and
                    norm(n.targets[0]) == nm]
            if len(defs) != 1 or len(uses) != 2:
                continue
            d = defs[0].value
            pairs = None
            if isinstance(d, ast.Call) and dotted(d.func) == 'dict' and \
                    not d.args and all(x.arg for x in d.keywords):
                pairs = [(x.arg, x.value) for x in d.keywords]
            elif isinstance(d, ast.Dict) and all(
                    kk is not None and const_str(kk) is not None
                    for kk in d.keys):
                pairs = [(const_str(kk), v) for kk, v in zip(d.keys,
                                                             d.values)]
            if pairs is None:
                continue
            star.remove(nm)
            for kk, v in pairs:
                kws[kk] = norm(v)
        missing = [p for p in ps if p not in kws and p not in star]
        wrong = ['%s=%s' % (k, v) for k, v in kws.items()
                 if k != 'method' and v != k]
        ok = not missing and not wrong and 'method' in kws
        r11.ob(ok, f.name, {'staged': sorted(kws), 'star': star})
        if not ok:
            rep.finding(r11, f.qualname, norm(c, 60), 'staged-args', OPS,
                        c.lineno,
                        'the recorders are not given the call as it was '
                        'made: missing %s, passed under another name / '
                        'value %s' % (missing or 'nothing', wrong or
                                      'nothing'))
    if r11.sites < 30:
        raise AnalysisError('C19.R11: only %d operations' % r11.sites)


def record_staged_is_read_only(repo, rep):
    """C19.R12: record_staged() only reads what was staged.  Operations nest
    on one connection (a mock provider runs ReferenceNames on the same
    connection while the client's DeleteInstance is in progress), so
    record_staged() runs once for the inner and once for the outer
    operation; if it clears the staged fields, the outer call records None
    values and TestClientRecorder.record() raises TypeError in the
    operation's finally clause - a successful operation fails only because
    a recorder is enabled."""
    r12 = rep.rule('C19.R12', 'record_staged() does not change the staged '
                   'state')
    n = 0
    for c in repo.module(REC).classes.values():
        f = c.methods.get('record_staged')
        if f is None:
            continue
        n += 1
        r12.sites += 1
        r12.functions.add(f.fq)
        bad = []
        for x in walk_no_nested(f.node):
            if isinstance(x, ast.Attribute) and \
                    isinstance(x.ctx, (ast.Store, ast.Del)) and \
                    norm(x).startswith('self._'):
                bad.append(x)
            if isinstance(x, ast.Call) and dotted(x.func) in (
                    'self.reset', 'self.__init__'):
                bad.append(x)
        r12.ob(not bad, f.qualname)
        for x in bad[:1]:
            rep.finding(r12, f.qualname, norm(x, 50), 'clears-staged-state',
                        REC, x.lineno,
                        '%s changes the staged fields: when operations nest '
                        '(the mock subscription providers call the '
                        'connection while an operation is in progress) the '
                        'outer operation\'s record_staged() then sees None '
                        'and record() raises TypeError from the finally '
                        'clause of a successful operation' % norm(x, 50))
    if n < 2:
        raise AnalysisError('C19.R12: only %d record_staged() found' % n)


def staging_keywords_cannot_collide(repo, rep):
    """C19.R13: handing the call to the recorders cannot fail for arguments
    the operation itself accepts.  An operation with `**params` (the input
    parameters of a CIM method) that stages them as
    `stage(method=..., A=A, **params)` raises TypeError ("multiple values
    for keyword argument") when the caller's keywords contain one of the
    explicitly named keywords that is not a parameter of the operation -
    but only when a recorder is enabled; without recorders the same call
    succeeds."""
    r13 = rep.rule('C19.R13', 'keywords forwarded to the recorders cannot '
                   'collide with the keywords the staging call names itself')
    n = 0
    for op in operations(repo):
        f = op.func
        kwname = f.node.args.kwarg.arg if f.node.args.kwarg else None
        for c in walk_no_nested(f.node):
            if not (isinstance(c, ast.Call) and
                    (dotted(c.func) or '').startswith(
                        'self.operation_recorder_stage_')):
                continue
            n += 1
            r13.sites += 1
            r13.functions.add(f.fq)
            fwd = [k for k in c.keywords if k.arg is None and
                   isinstance(k.value, ast.Name) and k.value.id == kwname]
            own = set(f.params)
            risky = sorted(k.arg for k in c.keywords
                           if k.arg is not None and k.arg not in own) \
                if fwd else []
            r13.ob(not risky, '%s|%s' % (f.name, norm(c.func)),
                   {'forwards': kwname if fwd else None, 'collides': risky})
            if risky:
                rep.finding(r13, f.qualname,
                            '%s(%s, **%s)' % (
                                norm(c.func),
                                ', '.join(k_ + '=...' for k_ in risky),
                                kwname),
                            'keyword-collision', OPS, c.lineno,
                            'the caller\'s **%s are forwarded next to the '
                            'keyword(s) %s, which are not parameters of %s: '
                            '%s(..., %s=x) works without recorders and '
                            'raises TypeError (multiple values for keyword '
                            'argument) when a recorder is enabled'
                            % (kwname, risky, f.name, f.name, risky[0]))
    if n < 30:
        raise AnalysisError('C19.R13: only %d staging calls' % n)


def _builtin_subclasses(repo, builtin):
    """names of the classes of the pywbem package that derive from the
    builtin type"""
    out = set()
    for c in repo.all_classes():
        if not c.module.relpath.startswith('pywbem/') or \
                '_vendor' in c.module.relpath:
            continue
        if any(builtin in k.base_exprs for k in c.mro()):
            out.add(c.name)
    return out


def toyaml_returns_plain_values(repo, rep):
    """C19.R14: what TestClientRecorder.toyaml() returns can be written by
    the safe YAML dumper: None, bool, exact int / float / str, or lists /
    dicts of such.  The safe dumper looks representers up by exact type, so
    an instance of a pywbem class - a CIMDateTime built from a datetime
    argument, or the argument itself when it is only known to be *a* str
    (Char16 is a str subclass) - raises RepresenterError in record(): the
    operation fails only because the recorder is enabled."""
    from ..paths import return_paths
    r14 = rep.rule('C19.R14', 'toyaml() returns only values the safe YAML '
                   'dumper can represent')
    rc = repo.cls(REC, 'TestClientRecorder')
    f = rc.methods.get('toyaml')
    if f is None:
        raise AnalysisError('TestClientRecorder.toyaml vanished')
    r14.functions.add(f.fq)
    arg = [p_ for p_ in f.params if p_ != 'self'][0]
    paths = return_paths(f, max_paths=3000, inline=False)
    if not paths:
        raise AnalysisError('toyaml: paths cannot be enumerated')
    PLAIN_CALLS = ('int', 'float', 'str', 'bool', 'list', 'dict',
                   'OrderedDict', 'self.toyaml')
    judged = set()
    for pth in paths:
        v = pth.value
        if v is None:
            continue
        key = id(pth.ret_stmt)
        if key in judged:
            continue
        kind = None
        detail = None
        rv = v
        if isinstance(rv, ast.Name) and rv.id != arg and rv.id in pth.env:
            rv = pth.env[rv.id][0]
        if isinstance(rv, ast.Constant):
            kind = 'plain'
        elif isinstance(rv, (ast.List, ast.Dict, ast.ListComp,
                             ast.DictComp)):
            kind = 'plain'
        elif isinstance(rv, ast.Call):
            d = dotted(rv.func) or ''
            if d in PLAIN_CALLS or (isinstance(rv.func, ast.Attribute) and
                                    rv.func.attr in ('decode', 'join',
                                                     'format')):
                kind = 'plain'
            elif repo.find_class(d.split('.')[-1]) is not None:
                kind = 'object'
                detail = 'an instance of %s' % d
        elif isinstance(rv, ast.Name) and rv.id == arg:
            # the argument itself: which classes can it still be?
            pos, neg = set(), set()
            is_none = False
            for t, pol in pth.facts:
                if isinstance(t, ast.Call) and \
                        dotted(t.func) == 'isinstance' and \
                        norm(t.args[0]) == arg:
                    ns = {norm(x) for x in (
                        t.args[1].elts if isinstance(t.args[1], ast.Tuple)
                        else [t.args[1]])}
                    (pos if pol else neg).update(ns)
                if isinstance(t, ast.Compare) and pol and \
                        norm(t) == '%s is None' % arg:
                    is_none = True
            if is_none:
                kind = 'plain'
            else:
                leak = set()
                for b in pos & {'str', 'int', 'float', 'bytes'}:
                    for cn in _builtin_subclasses(repo, b):
                        c = repo.find_class(cn)
                        excluded = any(
                            k.name in neg for k in c.mro())
                        if not excluded:
                            leak.add(cn)
                repo_pos = [n_ for n_ in pos
                            if repo.find_class(n_) is not None]
                if pos and not leak and not repo_pos:
                    kind = 'plain'
                elif leak or repo_pos:
                    kind = 'object'
                    detail = 'the argument itself, which can be an ' \
                        'instance of %s' % sorted(leak or repo_pos)
        judged.add(key)
        r14.sites += 1
        if kind is None:
            r14.undecided.append('toyaml: return %s' % norm(v, 50))
            continue
        r14.ob(kind == 'plain', 'return %s @%s' % (
            norm(v, 40), norm(pth.facts[-1][0], 40) if pth.facts else ''))
        if kind != 'plain':
            cond = next((norm(t, 60) for t, pol in reversed(pth.facts)
                         if pol), '')
            rep.finding(r14, f.qualname, 'if %s: return %s'
                        % (cond, norm(v, 50)), 'not-yaml-plain', REC,
                        getattr(pth.ret_stmt, 'lineno', f.node.lineno),
                        'toyaml() returns %s: the safe YAML dumper has no '
                        'representer for that type, record() raises '
                        'RepresenterError and the operation fails only '
                        'because the TestClientRecorder is enabled'
                        % detail, alt='returns %s' % detail)
    if r14.sites < 15:
        raise AnalysisError('C19.R14: only %d return statements of toyaml '
                            'judged' % r14.sites)


def maxlen_is_an_int(repo, rep):
    """C19.R15: the truncation lengths of the log recorder are integers or
    None.  api_maxlen / http_maxlen are compared with len(...) while an
    operation is in progress; a detail level name ('all', 'paths',
    'summary') stored there makes that comparison raise TypeError - the
    operation fails only because logging is configured.  Every value stored
    into a *_maxlen attribute must therefore be None, an int constant, or an
    expression that the same statement knows to be an int
    (isinstance(<that expression>, int))."""
    from ..cfg import stmt_facts, expr_guards
    r15 = rep.rule('C19.R15', 'values stored in the *_maxlen attributes of '
                   'the log recorder are None or known ints')
    lr = repo.cls(REC, 'LogOperationRecorder')
    n = 0
    for name, f in sorted(lr.methods.items()):
        sf = stmt_facts(f.node)
        for st, (fs, _t) in sf.items():
            if not (isinstance(st, ast.Assign) and len(st.targets) == 1 and
                    isinstance(st.targets[0], ast.Attribute) and
                    st.targets[0].attr.endswith('_maxlen')):
                continue

            def leaves(e, guards):
                if isinstance(e, ast.IfExp):
                    yield from leaves(e.body, guards + [(e.test, True)])
                    yield from leaves(e.orelse, guards + [(e.test, False)])
                else:
                    yield e, guards
            for v, guards in leaves(st.value, []):
                n += 1
                r15.sites += 1
                r15.functions.add(f.fq)
                if isinstance(v, ast.Constant) and (
                        v.value is None or isinstance(v.value, int)):
                    r15.ob(True, '%s|%s' % (name, norm(st, 50)))
                    continue
                known = False
                for t, pol in list(fs) + guards:
                    if pol and isinstance(t, ast.Call) and \
                            dotted(t.func) == 'isinstance' and \
                            len(t.args) == 2 and \
                            norm(t.args[0]) == norm(v) and \
                            norm(t.args[1]) in ('int', '(int,)'):
                        known = True
                r15.ob(known, '%s|%s' % (name, norm(st, 50)),
                       {'value': norm(v, 40)})
                if not known:
                    rep.finding(r15, f.qualname, norm(st, 80),
                                'maxlen-not-int', REC, st.lineno,
                                '%s is stored in %s without a test that '
                                '*this* value is an int: a detail level '
                                'name ends up as the maximum length, and '
                                'the length comparison in stage_http_* / '
                                'stage_pywbem_* raises TypeError inside '
                                'every operation'
                                % (norm(v, 40), norm(st.targets[0])))
    if n < 2:
        raise AnalysisError('C19.R15: only %d stores into *_maxlen' % n)


def message_data_is_used_type_agnostically(repo, rep):
    """C19.R16: `request_data` / `response_data` of the pywbem exceptions
    are documented as strings, but the operations store the raw reply in
    them (`exce.response_data = self.last_raw_reply`: bytes) while the HTTP
    layer passes `resp.text` (str).  Code that reads them therefore must
    work for both: interpolation, None / truth tests, len() and slicing do;
    concatenation with a literal, %-formatting and str-only or bytes-only
    methods do not.  The exception text is built when an observer formats
    the exception (LogOperationRecorder in the `finally` of every
    operation): a str-only expression in `__str__` turns a parse error of a
    real connection into TypeError only when the API logger is on."""
    r = rep.rule('C19.R16', 'request_data / response_data of exceptions are '
                 'read in ways that work for bytes and for str')
    ATTRS = ('request_data', 'response_data', '_request_data',
             '_response_data')
    # premise: a bytes source and a str source both exist
    ops = repo.module('pywbem/_cim_operations.py')
    bytes_src = any(
        isinstance(n, ast.Assign) and
        isinstance(n.targets[0], ast.Attribute) and
        n.targets[0].attr in ATTRS and 'raw' in norm(n.value)
        for f in ops.all_funcs() for n in walk_no_nested(f.node))
    if not bytes_src:
        r.notes.append('the operations no longer store the raw reply in '
                       'the exception: the attributes have one type, '
                       'nothing to check')
        return
    nfun = 0
    for m in repo.modules.values():
        if not m.relpath.startswith('pywbem/'):
            continue
        for f in m.all_funcs():
            nfun += 1
            parent = {}
            for n in ast.walk(f.node):
                for c in ast.iter_child_nodes(n):
                    parent[c] = n
            # locals that are plain copies of the attribute
            names = set()
            for n in walk_no_nested(f.node):
                if isinstance(n, ast.Assign) and len(n.targets) == 1 and \
                        isinstance(n.targets[0], ast.Name) and \
                        isinstance(n.value, ast.Attribute) and \
                        n.value.attr in ATTRS:
                    names.add(n.targets[0].id)
            for n in walk_no_nested(f.node):
                is_read = (isinstance(n, ast.Attribute) and
                           n.attr in ATTRS and
                           isinstance(n.ctx, ast.Load)) or \
                    (isinstance(n, ast.Name) and n.id in names and
                     isinstance(n.ctx, ast.Load))
                if not is_read:
                    continue
                # climb through slices: a slice of bytes/str has the
                # type of the whole
                cur = n
                p_ = parent.get(cur)
                while isinstance(p_, ast.Subscript) and p_.value is cur \
                        and isinstance(p_.slice, ast.Slice):
                    cur, p_ = p_, parent.get(p_)
                bad = None
                if isinstance(p_, ast.BinOp) and \
                        not isinstance(p_.op, ast.Mult):
                    other = p_.right if p_.left is cur else p_.left
                    if isinstance(p_.op, ast.Mod) and p_.right is cur:
                        bad = None      # '...%s' % data: interpolation
                    elif isinstance(other, (ast.Constant, ast.JoinedStr)):
                        bad = 'combined with a %s literal by %s' % (
                            type(getattr(other, 'value', '')).__name__
                            if isinstance(other, ast.Constant) else 'str',
                            type(p_.op).__name__)
                    else:
                        bad = 'operand of %s' % type(p_.op).__name__
                elif isinstance(p_, ast.AugAssign) and p_.target is cur:
                    bad = 'augmented assignment'
                elif isinstance(p_, ast.Attribute) and p_.value is cur and \
                        isinstance(parent.get(p_), ast.Call) and \
                        parent[p_].func is p_:
                    bad = 'method .%s() called on it' % p_.attr
                elif isinstance(p_, ast.Compare) and any(
                        isinstance(o, (ast.In, ast.NotIn)) for o in p_.ops) \
                        and any(isinstance(x, ast.Constant) and
                                isinstance(x.value, (str, bytes))
                                for x in [p_.left] + p_.comparators):
                    bad = 'membership test with a literal'
                if bad:
                    # an isinstance() fact on the value makes it typed
                    facts = stmt_facts(f.node)
                    st = cur
                    while st is not None and not isinstance(st, ast.stmt):
                        st = parent.get(st)
                    fs = facts.get(st, ((), ()))[0] if st is not None else ()
                    if any(isinstance(t, ast.Call) and
                           dotted(t.func) == 'isinstance' and pol and
                           norm(t.args[0]) == norm(n) for t, pol in fs):
                        bad = None
                r.sites += 1
                r.functions.add(f.fq)
                r.ob(not bad, '%s|%s' % (f.qualname, norm(parent.get(n, n),
                                                          60)))
                if bad:
                    rep.finding(r, f.qualname, norm(p_, 70),
                                'type-specific-use', f.file, n.lineno,
                                '%s holds bytes (raw reply stored by the '
                                'operations) or str (HTTP layer, '
                                'documentation), and is %s: that fails for '
                                'one of the two, and only when an observer '
                                'formats the exception'
                                % (norm(n), bad))
    if nfun < 500:
        raise AnalysisError('C19.R16: only %d functions scanned' % nfun)
